// C06 demo - basement wall U deviates more than 0.01 from the EN ISO 13370 value (U_w and U_bw are rounded before being reused)
// Goes to bemodel/tests/. Run:
//   cd /tmp/seed-h06 && cp SEED/demo_9.rs bemodel/tests/ && cargo test -p bemodel --offline -j 4 --test demo_9
// The test FAILS on the unmodified code (that is the demonstration).
//
// FINDING 9 - clause: 'equals to two decimals' the EN ISO 13370 9.3.3 basement wall value
// Input: space 10x10, height h, depth z, slab R_f, GROUND wall with resistance-only R_w; see the list in the test.
// Expected/actual: 0.5912/0.58, 0.7208/0.71, 0.4489/0.46, 0.8293/0.84, 0.0986/0.11 (|error| > 0.01).
// Cause: transmittance.rs:488 (U_w rounded), 612 d_w = LAMBDA_GND/U_w from the rounded value, 622 (U_bw rounded), 640 (rounded again).
// Fix: keep U_w, U_bw unrounded inside u_value and round once.
#![allow(non_snake_case, dead_code)]

use bemodel::{
    point, BoundaryType, Layer, MatProps, Material, Model, Space, SpaceType, Uuid, Wall, WallCons,
    WallGeom,
};
use BoundaryType::*;

const TOP: f32 = 0.0;
const SIDE: f32 = 90.0;
const BOTTOM: f32 = 180.0;

fn uid(n: u128) -> Uuid {
    Uuid::from_u128(n)
}

fn mat(m: &mut Model, id: u128, conductivity: f32) -> Uuid {
    m.cons.materials.push(Material {
        id: uid(id),
        name: format!("mat{}", id),
        properties: MatProps::Detailed {
            conductivity,
            density: 1000.0,
            specific_heat: 1000.0,
            vapour_diff: None,
        },
    });
    uid(id)
}

fn rmat(m: &mut Model, id: u128, resistance: f32) -> Uuid {
    m.cons.materials.push(Material {
        id: uid(id),
        name: format!("rmat{}", id),
        properties: MatProps::Resistance {
            resistance,
            vapour_diff: None,
        },
    });
    uid(id)
}

fn cons(m: &mut Model, id: u128, layers: &[(Uuid, f32)]) -> Uuid {
    m.cons.wallcons.push(WallCons {
        id: uid(id),
        name: format!("cons{}", id),
        layers: layers
            .iter()
            .map(|(material, e)| Layer {
                material: *material,
                e: *e,
            })
            .collect(),
        absorptance: 0.6,
    });
    uid(id)
}

fn space(m: &mut Model, id: u128, kind: SpaceType, height: f32, z: f32, n_v: Option<f32>) -> Uuid {
    m.spaces.push(Space {
        id: uid(id),
        name: format!("space{}", id),
        multiplier: 1.0,
        kind,
        inside_tenv: true,
        height,
        z,
        loads: None,
        thermostat: None,
        n_v,
        illuminance: None,
    });
    uid(id)
}

#[allow(clippy::too_many_arguments)]
fn wall(
    m: &mut Model,
    id: u128,
    bounds: BoundaryType,
    cons: Uuid,
    space: Uuid,
    next_to: Option<Uuid>,
    tilt: f32,
    w: f32,
    h: f32,
) -> Uuid {
    m.walls.push(Wall {
        id: uid(id),
        name: format!("wall{}", id),
        bounds,
        cons,
        space,
        next_to,
        geometry: WallGeom {
            tilt,
            azimuth: 0.0,
            position: None,
            polygon: vec![point![0.0, 0.0], point![w, 0.0], point![w, h], point![0.0, h]],
        },
    });
    uid(id)
}

fn u(m: &Model, id: Uuid) -> Option<f32> {
    m.get_wall(id).unwrap().u_value(m)
}

fn r2(x: f64) -> f64 {
    (x * 100.0).round() / 100.0
}


fn model_bw(r_wall: f32, r_slab: f32, z: f32, height: f32) -> (Model, Uuid, Uuid) {
    let mut m = Model::default();
    let rw = rmat(&mut m, 1, r_wall);
    let rs = rmat(&mut m, 2, r_slab);
    let cw = cons(&mut m, 10, &[(rw, 0.3)]);
    let cs = cons(&mut m, 11, &[(rs, 0.3)]);
    let croof = cons(&mut m, 12, &[]); // zero thickness roof -> net height = height
    let sp = space(&mut m, 100, SpaceType::CONDITIONED, height, -z, None);
    let slab = wall(&mut m, 1000, GROUND, cs, sp, None, BOTTOM, 10.0, 10.0);
    let w = wall(&mut m, 1001, GROUND, cw, sp, None, SIDE, 40.0, height);
    wall(&mut m, 1002, EXTERIOR, croof, sp, None, TOP, 10.0, 10.0);
    (m, slab, w)
}

fn bw_u_13370(r_wall: f64, r_slab: f64, z: f64, height: f64) -> f64 {
    let lambda = 2.0;
    let pi = std::f64::consts::PI;
    let U_w = 1.0 / (0.13 + r_wall + 0.04);
    if z <= 0.0 {
        return U_w;
    }
    let d_w = lambda * (0.13 + r_wall + 0.04);
    let mut d_t = 0.3 + lambda * (0.17 + r_slab + 0.04);
    if d_w < d_t {
        d_t = d_w;
    }
    let U_bw = 2.0 * lambda / (pi * z) * (1.0 + 0.5 * d_t / (d_t + z)) * (z / d_w + 1.0).ln();
    if height > z {
        (z * U_bw + (height - z) * U_w) / height
    } else {
        U_bw
    }
}

#[test]
fn basement_wall_rounding_chain() {
    let mut bad = vec![];
    // (R_wall, R_slab, z, height)
    for (r_wall, r_slab, z, height) in [
        (0.935f32, 0.0f32, 2.1f32, 3.0f32),
        (0.735, 1.0, 2.0, 2.7),
        (1.12, 0.0, 2.5, 3.0),
        (0.76, 0.0, 1.5, 3.0),
        (8.5, 0.0, 1.5, 3.0),
    ] {
        let (m, _slab, w) = model_bw(r_wall, r_slab, z, height);
        let got = u(&m, w).unwrap() as f64;
        let exact = bw_u_13370(r_wall as f64, r_slab as f64, z as f64, height as f64);
        println!("R_w={} R_f={} z={} h={}: got {} exact {:.4} (-> {})", r_wall, r_slab, z, height, got, exact, r2(exact));
        if (got - exact).abs() > 0.01 {
            bad.push((r_wall, z, height, got, exact));
        }
    }
    assert!(bad.is_empty(), "more than 0.01 away from the standard value: {:?}", bad);
}
