// C05 demo 1 - the indicators export (EnergyIndicators::as_json) is not byte-reproducible
//
// Clause: "Export and indicators are deterministic, reproducible and history-independent";
//         "Computing indicators for a model gives the same values whatever was computed
//         before or is being computed concurrently"; Makefile run_vyp/run_gt regenerates
//         bemodel/tests/data/<case>_results.json with `thor ... -r <case>_results.json`.
//
// Input:  the shipped model bemodel/tests/data/e4h_medianeras.json (windows in several
//         orientations). Nothing generated, nothing edited.
//
// Expected: `model.energy_indicators().as_json()` is one and the same text every time it is
//         computed for the same model (same process, other threads, fresh process), like the
//         model export `Model::as_json()` is.
// Actual: the text changes from call to call. Across 32 computations of the same model
//         (16 sequential + 16 threads) several different texts come out (18 distinct ones in the recorded run);
//         the only difference is the ORDER of the keys of "q_soljul_data"."detail"
//         ({"N":..,"S":..,"E":..,"W":..} in a different order each time). The numeric values are
//         equal (the second test below checks that and passes): the violation is of the
//         byte-identity / reproducibility of the export, not of the values.
//         Also reproduced with fresh processes:
//           for i in 1 2 3; do target/debug/thor hulc_tests/tests/e4h_medianeras/e4h_medianeras.ctehexml \
//               -o m$i.json -r r$i.json; done; md5sum m?.json r?.json
//         -> the three m?.json are identical, the three r?.json all differ.
//
// Cause:  bemodel/src/energy/indicators/qsoljul.rs:37
//             pub detail: HashMap<Orientation, QSolJulDetail>,
//         std HashMap uses a per-instance random SipHash key, so its iteration (and therefore
//         serialization) order is different for every map instance and every process. It is the
//         only unordered collection that reaches an exported JSON (everything else in
//         EnergyIndicators/EnergyProps/Model is Vec or BTreeMap).
//
// Minimal fix: make it an ordered map:
//             pub detail: BTreeMap<Orientation, QSolJulDetail>,
//         and add `PartialOrd, Ord` to the derive list of `Orientation`
//         (bemodel/src/types/common.rs:96). `entry().or_default()` and `iter_mut()` used in
//         QSolJulData::from work unchanged on BTreeMap.
//
// Goes to: bemodel/tests/demo_1.rs
// Run:     cd /tmp/seed-h05 && cargo test -p bemodel --offline -j 4 --test demo_1
//          (indicators_json_is_reproducible FAILS, indicators_values_are_equal passes)

use std::collections::{BTreeMap, BTreeSet};

use bemodel::Model;

fn model() -> Model {
    Model::from_json(include_str!("./data/e4h_medianeras.json")).unwrap()
}

#[test]
fn indicators_json_is_reproducible() {
    let m = model();
    let reference = m.energy_indicators().as_json().unwrap();
    let mut distinct: BTreeSet<String> = BTreeSet::new();
    distinct.insert(reference);
    // same process, one after another
    for _ in 0..15 {
        distinct.insert(m.energy_indicators().as_json().unwrap());
    }
    // 16 threads
    let handles: Vec<_> = (0..16)
        .map(|_| std::thread::spawn(|| model().energy_indicators().as_json().unwrap()))
        .collect();
    for h in handles {
        distinct.insert(h.join().unwrap());
    }
    assert_eq!(
        distinct.len(),
        1,
        "the same model produced {} different indicator JSON texts",
        distinct.len()
    );
}

/// Control: the values are the same, only the key order of q_soljul_data.detail changes
#[test]
fn indicators_values_are_equal() {
    let m = model();
    let canon = |m: &Model| {
        let ind = m.energy_indicators();
        let detail: BTreeMap<String, String> = ind
            .q_soljul_data
            .detail
            .iter()
            .map(|(k, v)| (format!("{:?}", k), format!("{:?}", v)))
            .collect();
        let mut q = ind.q_soljul_data.clone();
        q.detail.clear();
        format!(
            "{:?}|{:?}|{:?}|{:?}|{:?}|{:?}|{:?}|{:?}|{:?}|{:?}",
            ind.area_ref,
            ind.compactness,
            ind.vol_env_net,
            ind.vol_env_gross,
            ind.props,
            ind.K_data,
            q,
            detail,
            ind.n50_data,
            ind.warnings
        )
    };
    let a = canon(&m);
    for _ in 0..5 {
        assert_eq!(a, canon(&m));
    }
}
