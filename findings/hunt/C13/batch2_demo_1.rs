// C13 finding 1 -- reveal (setback) surfaces are generated in the wrong frame when the wall polygon
// does not start at (0,0) with its first edge along +X
//
// Clause: "the reveal surfaces generated for a set-back window span exactly the gap between the wall
//          plane and the window plane along the window's four edges" (all windows with setback in (0,1]
//          on walls of any pose).
//
// Input (generated model, two descriptions of the SAME physical wall + window):
//   A: wall tilt=90 azimuth=0 position=(10,5,0)  polygon=[(0,0),(5,0),(5,3),(0,3)]
//   B: wall tilt=90 azimuth=0 position=(8,5,-1)  polygon=[(2,1),(7,1),(7,4),(2,4)]   (polygon shifted by
//      (+2,+1), position shifted by the opposite amount: every wall corner is at the same global place)
//   window (both): position=(1,1) width=1 height=1 setback=0.5
//   The window position is the distance from the left/bottom border of the wall (hulc::bdl::Window::x/y,
//   "distancia del borde izquierdo del hueco al borde izquierdo del cerramiento"), i.e. it is relative to
//   polygon[0] with X along polygon[1]-polygon[0]. Model::ray_origins_for_window uses exactly that frame
//   (radiation.rs:272-297, to_polygon_coords_matrix), so in A and B the window occupies the global
//   rectangle x in [11,12], z in [1,2], wall plane y=5, window plane y=5.5.
//
// Expected: in both A and B the four reveals are the quads joining the window edges at y=5 with the same
//   edges at y=5.5 (x in [11,12], z in [1,2]); sunlit fraction for sun azimuth 0 / altitude 60 is 0.2
//   (the 0.5 m deep top reveal shades every sample row whose height above the sill is > 1-0.5*tan(60)=0.134;
//   sample rows are at 0.1,0.3,0.5,0.7,0.9 -> 4 of 5 rows shaded).
// Actual: A is right (reveals around x in [11,12], z in [1,2], sunlit 0.2). In B the reveals are built
//   around x in [9,10], z in [0,1] (2 m to the left and 1 m below the window whose sample points are still at
//   x in [11,12], z in [1,2]); the window gets no reveal shading at all: sunlit fraction 1.0 instead of 0.2.
//
// Cause: bemodel/src/types/window.rs:70, 91, 110, 129 -- Window::shades_for_setback places the reveals with
//   `wall2world * point![wpos.x, wpos.y (+height), 0.0]`, i.e. it reads the window position in the wall's
//   local frame, whereas the window (its sample points, radiation.rs:293-297) lives in the wall *polygon*
//   frame (origin polygon[0], X along polygon[1]-polygon[0]). The two frames coincide only when the wall
//   polygon starts at (0,0) with the first edge along +X (true for all the sample projects, false for walls
//   defined by an arbitrary polygon, from_ctehexml.rs:216-219).
//   (Same frame slip for BDL overhangs/fins in bemodel/src/convert/from_ctehexml.rs:343-356.)
//
// Minimal fix: in shades_for_setback map the window corners through wallgeom.to_polygon_coords_matrix()
//   before applying wall2world (position = wall2world * lift(to_poly * point![wpos.x, wpos.y + h]) ...), and
//   rotate the in-plane axes of the four reveals by the angle of polygon[1]-polygon[0] (add that rotation
//   about the wall normal to the reveal frames) so that they follow the window edges.
//
// Goes to: bemodel/tests/demo_1.rs
// Run:     cd /tmp/seed-h13 && cp SEED/demo_1.rs bemodel/tests/ && cargo test -p bemodel --offline -j 4 --test demo_1

use bemodel::energy::ray_dir_to_sun;
use bemodel::{point, Model, Point2, Point3, Wall, WallGeom, WinGeom, Window};

fn build(position: Point3, polygon: Vec<Point2>) -> Model {
    let mut model = Model::default();
    let wall = Wall {
        geometry: WallGeom { tilt: 90.0, azimuth: 0.0, position: Some(position), polygon },
        ..Default::default()
    };
    let window = Window {
        wall: wall.id,
        geometry: WinGeom { position: Some(point![1.0, 1.0]), width: 1.0, height: 1.0, setback: 0.5 },
        ..Default::default()
    };
    model.walls.push(wall);
    model.windows.push(window);
    model
}

/// Global corners (rounded to mm) of the reveal quads linked to the window, and bounding box of them
fn reveal_corners(model: &Model) -> Vec<[i64; 3]> {
    let wid = model.windows[0].id;
    let mut pts = vec![];
    for oc in model.collect_occluders().iter().filter(|o| o.linked_to_id == Some(wid)) {
        let to_global = oc.trans_matrix.unwrap().inverse();
        for p in &oc.polygon {
            let q = to_global * point![p.x, p.y, 0.0];
            pts.push([
                (q.x * 1000.0).round() as i64,
                (q.y * 1000.0).round() as i64,
                (q.z * 1000.0).round() as i64,
            ]);
        }
    }
    pts.sort();
    pts
}

fn sunlit(model: &Model) -> f32 {
    let w = &model.windows[0];
    let origins = model.ray_origins_for_window(w);
    let occluders = model.collect_occluders();
    model.sunlit_fraction(w, &origins, &ray_dir_to_sun(0.0, 60.0), &occluders)
}

#[test]
fn reveals_follow_the_window_whatever_the_wall_polygon_origin() {
    let a = build(
        point![10.0, 5.0, 0.0],
        vec![point![0.0, 0.0], point![5.0, 0.0], point![5.0, 3.0], point![0.0, 3.0]],
    );
    let b = build(
        point![8.0, 5.0, -1.0],
        vec![point![2.0, 1.0], point![7.0, 1.0], point![7.0, 4.0], point![2.0, 4.0]],
    );

    // Sanity: both descriptions put the window (its sample points) at the same place:
    // x in [11,12], z in [1,2], window plane y = 5.5
    for m in [&a, &b] {
        let o = m.ray_origins_for_window(&m.windows[0]);
        assert_eq!(o.len(), 25);
        for p in &o {
            assert!(p.x > 11.0 && p.x < 12.0 && p.z > 1.0 && p.z < 2.0, "sample point {p:?}");
            assert!((p.y - 5.5).abs() < 1e-4, "sample point {p:?}");
        }
    }

    // Expected reveal corners, from the statement: the 4 window edges at the wall plane (y=5) joined
    // with the same edges at the window plane (y=5.5): each of the 8 points appears in 2 quads
    let mut expected = vec![];
    for x in [11_000, 12_000] {
        for z in [1_000, 2_000] {
            for y in [5_000, 5_500] {
                expected.push([x, y, z]);
                expected.push([x, y, z]);
            }
        }
    }
    expected.sort();

    let ca = reveal_corners(&a);
    let cb = reveal_corners(&b);
    println!("reveal corners A (mm): {ca:?}");
    println!("reveal corners B (mm): {cb:?}");
    let (sa, sb) = (sunlit(&a), sunlit(&b));
    println!("sunlit fraction A = {sa}, B = {sb} (expected 0.2 for both)");

    assert_eq!(ca, expected, "description A: reveals not around the window");
    assert!((sa - 0.2).abs() < 1e-6, "description A: sunlit fraction {sa}");
    assert_eq!(cb, expected, "description B: reveals not around the window");
    assert!((sb - 0.2).abs() < 1e-6, "description B: sunlit fraction {sb}");
}
