// C13 finding 2 -- BVH answer differs from the exhaustive test when an obstacle box is flat (zero width in
// one axis, as the bounding box of every axis-aligned planar polygon is) and the ray runs inside its plane
//
// Clause: "For any set of obstacles - none, one, or many [...] - building the acceleration structure
//          terminates and its 'is this ray blocked' answer is identical to testing every obstacle one by one."
//
// Input: obstacles (AABB elements, as in the crate's own BVH unit tests):
//          A = AABB(min (0,0,0), max (0,1,1))   flat in X (bounding box of a planar polygon in the plane x=0)
//          B = AABB(min (1,0,0), max (2,1,1))
//        ray: origin (0, 0.5, -1), direction (0, 0, 1)  -> runs inside the plane x=0 and goes through A
//        BVH::build(vec![A, B], leaf) for leaf = 1, 2 and 30 (30 is the production value, radiation.rs:180)
//
// Expected: blocked (exhaustive: A.intersects(ray) = Some(1.0), the ray enters A at z=0; B is missed)
// Actual:   exhaustive = blocked, BVH = not blocked (bvh.intersects(ray) = None) for every leaf size.
//
// Cause: bemodel/src/energy/raytracing/aabb.rs:84-96 (AABB::intersects). With dir.x = 0, idx = inf and
//   (min.x - origin.x) * idx = 0 * inf = NaN whenever the origin is exactly on a slab boundary. f32::min/max
//   ignore a NaN operand, so:
//     - element A (min.x == max.x == origin.x): t1 = t2 = NaN, the X slab is silently skipped -> hit;
//     - the enclosing node/leaf box (0,0,0)-(2,1,1) built in bvh.rs:163,172,190,282: t1 = NaN, t2 = +inf,
//       t1.min(t2) = +inf -> tmin = +inf > tmax -> miss, and the traversal (bvh.rs:384) never reaches A.
//   The slab test is therefore not monotone (a box can be missed while a box it contains is hit), which is
//   what the BVH pruning relies on. (The same NaN makes BVH<WallGeom> differ from the exhaustive answer for
//   hits lying exactly on a polygon edge that is on the border of a node box; with the production element
//   type, &Occluder, the inconsistency is masked because a ray inside a polygon's plane is never a hit.)
//
// Minimal fix: make the slab test NaN-free and monotone, e.g. per axis
//     if ray.dir.x == 0.0 { if origin.x < min.x || origin.x > max.x { return None } /* else: no constraint */ }
//     else { slab as now }
//   (the origin on the boundary counts as inside for flat and thick boxes alike).
//
// Goes to: bemodel/tests/demo_2.rs
// Run:     cd /tmp/seed-h13 && cp SEED/demo_2.rs bemodel/tests/ && cargo test -p bemodel --offline -j 4 --test demo_2

use bemodel::energy::{Intersectable, Ray, AABB, BVH};
use bemodel::{point, vector};

#[test]
fn bvh_equals_exhaustive_with_flat_box() {
    let a = AABB::new(point![0.0, 0.0, 0.0], point![0.0, 1.0, 1.0]);
    let b = AABB::new(point![1.0, 0.0, 0.0], point![2.0, 1.0, 1.0]);
    let elements = vec![a, b];
    let ray = Ray::new(point![0.0, 0.5, -1.0], vector![0.0, 0.0, 1.0]);

    // Testing every obstacle one by one
    let exhaustive = elements.iter().any(|e| e.intersects(&ray).is_some());
    // Independent expectation: the ray {x=0, y=0.5, z=-1+t} meets A = {0}x[0,1]x[0,1] for t in [1,2]
    assert!(exhaustive, "the ray goes through A");

    let mut differing = vec![];
    for leaf in [1usize, 2, 30] {
        let bvh = BVH::build(elements.clone(), leaf);
        let accelerated = bvh.intersects(&ray).is_some();
        println!("leaf size {leaf}: exhaustive = {exhaustive}, BVH = {accelerated}");
        if accelerated != exhaustive {
            differing.push(leaf);
        }
    }
    assert!(differing.is_empty(), "BVH differs from exhaustive test for leaf sizes {differing:?}");
}
