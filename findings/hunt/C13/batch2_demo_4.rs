// C13 finding 4 (low severity, threshold approximation) -- no reveal surfaces at all for setbacks under 1 cm
//
// Clause: "the reveal surfaces generated for a set-back window span exactly the gap between the wall plane and
//          the window plane along the window's four edges" -- quantified over all windows with setback in (0,1].
//
// Input: wall tilt=90 azimuth=0 position=(0,0,0) polygon=[(0,0),(5,0),(5,3),(0,3)];
//        window position=(1,1) width=1 height=1 setback=0.009 (and 0.011 as control)
//
// Expected: 4 reveal quads joining the window edges at the wall plane (y=0) with the window plane (y=setback);
//           the window plane itself IS moved back: Model::ray_origins_for_window puts the sample points at
//           y=0.009 (radiation.rs:296), so there is a 9 mm gap.
// Actual:   setback=0.009 -> 0 reveals (gap left open); setback=0.011 -> 4 reveals spanning y in [0, 0.011].
//
// Cause: bemodel/src/types/window.rs:47-49 -- `if wing.setback.abs() < 0.01 { return Some(vec![]) }`: a 1 cm
//   cut-off decides whether reveals exist, while ray_origins_for_window (radiation.rs:292-297) applies any
//   setback, however small.
//
// Minimal fix: use the same criterion on both sides, e.g. `if wing.setback <= 0.0 { return Some(vec![]) }`
//   (or clamp the setback to 0 in ray_origins_for_window below the same cut-off).
//
// Goes to: bemodel/tests/demo_4.rs
// Run:     cd /tmp/seed-h13 && cp SEED/demo_4.rs bemodel/tests/ && cargo test -p bemodel --offline -j 4 --test demo_4

use bemodel::{point, Model, Wall, WallGeom, WinGeom, Window};

/// (number of reveals, min y, max y of their global corners, y of the window plane sample points)
fn reveals(setback: f32) -> (usize, f32, f32, f32) {
    let mut model = Model::default();
    let wall = Wall {
        geometry: WallGeom {
            tilt: 90.0,
            azimuth: 0.0,
            position: Some(point![0.0, 0.0, 0.0]),
            polygon: vec![point![0.0, 0.0], point![5.0, 0.0], point![5.0, 3.0], point![0.0, 3.0]],
        },
        ..Default::default()
    };
    let window = Window {
        wall: wall.id,
        geometry: WinGeom { position: Some(point![1.0, 1.0]), width: 1.0, height: 1.0, setback },
        ..Default::default()
    };
    let wid = window.id;
    model.walls.push(wall);
    model.windows.push(window);
    let (mut n, mut ymin, mut ymax) = (0, f32::INFINITY, f32::NEG_INFINITY);
    for oc in model.collect_occluders().iter().filter(|o| o.linked_to_id == Some(wid)) {
        n += 1;
        let to_global = oc.trans_matrix.unwrap().inverse();
        for p in &oc.polygon {
            let q = to_global * point![p.x, p.y, 0.0];
            ymin = ymin.min(q.y);
            ymax = ymax.max(q.y);
        }
    }
    let window_plane_y = model.ray_origins_for_window(&model.windows[0])[0].y;
    (n, ymin, ymax, window_plane_y)
}

#[test]
fn reveals_exist_for_any_positive_setback() {
    let mut failures = vec![];
    for setback in [0.011_f32, 0.009] {
        let (n, ymin, ymax, wy) = reveals(setback);
        println!("setback {setback}: window plane at y={wy}, {n} reveals spanning y in [{ymin}, {ymax}]");
        // the window plane is set back by `setback`
        assert!((wy - setback).abs() < 1e-6);
        // expected: four reveals spanning exactly [0, setback]
        if !(n == 4 && ymin.abs() < 1e-6 && (ymax - setback).abs() < 1e-6) {
            failures.push(setback);
        }
    }
    assert!(failures.is_empty(), "reveals do not span the gap for setbacks {failures:?}");
}
