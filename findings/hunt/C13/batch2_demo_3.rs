// C13 finding 3 (low severity, threshold approximation) -- rays at a grazing angle below 1e-5 rad are never
// reported as hitting a polygon, although in exact arithmetic they cross its plane well inside the polygon
//
// Clause: "A ray is reported to hit a planar polygon exactly when, in exact arithmetic, it crosses the polygon's
//          plane in front of its origin at a point inside the polygon (for crossing points not within 1 mm of
//          the outline), whatever the polygon's position, tilt and azimuth" (all poses x rays). The statement
//          gives a tolerance for the outline only, not for the incidence angle.
//
// Input: polygon tilt=0 azimuth=0 position=(0,0,0) polygon=[(0,0),(20,0),(20,10),(0,10)]  (plane z=0)
//        ray 1: origin (1, 5, 0.0001), direction (1, 0, -0.000008)   (0.1 mm above the plane, going down)
//        ray 2: same origin, direction (1, 0, -0.00002)               (control)
//
// Expected: ray 1 crosses z=0 at t = 0.0001/0.000008 = 12.5 -> point (13.5, 5, 0), 5 m away from the outline:
//           hit. Ray 2 crosses at t = 5 -> point (6, 5, 0): hit.
// Actual:   ray 1 -> None (no hit); ray 2 -> Some(5.0).
//
// Cause: bemodel/src/energy/raytracing/ray.rs:10 and 70-73 -- `if denominator.abs() < EPSILON { return None }`
//   with EPSILON = 1e-5 on the cosine between ray and polygon normal: every ray within 1e-5 rad (0.0006 deg) of
//   the polygon plane is declared parallel, wherever it actually crosses the plane. (Both the data and the
//   intermediate values of this example are exactly representable well within f32 precision: it is the
//   threshold, not rounding, that discards the hit.)
//
// Minimal fix: only reject an exactly zero (or non finite) denominator and let the t >= 0 / point-in-polygon
//   tests decide: `if denominator == 0.0 { return None }` followed by `if !t.is_finite() || t < 0.0 { return None }`.
//
// Goes to: bemodel/tests/demo_3.rs
// Run:     cd /tmp/seed-h13 && cp SEED/demo_3.rs bemodel/tests/ && cargo test -p bemodel --offline -j 4 --test demo_3

use bemodel::energy::{Intersectable, Ray};
use bemodel::{point, vector, WallGeom};

/// Exact (f64) reference for a polygon lying in the plane z=0 with identity pose: rectangle [0,20]x[0,10]
fn expected_hit(o: [f64; 3], d: [f64; 3]) -> Option<f64> {
    if d[2] == 0.0 {
        return None;
    }
    let t = -o[2] / d[2];
    let (x, y) = (o[0] + t * d[0], o[1] + t * d[1]);
    // strictly inside and farther than 1 mm from the outline
    if t > 0.0 && x > 0.001 && x < 19.999 && y > 0.001 && y < 9.999 {
        Some(t)
    } else {
        None
    }
}

#[test]
fn grazing_ray_hits_polygon() {
    let geom = WallGeom {
        tilt: 0.0,
        azimuth: 0.0,
        position: Some(point![0.0, 0.0, 0.0]),
        polygon: vec![point![0.0, 0.0], point![20.0, 0.0], point![20.0, 10.0], point![0.0, 10.0]],
    };
    let mut failures = vec![];
    for dz in [-0.00002_f32, -0.000008] {
        let ray = Ray::new(point![1.0, 5.0, 0.0001], vector![1.0, 0.0, dz]);
        let exp = expected_hit(
            [ray.origin.x as f64, ray.origin.y as f64, ray.origin.z as f64],
            [ray.dir.x as f64, ray.dir.y as f64, ray.dir.z as f64],
        );
        let got = geom.intersects(&ray);
        println!("dir.z = {dz}: expected {exp:?}, got {got:?}");
        if exp.is_some() != got.is_some() {
            failures.push(dz);
        }
    }
    assert!(failures.is_empty(), "hit/no hit differs from exact geometry for dir.z in {failures:?}");
}
