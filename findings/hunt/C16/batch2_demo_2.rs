// C16 demo 2 -- purging introduces a broken link: `model.extra[i].cons` (and, in the same way,
//               `model.extra[i].nextspace`) is left pointing to a construction (space) that
//               purge has just removed.
//
// Clause: "... it introduces no broken link ..." and "nothing reachable is removed"
//   (the construction is still referred to by a remaining element of the model, the
//   `ExtraData` record, whose fields `cons: Uuid` and `nextspace: Option<Uuid>` are ids into
//   `model.cons.wallcons` and `model.spaces`, bemodel/src/types/model.rs:108-129).
//   CAVEAT: `extra` is auxiliary data (walls whose U differs from HULC's); if one does not
//   regard its ids as links this is not a violation. In every UNEDITED real model the extra
//   records agree with the walls and nothing breaks (checked on all 12 HULC projects, with and
//   without KyGananciasSolares.txt / NewBDL_O.tbl).
//
// Input: the real project hulc_tests/tests/casoA converted with
//   `collect_hulc_data("tests/casoA", true, true)` (this fills `model.extra`), then ONE edit of
//   the kind the quantifier describes as "random sharing (one construction used by many
//   walls)": every wall that uses the construction X named in the first extra record is
//   switched to another existing construction Y (the user replaces a construction throughout
//   the building). X is now unused.
//
// Expected (from the statement): every link that resolved before purging resolves after
//   purging; in particular `model.extra[0].cons` resolves in `model.cons.wallcons`.
// Actual: before purge `cons.get_wallcons(extra[0].cons)` is Some(X); after purge it is None
//   (X was removed because no *wall* uses it), so the record dangles.
//
// Cause: bemodel/src/purge.rs:115-124 (`purge_unused_wallcons`) and purge.rs:89-102
//   (`purge_unused_spaces`) take the used ids only from `model.walls`; `purge_unused`
//   (purge.rs:25-86) never looks at nor prunes `model.extra`.
//
// Minimal fix: in `purge_unused`, before purging constructions and spaces, drop the stale
//   extra records, i.e. keep only those whose wall (by name) still exists with the same
//   `cons` / `next_to` (or, alternatively, add `extra[*].cons` and `extra[*].nextspace` to the
//   used-id sets).
//
// Goes to: hulc_tests/tests/  (copy as hulc_tests/tests/c16_demo_2.rs)
// Run:     cd /tmp/seed-h16 && cargo test -p hulc_tests --offline -j 4 --test c16_demo_2

use bemodel::purge_unused;
use hulc2model::collect_hulc_data;

#[test]
fn c16_purge_breaks_extra_cons_link() {
    let mut model = collect_hulc_data("tests/casoA", true, true).unwrap();
    let extra = model.extra.clone().unwrap_or_default();
    assert!(
        !extra.is_empty(),
        "the converted project has no extra records"
    );

    // Construction named by the first extra record, and another existing construction
    let x = extra[0].cons;
    let y = model
        .cons
        .wallcons
        .iter()
        .map(|c| c.id)
        .find(|id| *id != x)
        .unwrap();

    // The edit: replace X by Y in every wall
    let mut n = 0;
    for w in model.walls.iter_mut().filter(|w| w.cons == x) {
        w.cons = y;
        n += 1;
    }
    assert!(n > 0);

    // Before purging, every extra record resolves
    let unresolved_before = model
        .extra
        .as_ref()
        .unwrap()
        .iter()
        .filter(|e| model.cons.get_wallcons(e.cons).is_none())
        .count();
    assert_eq!(unresolved_before, 0);

    purge_unused(&mut model);

    // After purging, no link that resolved before may be broken
    let unresolved_after: Vec<_> = model
        .extra
        .as_ref()
        .unwrap()
        .iter()
        .filter(|e| model.cons.get_wallcons(e.cons).is_none())
        .map(|e| (e.name.clone(), e.cons))
        .collect();
    assert!(
        unresolved_after.is_empty(),
        "purge left {} extra record(s) pointing to a removed construction: {:?}",
        unresolved_after.len(),
        unresolved_after
    );
}
