// C16 demo 1 -- purging changes an indicator of `energy_indicators()`:
//                 the yearly occupied time `props.global.occ_spaces_hours_in_use`
//
// Clause: "Purging removes exactly the unreachable items and CHANGES NO INDICATOR"
//   (title of C16). NOTE: the enumerated list in the body (reference area, volumes, K, n50,
//   q_sol;jul) is NOT violated -- all of those stay bit-identical; the indicator that moves is
//   the occupancy indicator reported in the same `EnergyIndicators.props.global` block.
//
// Input: bemodel/tests/data/ejemplo_gt_aerotermia.json (unmodified, 5 spaces, tertiary loads,
//   2504 occupied hours a year) plus, as the statement's quantifier allows ("random unused
//   items of every kind"), ONE unused space that no wall refers to (inside_tenv = true, CONDITIONED), which uses an unused load definition
//   whose people schedule is "always occupied" (new day 24 x 1.0 -> new week 7 x day ->
//   new year 365 x week).
//
// Expected (from the statement): the indicator after purging == the indicator before purging.
// Actual: before purge occ_spaces_hours_in_use = 8760 h (the wall-less space is counted because
//   the loop only looks at kind / inside_tenv / loads), after purge = 2504 h (the model's own
//   schedules), since purge removes the space (and its loads and schedules).
//
// Cause: bemodel/src/energy/props.rs:372-378 (`occupied_spaces_people_schedules`) counts every
//   habitable space inside the envelope, including spaces without any wall (area 0), while
//   bemodel/src/purge.rs:89-102 (`purge_unused_spaces`) removes exactly those spaces. Every
//   other global indicator weights the space by its area (0), this one does not.
//   (With an unused space whose people schedule does not resolve, and whose id sorts first,
//   `year_len` (props.rs:384) becomes 0 and the indicator is 0 before purge and >0 after.)
//
// Minimal fix: in props.rs make the two occupancy filters (lines 372-378 and 429-431) ignore
//   spaces of zero area, e.g. `&& s.area > 0.0` (a space with no floor contributes no occupied
//   floor area), so that the indicator only depends on spaces that purge keeps.
//
// Goes to: bemodel/tests/  (copy as bemodel/tests/c16_demo_1.rs)
// Run:     cd /tmp/seed-h16 && cargo test -p bemodel --offline -j 4 --test c16_demo_1

use bemodel::utils::uuid_from_str;
use bemodel::{
    purge_unused, Model, Schedule, ScheduleDay, ScheduleWeek, Space, SpaceLoads, SpaceType,
};

#[test]
fn c16_purge_changes_occupied_hours_indicator() {
    let mut model = Model::from_json(include_str!("./data/ejemplo_gt_aerotermia.json")).unwrap();

    // Unused schedule chain: always occupied
    let day = ScheduleDay {
        id: uuid_from_str("c16 day always on"),
        name: "always on (day)".into(),
        values: vec![1.0; 24],
    };
    let week = ScheduleWeek {
        id: uuid_from_str("c16 week always on"),
        name: "always on (week)".into(),
        values: vec![(day.id, 7)],
    };
    let year = Schedule {
        id: uuid_from_str("c16 year always on"),
        name: "always on (year)".into(),
        values: vec![(week.id, 365)],
    };
    // Unused loads definition using it
    let loads = SpaceLoads {
        id: uuid_from_str("c16 loads always on"),
        name: "always occupied".into(),
        area_per_person: 10.0,
        people_schedule: Some(year.id),
        people_sensible: 2.0,
        people_latent: 1.0,
        equipment: 0.0,
        equipment_schedule: None,
        lighting: 0.0,
        lighting_schedule: None,
    };
    // Unused space: no wall refers to it
    let space = Space {
        id: uuid_from_str("c16 unused space"),
        name: "unused space".into(),
        kind: SpaceType::CONDITIONED,
        inside_tenv: true,
        loads: Some(loads.id),
        thermostat: None,
        ..Default::default()
    };
    assert!(model
        .walls
        .iter()
        .all(|w| w.space != space.id && w.next_to != Some(space.id)));

    model.schedules.day.push(day);
    model.schedules.week.push(week);
    model.schedules.year.push(year);
    model.loads.push(loads);
    model.spaces.push(space);
    // stay in the domain of loadable models
    let model = Model::from_json(&model.as_json().unwrap()).unwrap();

    let before = model.energy_indicators();

    let mut purged = model.clone();
    purge_unused(&mut purged);
    // purge did what the statement says on the structural side
    assert_eq!(purged.spaces.len(), model.spaces.len() - 1);
    assert_eq!(purged.loads.len(), model.loads.len() - 1);

    let after = purged.energy_indicators();
    eprintln!(
        "occ_spaces_hours_in_use: before purge {} h, after purge {} h",
        before.props.global.occ_spaces_hours_in_use, after.props.global.occ_spaces_hours_in_use
    );

    // The enumerated indicators are unchanged ...
    assert_eq!(before.area_ref, after.area_ref);
    assert_eq!(before.vol_env_net, after.vol_env_net);
    assert_eq!(before.vol_env_gross, after.vol_env_gross);
    assert_eq!(
        before.props.global.vol_env_inh_net,
        after.props.global.vol_env_inh_net
    );
    assert_eq!(before.K_data.K, after.K_data.K);
    assert_eq!(before.n50_data.n50, after.n50_data.n50);
    assert_eq!(
        before.q_soljul_data.q_soljul,
        after.q_soljul_data.q_soljul
    );
    assert_eq!(
        before.props.global.occ_spaces_average_load,
        after.props.global.occ_spaces_average_load
    );

    // ... but "changes no indicator" fails for the occupied hours
    assert_eq!(
        before.props.global.occ_spaces_hours_in_use, after.props.global.occ_spaces_hours_in_use,
        "purge changed occ_spaces_hours_in_use (before purge != after purge)"
    );
}
