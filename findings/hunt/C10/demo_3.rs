// demo_3 — C10: q_sol;jul is divided by a reference area that silently drops every space whose
// floor slab is declared from the space below (interior partition declared "from the other side")
//
// Goes to: bemodel/tests/demo_3.rs
// Run:     cd /tmp/seed-h10 && cargo test -p bemodel --offline -j 4 --test demo_3
//
// Clause: "q_sol;jul is the gains divided by the reference area" (reference area = useful area of the
// habitable spaces inside the thermal envelope), together with invariance under the side from which an
// interior partition is declared.
//
// Input: bemodel/tests/data/caso_a.json. The interior slab P04_E01_FI001 (floor of P04_E01, ceiling of
// P03_E01) is declared in the file as {space: P04_E01, next_to: P03_E01, tilt: 180}. We re-declare the very
// same slab from below: {space: P03_E01, next_to: P04_E01, tilt: 0}. This is exactly how HULC itself
// declares P03_E01_FI001 (floor of P04_E02) in the same file, so it is a form real models use.
// The building has not changed, so Q_sol;jul, A_ref and q_sol;jul must not change.
use bemodel::{BoundaryType, Model, SpaceType};

fn poly_area(p: &[bemodel::Point2]) -> f64 {
    let n = p.len();
    let mut s = 0.0;
    for i in 0..n {
        let (a, b) = (p[i], p[(i + 1) % n]);
        s += a.x as f64 * b.y as f64 - a.y as f64 * b.x as f64;
    }
    (0.5 * s).abs()
}

/// Reference area from the statement: floor area of habitable spaces inside the envelope, times multiplier.
/// The floor of a space is every horizontal element under it, whichever space declares it.
fn reference_area(model: &Model) -> f64 {
    let mut a_ref = 0.0;
    for s in &model.spaces {
        if !s.inside_tenv || s.kind == SpaceType::UNINHABITED {
            continue;
        }
        let mut a = 0.0;
        for w in &model.walls {
            let own_floor = w.space == s.id && w.geometry.tilt == 180.0;
            let floor_declared_from_below = w.bounds == BoundaryType::INTERIOR
                && w.next_to == Some(s.id)
                && w.geometry.tilt == 0.0;
            if own_floor || floor_declared_from_below {
                a += poly_area(&w.geometry.polygon);
            }
        }
        a_ref += a * s.multiplier as f64;
    }
    a_ref
}

#[test]
fn a_ref_and_qsoljul_do_not_depend_on_declaring_side() {
    let original = Model::from_json(include_str!("./data/caso_a.json")).unwrap();
    let mut edited = original.clone();
    {
        let w = edited
            .walls
            .iter_mut()
            .find(|w| w.name == "P04_E01_FI001")
            .unwrap();
        assert_eq!(w.bounds, BoundaryType::INTERIOR);
        assert_eq!(w.geometry.tilt, 180.0);
        let upper = w.space;
        let lower = w.next_to.unwrap();
        w.space = lower;
        w.next_to = Some(upper);
        w.geometry.tilt = 0.0;
    }
    let i0 = original.energy_indicators();
    let i1 = edited.energy_indicators();
    let exp0 = reference_area(&original);
    let exp1 = reference_area(&edited);
    println!(
        "original: A_ref {} (expected {:.2}) Q {} q {}",
        i0.area_ref, exp0, i0.q_soljul_data.Q_soljul, i0.q_soljul_data.q_soljul
    );
    println!(
        "edited:   A_ref {} (expected {:.2}) Q {} q {}",
        i1.area_ref, exp1, i1.q_soljul_data.Q_soljul, i1.q_soljul_data.q_soljul
    );
    assert!((exp0 - exp1).abs() < 1e-6);
    assert!((i0.area_ref as f64 - exp0).abs() < 0.01);
    // gains are the same (no window touched)
    assert!((i0.q_soljul_data.Q_soljul - i1.q_soljul_data.Q_soljul).abs() < 1e-3);
    let expected_q = i1.q_soljul_data.Q_soljul as f64 / exp1;
    assert!(
        (i1.q_soljul_data.q_soljul as f64 - expected_q).abs() < 0.005,
        "q_sol;jul {} expected {:.4} (A_ref used {} instead of {:.2})",
        i1.q_soljul_data.q_soljul,
        expected_q,
        i1.area_ref,
        exp1
    );
}
