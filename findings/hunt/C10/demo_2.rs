// demo_2 — C10: reported means are not area-weighted means when the window area is <= 0.001 m²
//
// Goes to: bemodel/tests/demo_2.rs
// Run:     cd /tmp/seed-h10 && cargo test -p bemodel --offline -j 4 --test demo_2
//
// Clause: "every reported mean is the area-weighted mean of its inputs".
// The code only divides the accumulated sums (value * area) by the area when area > 0.001
// (qsoljul.rs:117 for the totals, qsoljul.rs:126 for each orientation). With a positive window area
// below that threshold the reported "means" are the raw sums value*area.
use bemodel::{Model, Orientation, WinPropsOverrides};

/// (a) per-orientation means: caso_a.json, the two West windows shrunk to 2 cm x 2 cm
#[test]
fn orientation_means_with_tiny_windows() {
    let mut model = Model::from_json(include_str!("./data/caso_a.json")).unwrap();
    let west_walls: Vec<_> = model
        .walls
        .iter()
        .filter(|w| w.geometry.tilt == 90.0 && w.geometry.azimuth == -90.0)
        .map(|w| w.id)
        .collect();
    let mut n = 0;
    for w in model.windows.iter_mut() {
        if west_walls.contains(&w.wall) {
            w.geometry.width = 0.02;
            w.geometry.height = 0.02;
            n += 1;
        }
    }
    assert_eq!(n, 2);
    for w in &model.windows {
        model.overrides.windows.insert(
            w.id,
            WinPropsOverrides {
                u_value: None,
                f_shobst: Some(0.5),
            },
        );
    }
    // Every window has the same construction (F_f = 0.1, g_gl;sh;wi = 1.0) and the same override
    // F_sh,obst = 0.5, so every area-weighted mean must be exactly those values, whatever the areas.
    let ind = model.energy_indicators();
    let det = ind.q_soljul_data.detail.get(&Orientation::W).unwrap();
    println!("W detail: {:?}", det);
    assert!(det.a > 0.0);
    assert!((det.f_f_mean - 0.1).abs() < 1e-3, "W f_f_mean {} expected 0.1", det.f_f_mean);
    assert!((det.gglshwi_mean - 1.0).abs() < 1e-3, "W gglshwi_mean {} expected 1.0", det.gglshwi_mean);
    assert!((det.fshobst_mean - 0.5).abs() < 1e-3, "W fshobst_mean {} expected 0.5", det.fshobst_mean);
}

/// (b) global means: cubo.json, its only window shrunk to 3 cm x 3 cm (0.0009 m²)
#[test]
fn global_means_with_tiny_window() {
    let mut model = Model::from_json(include_str!("./data/cubo.json")).unwrap();
    model.windows[0].geometry.width = 0.03;
    model.windows[0].geometry.height = 0.03;
    let id = model.windows[0].id;
    model.overrides.windows.insert(
        id,
        WinPropsOverrides {
            u_value: None,
            f_shobst: Some(0.5),
        },
    );
    let f_f = model.cons.wincons[0].f_f; // 0.1
    let d = model.energy_indicators().q_soljul_data;
    println!(
        "a_wp {} f_f_mean {} fshobst_mean {} gglshwi_mean {} irradiance_mean {}",
        d.a_wp, d.f_f_mean, d.fshobst_mean, d.gglshwi_mean, d.irradiance_mean
    );
    assert!(d.a_wp > 0.0);
    // a single window: the mean of each input is the input itself
    assert!((d.fshobst_mean - 0.5).abs() < 1e-3, "fshobst_mean {} expected 0.5", d.fshobst_mean);
    assert!((d.f_f_mean - f_f).abs() < 1e-3, "f_f_mean {} expected {}", d.f_f_mean, f_f);
    let h_s = d.detail.get(&Orientation::S).unwrap().irradiance;
    assert!((d.irradiance_mean - h_s).abs() < 1e-2, "irradiance_mean {} expected {}", d.irradiance_mean, h_s);
}
