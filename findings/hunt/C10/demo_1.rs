// demo_1 — C10: g_gl;sh;wi is rounded to two decimals before entering the q_sol;jul formula
//
// Goes to: bemodel/tests/demo_1.rs
// Run:     cd /tmp/seed-h10 && cargo test -p bemodel --offline -j 4 --test demo_1
//
// Input: bemodel/tests/data/caso_a.json (climate D3), where the only window construction gets
// g_gl;sh;wi = 0.085 (a user value with three decimals) and every window gets the user override
// Fsh,obst = 1.0 (so that the computed obstruction factor plays no role).
// Expected (statement): Q = sum Fsh,obst * g_gl;sh;wi * (1 - Ff) * A * Hsol;jul with g = 0.085
// Actual: the code uses g = 0.09 (fround2), i.e. +5.9 % gains; q_sol;jul differs in the 2nd decimal.
use bemodel::climatedata::MONTHLYRADDATA;
use bemodel::{BoundaryType, Model, WinPropsOverrides};

fn hsol(zone: &str, orient: &str) -> f64 {
    let data = MONTHLYRADDATA.lock().unwrap();
    let e = data
        .iter()
        .find(|e| format!("{}", e.zone) == zone && format!("{}", e.orientation) == orient)
        .unwrap();
    e.dir[6] as f64 + e.dif[6] as f64
}

#[test]
fn g_glshwi_is_rounded_before_use() {
    let mut model = Model::from_json(include_str!("./data/caso_a.json")).unwrap();
    let g_user: f32 = 0.085;
    for c in model.cons.wincons.iter_mut() {
        c.g_glshwi = Some(g_user);
    }
    for w in &model.windows {
        model.overrides.windows.insert(
            w.id,
            WinPropsOverrides {
                u_value: None,
                f_shobst: Some(1.0),
            },
        );
    }
    let zone = format!("{}", model.meta.climate);

    // Independent evaluation of the statement. All windows of caso_a are in vertical walls
    // with azimuths 0, 90, -90 (S, E, W), far from any sector boundary.
    let mut gains = 0.0f64;
    for win in &model.windows {
        let wall = model.walls.iter().find(|w| w.id == win.wall).unwrap();
        let space = model.spaces.iter().find(|s| s.id == wall.space).unwrap();
        if !(space.inside_tenv
            && (wall.bounds == BoundaryType::EXTERIOR || wall.bounds == BoundaryType::GROUND))
        {
            continue;
        }
        assert_eq!(wall.geometry.tilt, 90.0);
        let orient = match wall.geometry.azimuth as i32 {
            0 => "S",
            90 => "E",
            -90 => "W",
            other => panic!("unexpected azimuth {}", other),
        };
        let cons = model.cons.wincons.iter().find(|c| c.id == win.cons).unwrap();
        let area = (win.geometry.width * win.geometry.height * space.multiplier) as f64;
        gains += 1.0 * g_user as f64 * (1.0 - cons.f_f as f64) * area * hsol(&zone, orient);
    }
    let ind = model.energy_indicators();
    let a_ref = ind.area_ref as f64;
    let expected_q = gains / a_ref;
    let d = &ind.q_soljul_data;
    println!(
        "expected Q {:.3} q {:.4} | actual Q {:.3} q {:.4} | gglshwi_mean {}",
        gains, expected_q, d.Q_soljul, d.q_soljul, d.gglshwi_mean
    );
    assert!(
        (d.gglshwi_mean - g_user).abs() < 1e-4,
        "mean g_gl;sh;wi reported {} but every window has {}",
        d.gglshwi_mean,
        g_user
    );
    assert!(
        (d.q_soljul as f64 - expected_q).abs() < 0.005,
        "q_sol;jul {} expected {}",
        d.q_soljul,
        expected_q
    );
}
