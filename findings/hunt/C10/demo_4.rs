// demo_4 — C10 (CONVENTION-DEPENDENT, lower confidence): on the exact sector limits the window is put
// in the neighbouring orientation class with respect to DB-HE (Anejo A, figura A.1), so H_sol;jul of
// the wrong class is used.
//
// Goes to: bemodel/tests/demo_4.rs
// Run:     cd /tmp/seed-h10 && cargo test -p bemodel --offline -j 4 --test demo_4
//
// DB-HE fig. A.1 (alpha = angle from North to the outward normal, clockwise):
//   N: alpha < 60 or alpha >= 300 | E: 60 <= alpha < 111 | SE: 111 <= alpha < 162
//   S: 162 <= alpha < 198 | SW: 198 <= alpha < 249 | W: 249 <= alpha < 300
// The model azimuth is az = 180 - alpha (S = 0, E = +90). Because the axis is reversed, the closed end of
// each DB-HE interval becomes the *upper* end in az, but Orientation::from(f32) (types/common.rs:142-178)
// keeps "lower end closed / upper end open" in az. Result on the limits:
//   az = +18 (alpha 162): DB-HE S  -> code SE      az = -18 (alpha 198): DB-HE SW -> code S
//   az = +69 (alpha 111): DB-HE SE -> code E       az = -69 (alpha 249): DB-HE W  -> code SW
//   az = +120 (alpha 60): DB-HE E  -> code NE      az = -120 (alpha 300): DB-HE N (NW side) -> code W
use bemodel::climatedata::MONTHLYRADDATA;
use bemodel::{Model, WinPropsOverrides};

fn hsol(zone: &str, orient: &str) -> f64 {
    let data = MONTHLYRADDATA.lock().unwrap();
    let e = data
        .iter()
        .find(|e| format!("{}", e.zone) == zone && format!("{}", e.orientation) == orient)
        .unwrap();
    e.dir[6] as f64 + e.dif[6] as f64
}

#[test]
fn windows_on_sector_limits() {
    let base = Model::from_json(include_str!("./data/cubo.json")).unwrap();
    let zone = format!("{}", base.meta.climate);
    let cases = [
        (18.0f32, "S"),
        (-18.0, "SW"),
        (69.0, "SE"),
        (-69.0, "W"),
        (120.0, "E"),
        (-120.0, "NW"),
    ];
    let mut failures = vec![];
    for (az, expected_class) in cases {
        let mut m = base.clone();
        let wall_id = m.windows[0].wall;
        m.walls.iter_mut().find(|w| w.id == wall_id).unwrap().geometry.azimuth = az;
        let win_id = m.windows[0].id;
        m.overrides.windows.insert(
            win_id,
            WinPropsOverrides {
                u_value: None,
                f_shobst: Some(1.0),
            },
        );
        // cubo: one 2.0 x 1.0 window, F_f = 0.1, glass g_gl;n = 0.8 -> g_gl;wi = 0.72, no shading device
        let expected_q_total = 1.0 * 0.72 * (1.0 - 0.1) * 2.0 * hsol(&zone, expected_class);
        let d = m.energy_indicators().q_soljul_data;
        let classes: Vec<String> = d.detail.keys().map(|k| format!("{}", k)).collect();
        println!(
            "az {:>6}: expected class {} Q {:.2} | actual classes {:?} Q {:.2}",
            az, expected_class, expected_q_total, classes, d.Q_soljul
        );
        if classes != vec![expected_class.to_string()]
            || (d.Q_soljul as f64 - expected_q_total).abs() > 0.01
        {
            failures.push(az);
        }
    }
    assert!(failures.is_empty(), "wrong class on limits: {:?}", failures);
}
