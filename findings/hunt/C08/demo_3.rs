// C08 demo 3 -- va en bemodel/tests/demo_3.rs ; ejecutar con:
//   cd /tmp/seed-h08 && cargo test -p bemodel --offline -j 4 --test demo_3
// Cláusula: "K equals (sum A*U + sum psi*L) / sum A ..." (y "the breakdown adds up to the totals").
// Un suelo GROUND sin polígono (el JSON lo admite: `polygon` es opcional) o de superficie nula hace que
// slab_char_dim devuelva Some(0.0) (bemodel/src/energy/transmittance.rs:79-85) y u_value_gnd_slab divida por
// cero (transmittance.rs:576: 2.0 * psi_gnd_ext / char_dim = 0/0) -> U = NaN. KData acumula 0 m² * NaN = NaN
// (bemodel/src/energy/indicators/k.rs:145-154) y K del edificio completo pasa a ser NaN.
#![allow(dead_code, unused_imports)]
use bemodel::{
    point, BoundaryType, ConsDb, Layer, MatProps, Material, Model, Space, SpaceType, Uuid, Wall,
    WallCons, WallGeom,
};

fn uid(n: u128) -> Uuid {
    Uuid::from_u128(n)
}

/// Opaco rectangular w x h (sin posición: no hace falta para K)
fn wall(id: u128, name: &str, bounds: BoundaryType, cons: u128, space: u128, tilt: f32, w: f32, h: f32) -> Wall {
    Wall {
        id: uid(id),
        name: name.to_string(),
        bounds,
        cons: uid(cons),
        space: uid(space),
        next_to: None,
        geometry: WallGeom {
            tilt,
            azimuth: 0.0,
            position: None,
            polygon: vec![point![0.0, 0.0], point![w, 0.0], point![w, h], point![0.0, h]],
        },
    }
}

fn space(id: u128, name: &str, z: f32, height: f32, inside_tenv: bool, kind: SpaceType) -> Space {
    Space {
        id: uid(id),
        name: name.to_string(),
        multiplier: 1.0,
        kind,
        inside_tenv,
        height,
        z,
        loads: None,
        thermostat: None,
        n_v: None,
        illuminance: None,
    }
}

/// Construcciones de una capa definida por su resistencia:
/// 1001: R=0.5 m²K/W, e=0.30 m; 1002: R=2.0, e=0.10 m; 1003: R=1.0, e=0.80 m
fn consdb() -> ConsDb {
    let mut db = ConsDb::default();
    for (cid, mid, r, e) in [(1001u128, 2001u128, 0.5f32, 0.30f32), (1002, 2002, 2.0, 0.10), (1003, 2003, 1.0, 0.80)] {
        db.materials.push(Material {
            id: uid(mid),
            name: format!("m{}", mid),
            properties: MatProps::Resistance { resistance: r, vapour_diff: None },
        });
        db.wallcons.push(WallCons {
            id: uid(cid),
            name: format!("c{}", cid),
            layers: vec![Layer { material: uid(mid), e }],
            absorptance: 0.6,
        });
    }
    db
}


#[test]
fn zero_area_ground_floor_makes_k_nan() {
    let mut m = Model::default();
    m.cons = consdb();
    m.spaces.push(space(1, "S", 0.0, 3.0, true, SpaceType::CONDITIONED));
    // Solera sin definición geométrica (superficie 0)
    let mut slab = wall(11, "slab0", BoundaryType::GROUND, 1001, 1, 180.0, 0.0, 0.0);
    slab.geometry.polygon = vec![];
    m.walls.push(slab);
    m.walls.push(wall(13, "roof", BoundaryType::EXTERIOR, 1002, 1, 0.0, 10.0, 10.0));
    for i in 0..4 {
        m.walls.push(wall(20 + i, &format!("w{}", i), BoundaryType::EXTERIOR, 1001, 1, 90.0, 10.0, 3.0));
    }
    // El mismo modelo se puede cargar de JSON (ida y vuelta) sin el campo polygon
    let json = m.as_json().unwrap();
    assert!(!json.contains("\"polygon\": []"));
    let m = Model::from_json(&json).unwrap();

    let k = m.energy_indicators().K_data;
    println!("K = {}  ground = {:?}  summary = {:?}", k.K, k.ground, k.summary);

    // Valor esperado, calculado a mano según el enunciado (el elemento de 0 m² no aporta nada):
    //   cubierta 100 m², U = 1/(2.0 + 0.10 + 0.04) = 0.47 ; muros 4 x 30 m², U = 1/(0.5 + 0.13 + 0.04) = 1.49
    let expected = (100.0 * 0.47 + 120.0 * 1.49) / 220.0; // 1.026
    assert!(
        (k.K - expected).abs() <= 0.01,
        "K = {} pero se esperaba {:.3}",
        k.K,
        expected
    );
}
