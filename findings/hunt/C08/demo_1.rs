// C08 demo 1 -- va en bemodel/tests/demo_1.rs ; ejecutar con:
//   cd /tmp/seed-h08 && cargo test -p bemodel --offline -j 4 --test demo_1
// Cláusula: "K does not change when elements are reordered".
// Un espacio con DOS soleras (GROUND, suelo) de distinta forma: la dimensión característica B' de la solera
// (y por tanto la U de todas las soleras del espacio) se toma de la PRIMERA solera de model.walls
// (bemodel/src/energy/transmittance.rs:53-68, `spc_gnd_floors.get(0)`), así que K depende del orden.
#![allow(dead_code, unused_imports)]
use bemodel::{
    point, BoundaryType, ConsDb, Layer, MatProps, Material, Model, Space, SpaceType, Uuid, Wall,
    WallCons, WallGeom,
};

fn uid(n: u128) -> Uuid {
    Uuid::from_u128(n)
}

/// Opaco rectangular w x h (sin posición: no hace falta para K)
fn wall(id: u128, name: &str, bounds: BoundaryType, cons: u128, space: u128, tilt: f32, w: f32, h: f32) -> Wall {
    Wall {
        id: uid(id),
        name: name.to_string(),
        bounds,
        cons: uid(cons),
        space: uid(space),
        next_to: None,
        geometry: WallGeom {
            tilt,
            azimuth: 0.0,
            position: None,
            polygon: vec![point![0.0, 0.0], point![w, 0.0], point![w, h], point![0.0, h]],
        },
    }
}

fn space(id: u128, name: &str, z: f32, height: f32, inside_tenv: bool, kind: SpaceType) -> Space {
    Space {
        id: uid(id),
        name: name.to_string(),
        multiplier: 1.0,
        kind,
        inside_tenv,
        height,
        z,
        loads: None,
        thermostat: None,
        n_v: None,
        illuminance: None,
    }
}

/// Construcciones de una capa definida por su resistencia:
/// 1001: R=0.5 m²K/W, e=0.30 m; 1002: R=2.0, e=0.10 m; 1003: R=1.0, e=0.80 m
fn consdb() -> ConsDb {
    let mut db = ConsDb::default();
    for (cid, mid, r, e) in [(1001u128, 2001u128, 0.5f32, 0.30f32), (1002, 2002, 2.0, 0.10), (1003, 2003, 1.0, 0.80)] {
        db.materials.push(Material {
            id: uid(mid),
            name: format!("m{}", mid),
            properties: MatProps::Resistance { resistance: r, vapour_diff: None },
        });
        db.wallcons.push(WallCons {
            id: uid(cid),
            name: format!("c{}", cid),
            layers: vec![Layer { material: uid(mid), e }],
            absorptance: 0.6,
        });
    }
    db
}


#[test]
fn k_changes_when_two_ground_slabs_are_swapped() {
    let mut m = Model::default();
    m.cons = consdb();
    m.spaces.push(space(1, "S", 0.0, 3.0, true, SpaceType::CONDITIONED));
    // Planta en L resuelta con dos soleras: 10x10 y 2x5
    m.walls.push(wall(11, "slabA", BoundaryType::GROUND, 1001, 1, 180.0, 10.0, 10.0));
    m.walls.push(wall(12, "slabB", BoundaryType::GROUND, 1001, 1, 180.0, 2.0, 5.0));
    m.walls.push(wall(13, "roof", BoundaryType::EXTERIOR, 1002, 1, 0.0, 10.0, 11.0));
    for i in 0..4 {
        m.walls.push(wall(20 + i, &format!("w{}", i), BoundaryType::EXTERIOR, 1001, 1, 90.0, 10.5, 3.0));
    }
    let k1 = m.energy_indicators().K_data;

    // Mismo modelo, intercambiando el orden de las dos soleras en la lista de opacos
    let mut m2 = m.clone();
    m2.walls.swap(0, 1);
    let k2 = m2.energy_indicators().K_data;

    println!("K(orden A,B) = {:.4}  K(orden B,A) = {:.4}", k1.K, k2.K);
    println!("U solera (A,B) = {:?}  U solera (B,A) = {:?}", k1.ground.u_mean, k2.ground.u_mean);
    // Observado: 0.8605 vs 0.9591 (U solera 0.53 vs 0.84)
    assert!(
        (k1.K - k2.K).abs() <= 0.01,
        "K cambia al reordenar opacos: {} vs {}",
        k1.K,
        k2.K
    );
}
