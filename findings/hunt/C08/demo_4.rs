// C08 demo 4 -- va en bemodel/tests/demo_4.rs ; ejecutar con:
//   cd /tmp/seed-h08 && cargo test -p bemodel --offline -j 4 --test demo_4
// Cláusulas: "each category mean lies between its minimum and maximum" (y áreas netas de opacos).
// Si la suma de huecos de un opaco supera su superficie bruta, Wall::area_net devuelve un valor NEGATIVO
// (bemodel/src/types/opaques.rs:66-74, sin acotar a 0) y KData lo acumula tal cual
// (bemodel/src/energy/indicators/k.rs:145-154): A·U de opacos negativo y U media de muros fuera de [min, max].
#![allow(dead_code, unused_imports)]
use bemodel::{
    Frame, Glass, WinCons, WinGeom, Window,
    point, BoundaryType, ConsDb, Layer, MatProps, Material, Model, Space, SpaceType, Uuid, Wall,
    WallCons, WallGeom,
};

fn uid(n: u128) -> Uuid {
    Uuid::from_u128(n)
}

/// Opaco rectangular w x h (sin posición: no hace falta para K)
fn wall(id: u128, name: &str, bounds: BoundaryType, cons: u128, space: u128, tilt: f32, w: f32, h: f32) -> Wall {
    Wall {
        id: uid(id),
        name: name.to_string(),
        bounds,
        cons: uid(cons),
        space: uid(space),
        next_to: None,
        geometry: WallGeom {
            tilt,
            azimuth: 0.0,
            position: None,
            polygon: vec![point![0.0, 0.0], point![w, 0.0], point![w, h], point![0.0, h]],
        },
    }
}

fn space(id: u128, name: &str, z: f32, height: f32, inside_tenv: bool, kind: SpaceType) -> Space {
    Space {
        id: uid(id),
        name: name.to_string(),
        multiplier: 1.0,
        kind,
        inside_tenv,
        height,
        z,
        loads: None,
        thermostat: None,
        n_v: None,
        illuminance: None,
    }
}

/// Construcciones de una capa definida por su resistencia:
/// 1001: R=0.5 m²K/W, e=0.30 m; 1002: R=2.0, e=0.10 m; 1003: R=1.0, e=0.80 m
fn consdb() -> ConsDb {
    let mut db = ConsDb::default();
    for (cid, mid, r, e) in [(1001u128, 2001u128, 0.5f32, 0.30f32), (1002, 2002, 2.0, 0.10), (1003, 2003, 1.0, 0.80)] {
        db.materials.push(Material {
            id: uid(mid),
            name: format!("m{}", mid),
            properties: MatProps::Resistance { resistance: r, vapour_diff: None },
        });
        db.wallcons.push(WallCons {
            id: uid(cid),
            name: format!("c{}", cid),
            layers: vec![Layer { material: uid(mid), e }],
            absorptance: 0.6,
        });
    }
    db
}


#[test]
fn window_larger_than_wall_breaks_category_mean() {
    let mut m = Model::default();
    m.cons = consdb();
    m.cons.glasses.push(Glass { id: uid(3001), name: "g".into(), u_value: 2.0, g_gln: 0.7 });
    m.cons.frames.push(Frame { id: uid(3002), name: "f".into(), u_value: 3.0, absorptivity: 0.6 });
    m.cons.wincons.push(WinCons { id: uid(3000), name: "wc".into(), glass: uid(3001), frame: uid(3002), f_f: 0.2, delta_u: 0.0, g_glshwi: None, c_100: 27.0 });
    m.spaces.push(space(1, "S", 0.0, 3.0, true, SpaceType::CONDITIONED));
    // Muro de 2x2 = 4 m² (U=1.49) con un hueco de 3x2 = 6 m²; y otro muro de 2x1.5 = 3 m² (U=0.46)
    m.walls.push(wall(20, "w0", BoundaryType::EXTERIOR, 1001, 1, 90.0, 2.0, 2.0));
    m.walls.push(wall(21, "w1", BoundaryType::EXTERIOR, 1002, 1, 90.0, 2.0, 1.5));
    m.windows.push(Window {
        id: uid(30),
        name: "win".into(),
        cons: uid(3000),
        wall: uid(20),
        geometry: WinGeom { position: None, height: 2.0, width: 3.0, setback: 0.0 },
    });
    let k = m.energy_indicators().K_data;
    println!("walls = {:?}\nsummary = {:?}", k.walls, k.summary);
    // Observado: walls.a = 1.0, walls.au = -1.6, u_min = 0.46, u_max = 1.49, u_mean = -1.6
    let (mean, min, max) = (k.walls.u_mean.unwrap(), k.walls.u_min.unwrap(), k.walls.u_max.unwrap());
    assert!(k.summary.opaques_au >= 0.0, "A·U de opacos negativo: {}", k.summary.opaques_au);
    assert!(
        min - 1e-4 <= mean && mean <= max + 1e-4,
        "U media de muros {} fuera de [{}, {}]",
        mean,
        min,
        max
    );
}
