// C08 demo 5 -- va en bemodel/tests/demo_5.rs ; ejecutar con:
//   cd /tmp/seed-h08 && cargo test -p bemodel --offline -j 4 --test demo_5
// Cláusula: "... 5.7 W/m2K where no U can be computed" (solo ahí).
// Sótano cuyo suelo NO está en contacto con el terreno (p.e. segundo sótano debajo, aquí ADIABATIC) y cuya
// cubierta está enterrada (GROUND, tilt 0). Wall::u_value calcula U_w de la cubierta pero, antes de mirar la
// inclinación, exige que el espacio tenga una solera (bemodel/src/energy/transmittance.rs:337,
// `space.slab_d_t(..)?`) y devuelve None -> KData usa 5.7 (k.rs:139-144) para un elemento cuya U sí es
// calculable (u_value_gnd_top devuelve simplemente U_w, transmittance.rs:536-539, no usa d_t).
#![allow(dead_code, unused_imports)]
use bemodel::{
    point, BoundaryType, ConsDb, Layer, MatProps, Material, Model, Space, SpaceType, Uuid, Wall,
    WallCons, WallGeom,
};

fn uid(n: u128) -> Uuid {
    Uuid::from_u128(n)
}

/// Opaco rectangular w x h (sin posición: no hace falta para K)
fn wall(id: u128, name: &str, bounds: BoundaryType, cons: u128, space: u128, tilt: f32, w: f32, h: f32) -> Wall {
    Wall {
        id: uid(id),
        name: name.to_string(),
        bounds,
        cons: uid(cons),
        space: uid(space),
        next_to: None,
        geometry: WallGeom {
            tilt,
            azimuth: 0.0,
            position: None,
            polygon: vec![point![0.0, 0.0], point![w, 0.0], point![w, h], point![0.0, h]],
        },
    }
}

fn space(id: u128, name: &str, z: f32, height: f32, inside_tenv: bool, kind: SpaceType) -> Space {
    Space {
        id: uid(id),
        name: name.to_string(),
        multiplier: 1.0,
        kind,
        inside_tenv,
        height,
        z,
        loads: None,
        thermostat: None,
        n_v: None,
        illuminance: None,
    }
}

/// Construcciones de una capa definida por su resistencia:
/// 1001: R=0.5 m²K/W, e=0.30 m; 1002: R=2.0, e=0.10 m; 1003: R=1.0, e=0.80 m
fn consdb() -> ConsDb {
    let mut db = ConsDb::default();
    for (cid, mid, r, e) in [(1001u128, 2001u128, 0.5f32, 0.30f32), (1002, 2002, 2.0, 0.10), (1003, 2003, 1.0, 0.80)] {
        db.materials.push(Material {
            id: uid(mid),
            name: format!("m{}", mid),
            properties: MatProps::Resistance { resistance: r, vapour_diff: None },
        });
        db.wallcons.push(WallCons {
            id: uid(cid),
            name: format!("c{}", cid),
            layers: vec![Layer { material: uid(mid), e }],
            absorptance: 0.6,
        });
    }
    db
}


#[test]
fn buried_roof_of_space_without_ground_slab_gets_default_u() {
    let mut m = Model::default();
    m.cons = consdb();
    m.spaces.push(space(1, "S", -3.0, 3.0, true, SpaceType::CONDITIONED));
    m.walls.push(wall(11, "floor_over_lower_basement", BoundaryType::ADIABATIC, 1001, 1, 180.0, 10.0, 10.0));
    m.walls.push(wall(13, "buried_roof", BoundaryType::GROUND, 1002, 1, 0.0, 10.0, 10.0));
    let ind = m.energy_indicators();
    let k = ind.K_data;
    println!("K = {}  ground = {:?}", k.K, k.ground);
    println!("U calculada cubierta enterrada = {:?}", ind.props.walls[&uid(13)].u_value);
    // Único elemento computable: cubierta enterrada de 100 m² con R = 2.0 m²K/W
    //   U = 1/(R + Rsi_asc + Rse) = 1/(2.0 + 0.10 + 0.04) = 0.47 W/m²K  ->  K = 0.47
    // Observado: K = 5.7
    let expected = 1.0 / (2.0 + 0.10 + 0.04);
    assert!(
        (k.K - expected).abs() <= 0.01,
        "K = {} pero se esperaba {:.2} (se ha usado U=5.7 para un elemento con U calculable)",
        k.K,
        expected
    );
}
