// C08 demo 6 -- va en bemodel/tests/demo_6.rs ; ejecutar con:
//   cd /tmp/seed-h08 && cargo test -p bemodel --offline -j 4 --test demo_6
// Cláusula: "K equals sum(A*U)/sum(A) ... using net opaque areas" con tolerancia de dos decimales.
// (MENOR) Wall::area_net redondea a 2 decimales el área neta de cada opaco (bemodel/src/types/opaques.rs:73,
// `fround2(..)`), mientras que los huecos no se redondean. En elementos pequeños el error (hasta 0.005 m² por
// opaco) mueve K más de 0.01.
#![allow(dead_code, unused_imports)]
use bemodel::{
    point, BoundaryType, ConsDb, Layer, MatProps, Material, Model, Space, SpaceType, Uuid, Wall,
    WallCons, WallGeom,
};

fn uid(n: u128) -> Uuid {
    Uuid::from_u128(n)
}

/// Opaco rectangular w x h (sin posición: no hace falta para K)
fn wall(id: u128, name: &str, bounds: BoundaryType, cons: u128, space: u128, tilt: f32, w: f32, h: f32) -> Wall {
    Wall {
        id: uid(id),
        name: name.to_string(),
        bounds,
        cons: uid(cons),
        space: uid(space),
        next_to: None,
        geometry: WallGeom {
            tilt,
            azimuth: 0.0,
            position: None,
            polygon: vec![point![0.0, 0.0], point![w, 0.0], point![w, h], point![0.0, h]],
        },
    }
}

fn space(id: u128, name: &str, z: f32, height: f32, inside_tenv: bool, kind: SpaceType) -> Space {
    Space {
        id: uid(id),
        name: name.to_string(),
        multiplier: 1.0,
        kind,
        inside_tenv,
        height,
        z,
        loads: None,
        thermostat: None,
        n_v: None,
        illuminance: None,
    }
}

/// Construcciones de una capa definida por su resistencia:
/// 1001: R=0.5 m²K/W, e=0.30 m; 1002: R=2.0, e=0.10 m; 1003: R=1.0, e=0.80 m
fn consdb() -> ConsDb {
    let mut db = ConsDb::default();
    for (cid, mid, r, e) in [(1001u128, 2001u128, 0.5f32, 0.30f32), (1002, 2002, 2.0, 0.10), (1003, 2003, 1.0, 0.80)] {
        db.materials.push(Material {
            id: uid(mid),
            name: format!("m{}", mid),
            properties: MatProps::Resistance { resistance: r, vapour_diff: None },
        });
        db.wallcons.push(WallCons {
            id: uid(cid),
            name: format!("c{}", cid),
            layers: vec![Layer { material: uid(mid), e }],
            absorptance: 0.6,
        });
    }
    db
}


#[test]
fn rounding_of_net_area_shifts_k() {
    let mut m = Model::default();
    m.cons = consdb();
    m.spaces.push(space(1, "S", 0.0, 3.0, true, SpaceType::CONDITIONED));
    // Opaco de 0.49 x 0.50 = 0.245 m² sin construcción resoluble (U = 5.7) y otro de 0.5 x 0.5 = 0.25 m² (U = 0.46)
    m.walls.push(wall(20, "w0", BoundaryType::EXTERIOR, 9999, 1, 90.0, 0.49, 0.50));
    m.walls.push(wall(21, "w1", BoundaryType::EXTERIOR, 1002, 1, 90.0, 0.5, 0.5));
    let k = m.energy_indicators().K_data;
    let u1 = 1.0 / (2.0 + 0.13 + 0.04); // 0.4608 -> 0.46
    let u1 = (u1 * 100.0f64).round() / 100.0;
    let expected = (0.245 * 5.7 + 0.25 * u1) / (0.245 + 0.25); // 3.0535
    println!("K = {}  esperado = {:.4}  summary = {:?}", k.K, expected, k.summary);
    // Observado: K = 3.08 (A = 0.50 en lugar de 0.495)
    assert!(
        (k.K as f64 - expected).abs() <= 0.01,
        "K = {} pero se esperaba {:.4}",
        k.K,
        expected
    );
}
