// C08 demo 7 -- va en bemodel/tests/demo_7.rs ; ejecutar con:
//   cd /tmp/seed-h08 && cargo test -p bemodel --offline -j 4 --test demo_7
// (OBSERVACIÓN, fuera de la letra de C08: no es reordenar ni renombrar) Declarar una partición interior desde
// el otro espacio cambia K. En slab_char_dim (bemodel/src/energy/transmittance.rs:97-111) el "espacio vecino"
// se busca siempre con w.next_to; si la partición pertenece al otro espacio (w.space = vecino,
// w.next_to = este espacio), `nextspace` resulta ser el propio espacio y la partición nunca cuenta como
// perímetro expuesto -> cambia B', la U de la solera y K.
#![allow(dead_code, unused_imports)]
use bemodel::{
    point, BoundaryType, ConsDb, Layer, MatProps, Material, Model, Space, SpaceType, Uuid, Wall,
    WallCons, WallGeom,
};

fn uid(n: u128) -> Uuid {
    Uuid::from_u128(n)
}

/// Opaco rectangular w x h (sin posición: no hace falta para K)
fn wall(id: u128, name: &str, bounds: BoundaryType, cons: u128, space: u128, tilt: f32, w: f32, h: f32) -> Wall {
    Wall {
        id: uid(id),
        name: name.to_string(),
        bounds,
        cons: uid(cons),
        space: uid(space),
        next_to: None,
        geometry: WallGeom {
            tilt,
            azimuth: 0.0,
            position: None,
            polygon: vec![point![0.0, 0.0], point![w, 0.0], point![w, h], point![0.0, h]],
        },
    }
}

fn space(id: u128, name: &str, z: f32, height: f32, inside_tenv: bool, kind: SpaceType) -> Space {
    Space {
        id: uid(id),
        name: name.to_string(),
        multiplier: 1.0,
        kind,
        inside_tenv,
        height,
        z,
        loads: None,
        thermostat: None,
        n_v: None,
        illuminance: None,
    }
}

/// Construcciones de una capa definida por su resistencia:
/// 1001: R=0.5 m²K/W, e=0.30 m; 1002: R=2.0, e=0.10 m; 1003: R=1.0, e=0.80 m
fn consdb() -> ConsDb {
    let mut db = ConsDb::default();
    for (cid, mid, r, e) in [(1001u128, 2001u128, 0.5f32, 0.30f32), (1002, 2002, 2.0, 0.10), (1003, 2003, 1.0, 0.80)] {
        db.materials.push(Material {
            id: uid(mid),
            name: format!("m{}", mid),
            properties: MatProps::Resistance { resistance: r, vapour_diff: None },
        });
        db.wallcons.push(WallCons {
            id: uid(cid),
            name: format!("c{}", cid),
            layers: vec![Layer { material: uid(mid), e }],
            absorptance: 0.6,
        });
    }
    db
}


fn build(declared_from_conditioned_side: bool) -> Model {
    let mut m = Model::default();
    m.cons = consdb();
    m.spaces.push(space(1, "C", 0.0, 3.0, true, SpaceType::CONDITIONED));
    m.spaces.push(space(2, "U", 0.0, 3.0, false, SpaceType::UNCONDITIONED));
    m.walls.push(wall(11, "slab", BoundaryType::GROUND, 1001, 1, 180.0, 10.0, 10.0));
    m.walls.push(wall(13, "roof", BoundaryType::EXTERIOR, 1002, 1, 0.0, 10.0, 10.0));
    m.walls.push(wall(20, "w0", BoundaryType::EXTERIOR, 1001, 1, 90.0, 10.0, 3.0));
    for i in 0..3 {
        let (own, next) = if declared_from_conditioned_side { (1, 2) } else { (2, 1) };
        let mut p = wall(30 + i, &format!("part{}", i), BoundaryType::INTERIOR, 1001, own, 90.0, 10.0, 3.0);
        p.next_to = Some(uid(next));
        m.walls.push(p);
    }
    m
}

#[test]
fn k_depends_on_which_side_declares_the_partition() {
    let a = build(true).energy_indicators().K_data;
    let b = build(false).energy_indicators().K_data;
    println!("K = {} / {}   U solera = {:?} / {:?}", a.K, b.K, a.ground.u_mean, b.ground.u_mean);
    // Observado: K 0.629 vs 0.494 (U solera 0.53 vs 0.22)
    assert!((a.K - b.K).abs() <= 0.01, "K cambia: {} vs {}", a.K, b.K);
}
