// C18 finding 6 -- a continuation line of a multi-line list that starts with '+' is silently deleted
//
// Clause: "... number formats ... multi-line lists, comments, blank lines ... parsing recovers ...
//          every attribute value".
//
// Input (24 hourly values i*0.5-1.5 written with explicit sign, one value per line -the layout HULC uses
//        for its DAY-SCHEDULES / WEEK-SCHEDULES lists-):
//         "D" = DAY-SCHEDULE-PD
//            TYPE   = TEMPERATURE
//            VALUES = ( -1.5,
//                  -1,
//                  -0.5,
//                  +0,
//                  +0.5,
//                  ...
//                  +10 )
//            ..
//   (explicitly signed numbers are one of the number formats f32 accepts: the same list written on
//    ONE line, `VALUES = ( -1.5, -1, -0.5, +0, +0.5, ..., +10 )`, is parsed correctly)
//
// Expected: DaySchedule.values == [-1.5, -1.0, -0.5, 0.0, 0.5, ..., 10.0] whatever the line breaks.
// Actual:   every line that starts with '+' is removed before parsing; here the closing line "+10 )"
//           goes too, the list is never closed and Data::new fails. When the last line survives the
//           result is silently WRONG: `VALUES = ( 0,\n +1,\n 0 )` is recovered as "( 0,0 )" = [0.0, 0.0]
//           instead of [0.0, 1.0, 0.0] (third test).
//
// Cause: hulc/src/bdl/blocks.rs:232 `&& !l.starts_with('+') // Encabezados de LIDER (antiguo)`:
//        clean_lines drops every trimmed line that begins with '+' without knowing whether the line
//        is inside a parenthesised value (the banner lines it is meant for are
//        `++++++++++++++++++++++++++++++` in the real files).
//
// Minimal fix: restrict the rule to banner lines (lines made only of '+'), or apply the line filters
//        only outside an open parenthesis.
//
// Goes to: hulc/tests/demo_6.rs
// Run:     cd /tmp/seed-h18 && cargo test -p hulc --offline -j 4 --test demo_6

use hulc::bdl::{Data, Schedule};

fn day_values(doc: &str) -> Vec<f32> {
    let data = Data::new(doc).expect("document parses");
    match &data.schedules[0] {
        Schedule::Day(d) => d.values.clone(),
        other => panic!("unexpected schedule {:?}", other),
    }
}

fn one_line() -> String {
    let vals: Vec<String> = (0..24).map(|i| format!("{:+}", i as f32 * 0.5 - 1.5)).collect();
    format!(
        "\"D\" = DAY-SCHEDULE-PD\n  TYPE = TEMPERATURE\n  VALUES = ( {} )\n  ..\n",
        vals.join(", ")
    )
}

fn expected() -> Vec<f32> {
    (0..24).map(|i| i as f32 * 0.5 - 1.5).collect()
}

#[test]
fn signed_list_on_one_line_is_ok() {
    // passes: '+' signed numbers are a supported number format
    assert_eq!(day_values(&one_line()), expected());
}

#[test]
fn signed_list_broken_in_lines() {
    // Same list, one value per line (the layout HULC uses for DAY-SCHEDULES / WEEK-SCHEDULES lists)
    let doc = one_line().replace(", ", ",\n        ");
    assert_eq!(day_values(&doc), expected());
}

#[test]
fn signed_value_silently_dropped() {
    // 24 values, only the second one carries an explicit '+': it silently disappears (23 values are
    // left, so the error here is the length check; the block-level value shows the loss)
    let doc = "\"D\" = DAY-SCHEDULE-PD\n  TYPE = FRACTION\n  VALUES = ( 0,\n   +1,\n   0 )\n  ..\n";
    let blocks = hulc::bdl::build_blocks(doc).unwrap();
    let v = hulc::bdl::extract_f32vec(blocks[0].attrs.get_str("VALUES").unwrap()).unwrap();
    assert_eq!(v, vec![0.0, 1.0, 0.0]);
}
