// C18 finding 4 -- the legacy preamble is only recognised when the next header is laid out exactly as
//                 `"DATOS GENERALES" = GENERAL-DATA` (one blank on each side of '=')
//
// Clause: "For any document in the block syntax HULC and LIDER emit - ... and the legacy preamble -
//          parsing recovers every block's name, type, parent and every attribute value"; quantified
//          over documents "re-printed in a different layout".
//
// Input: the head of hulc_tests/tests/casoA/casoa.ctehexml re-printed with the header's '=' aligned
//        differently (every other header/attribute line of the syntax accepts any spacing around '='):
//         CAMBIO = SI
//         CAMBIO-CALENER = NO
//              EEGeneradaAutoconsumida        = "0"
//                    ENERGIAGT  = YES
//         "DATOS GENERALES"   =   GENERAL-DATA          <- also fails with  "DATOS GENERALES"=GENERAL-DATA
//              TYPE-HOUSING        = "Bloque"
//              ..
//
// Expected: same result as with the canonical spacing: a PARTELIDER block carrying CAMBIO = SI,
//           CAMBIO-CALENER = NO, EEGeneradaAutoconsumida = 0, ENERGIAGT = YES, and a GENERAL-DATA
//           block named "DATOS GENERALES" with TYPE-HOUSING = "Bloque".
// Actual:   Err("Tipo de bloque desconocido SI"): the preamble is not split off, the first chunk
//           starts with `CAMBIO = SI`, which is read as a block header of type "SI".
//
// Cause: hulc/src/bdl/blocks.rs:259 and :261: `cleanlines.find("\"DATOS GENERALES\" = GENERAL-DATA")`
//        / `find("\"Defecto\" = DESCRIPTION")` are literal substring searches, while block headers are
//        otherwise parsed with `splitn(2, '=')` + trim (blocks.rs:65-69), i.e. spacing-insensitive.
//
// Minimal fix: locate the first line that parses as a header (`"name" = TYPE` with any spacing,
//        e.g. first cleaned line starting with '"'), or compare `name`/`type` after splitting on '='
//        and trimming, instead of searching for a literal string.
//
// Goes to: hulc/tests/demo_4.rs
// Run:     cd /tmp/seed-h18 && cargo test -p hulc --offline -j 4 --test demo_4

use hulc::bdl::{build_blocks, BdlBlockType};

fn doc(header: &str) -> String {
    format!(
        "CAMBIO = SI\nCAMBIO-CALENER = NO\n     EEGeneradaAutoconsumida        = \"0\"\n           ENERGIAGT  = YES\n{}\n     TYPE-HOUSING        = \"Bloque\"\n     ..\n",
        header
    )
}

fn check(header: &str) {
    let blocks = build_blocks(doc(header))
        .unwrap_or_else(|e| panic!("header layout {:?} not parsed: {}", header, e));
    let lider = blocks
        .iter()
        .find(|b| b.btype == BdlBlockType::ParteLider)
        .expect("preamble block");
    assert_eq!(lider.attrs.get_str("CAMBIO").unwrap(), "SI");
    assert_eq!(lider.attrs.get_str("CAMBIO-CALENER").unwrap(), "NO");
    assert_eq!(lider.attrs.get_str("ENERGIAGT").unwrap(), "YES");
    let gd = blocks
        .iter()
        .find(|b| b.btype == BdlBlockType::GeneralData)
        .expect("general data block");
    assert_eq!(gd.name, "DATOS GENERALES");
    assert_eq!(gd.attrs.get_str("TYPE-HOUSING").unwrap(), "Bloque");
}

#[test]
fn preamble_canonical_spacing_is_ok() {
    // passes: shows that the document itself is fine
    check("\"DATOS GENERALES\" = GENERAL-DATA");
}

#[test]
fn preamble_with_aligned_equal_sign() {
    check("\"DATOS GENERALES\"   =   GENERAL-DATA");
}

#[test]
fn preamble_with_tight_equal_sign() {
    check("\"DATOS GENERALES\"=GENERAL-DATA");
}
