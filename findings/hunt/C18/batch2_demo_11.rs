// C18 finding 11 -- a TAB used as blank inside a vertex `( x, y )` / `( x, y, z )` breaks POLYGON and
//                  BUILDING-SHADE, although TABs are accepted as blanks everywhere else
//
// Clause: documents "re-printed in a different layout"; "parsing recovers ... every attribute value, and
//          the typed elements built from the blocks carry the written values".
//          (The real files do use TABs as blanks: 80 in every .ctehexml of hulc_tests/tests, e.g.
//          `TOTAL-HEIGHT      <TAB>= "7.70"`, and 2 in liderdata/q10_ref_nbe.cte.)
//
// Input:
//         "P" = POLYGON
//         <TAB>V1<TAB>=<TAB>( 1.5,<TAB>2.5 )
//         <TAB>V2 = ( 3, 4 )
//         <TAB>V3 = ( 3, 8 )
//         <TAB>..
//
// Expected: Polygon [(1.5, 2.5), (3, 4), (3, 8)] -- the same block with a blank instead of the TAB after
//           the comma gives exactly that, and number LISTS with the same TAB layout
//           (`THICKNESS = ( 0.1,<TAB>0.2 )`) are read correctly by extract_f32vec.
// Actual:   Polygon::try_from fails with "invalid float literal" (Data::new fails for the document).
//
// Cause: hulc/src/bdl/envelope/geom.rs:159-165 and :178-184: `point2_from_str` / `point3_from_str` clean
//        each coordinate with `v.trim_matches(&[' ', '(', ')'])`, which only knows the ASCII space, while
//        extract_f32vec/extract_u32vec (common.rs:200, :215) use `v.trim()`.
//
// Minimal fix: `.map(|v| v.trim_matches(|c: char| c.is_whitespace() || c == '(' || c == ')'))`
//        in both functions.
//
// Goes to: hulc/tests/demo_11.rs
// Run:     cd /tmp/seed-h18 && cargo test -p hulc --offline -j 4 --test demo_11

use std::convert::TryFrom;

use hulc::bdl::{build_blocks, extract_f32vec, Polygon};

fn polygon(doc: &str) -> Result<Vec<(f32, f32)>, String> {
    let blocks = build_blocks(doc).map_err(|e| e.to_string())?;
    let pol = Polygon::try_from(blocks[0].clone()).map_err(|e| e.to_string())?;
    Ok(pol.0.iter().map(|p| (p.x, p.y)).collect())
}

#[test]
fn control_blank_separated_vertices_and_tab_separated_list() {
    // passes
    let doc = "\"P\" = POLYGON\n\tV1\t=\t( 1.5, 2.5 )\n\tV2 = ( 3, 4 )\n\tV3 = ( 3, 8 )\n\t..\n";
    assert_eq!(polygon(doc).unwrap(), vec![(1.5, 2.5), (3.0, 4.0), (3.0, 8.0)]);
    assert_eq!(extract_f32vec("( 0.1,\t0.2 )").unwrap(), vec![0.1, 0.2]);
}

#[test]
fn tab_after_the_comma_of_a_vertex() {
    let doc = "\"P\" = POLYGON\n\tV1\t=\t( 1.5,\t2.5 )\n\tV2 = ( 3, 4 )\n\tV3 = ( 3, 8 )\n\t..\n";
    assert_eq!(
        polygon(doc).expect("TAB used as blank inside a vertex"),
        vec![(1.5, 2.5), (3.0, 4.0), (3.0, 8.0)]
    );
}
