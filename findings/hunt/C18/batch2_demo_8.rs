// C18 finding 8 -- ABSORPTANCE written in a CONSTRUCTION that has the same name as its LAYERS is lost
//
// Clause: "... the typed elements built from the blocks carry the written values (with the documented
//          legacy defaults when an attribute is absent)".
//
// Input (old LIDER names the CONSTRUCTION like its LAYERS -e.g. `"forBaja" = CONSTRUCTION / LAYERS =
//        "forBaja"` in hulc_tests/tests/liderdata/06_adosado.cte-; here it also writes ABSORPTANCE):
//         "lay" = LAYERS
//            MATERIAL  = ( "m1" )
//            THICKNESS = ( 0.1 )
//            ..
//         "lay" = CONSTRUCTION
//            TYPE        = LAYERS
//            LAYERS      = "lay"
//            ABSORPTANCE = 0.3
//            ..
//
// Expected: the wall construction the opaque elements refer to, db.wallcons["lay"], has
//           absorptance 0.3 (the written value; 0.6 is only the default for an ABSENT attribute).
// Actual:   db.wallcons["lay"].absorptance == 0.6.
//           (Control: with the construction called "lay0.30" instead, db.wallcons["lay0.30"].absorptance
//           is 0.3 as expected.)
//
// Cause: hulc/src/bdl/mod.rs:157 `if cons.name != cons.layers { ... layers_obj.absorptance =
//        cons.absorptance; ... }` skips the construction entirely when both names coincide, and then
//        mod.rs:165-168 overwrites the untouched 0.0 of the LAYERS object with the default 0.6.
//
// Minimal fix: when `cons.name == cons.layers` still copy the absorptance into the LAYERS entry
//        (`layers.get_mut(&cons.layers)?.absorptance = cons.absorptance`), e.g. by handling both cases
//        in the loop and only skipping the rename.
//
// Goes to: hulc/tests/demo_8.rs
// Run:     cd /tmp/seed-h18 && cargo test -p hulc --offline -j 4 --test demo_8

use hulc::bdl::Data;

fn doc(cons_name: &str) -> String {
    format!(
        "\"lay\" = LAYERS\n   MATERIAL  = ( \"m1\" )\n   THICKNESS = ( 0.1 )\n   ..\n\"{}\" = CONSTRUCTION\n   TYPE        = LAYERS\n   LAYERS      = \"lay\"\n   ABSORPTANCE = 0.3\n   ..\n",
        cons_name
    )
}

#[test]
fn control_construction_with_its_own_name() {
    // passes
    let data = Data::new(doc("lay0.30")).unwrap();
    assert_eq!(data.db.wallcons["lay0.30"].absorptance, 0.3);
    assert_eq!(data.db.wallcons["lay0.30"].thickness, vec![0.1]);
}

#[test]
fn construction_named_like_its_layers() {
    let data = Data::new(doc("lay")).unwrap();
    assert_eq!(data.db.wallcons["lay"].thickness, vec![0.1]);
    assert_eq!(
        data.db.wallcons["lay"].absorptance, 0.3,
        "written ABSORPTANCE replaced by the default for an absent attribute"
    );
}
