// C18 finding 9 -- AZIMUTH written on an opaque element with LOCATION = BOTTOM is replaced by 180
//                 (NOTE: the replacement is deliberate in the code -see comment at walls.rs:299-, so
//                 this one is "implementation chose not to carry the written value"; 118 elements of
//                 the real .cte files are affected)
//
// Clause: "... the typed elements built from the blocks carry the written values (with the documented
//          legacy defaults when an attribute is absent)".
//
// Input: real block of hulc_tests/tests/liderdata/06_adosado.cte (reduced document below keeps the
//        block verbatim and adds the minimum context: floor, polygons, space, layers):
//         "P02_E01_FI001" = INTERIOR-WALL
//               INT-WALL-TYPE = STANDARD
//               NEXT-TO       = "P01_E01"
//               CONSTRUCTION  = "forBaja"
//               X             =            4.3
//               Y             =          -6.76
//               Z             =              0
//               AZIMUTH       =             90
//               LOCATION      = BOTTOM
//               POLYGON       = "P02_E01_FI001_Poligono001"
//               ..
//
// Expected: Wall { x: 4.3, y: -6.76, z: 0, angle_with_space_north: 90 (the written AZIMUTH), ... };
//           the same block with LOCATION = TOP does carry 90 (control test).
// Actual:   angle_with_space_north == 180.0 (x, y, z and the polygon, which are expressed in the frame
//           that AZIMUTH defines, are kept; only the angle is discarded).
//
// Cause: hulc/src/bdl/envelope/walls.rs:297-303
//            let bdl_azimuth = match location.as_deref() {
//                Some("BOTTOM") => 180.0,
//                _ => attrs.remove_f32("AZIMUTH").unwrap_or_default(),
//            };
//        and hulc/src/bdl/mod.rs:410-416 returns that value unchanged for BOTTOM elements.
//
// Minimal fix: `Some("BOTTOM") => attrs.remove_f32("AZIMUTH").unwrap_or(180.0)` (180 only as the
//        default for an absent attribute) and do the mirror/rotation compensation where the geometry is
//        built (hulc2model), where the written angle is needed to place the polygon.
//
// Goes to: hulc/tests/demo_9.rs
// Run:     cd /tmp/seed-h18 && cargo test -p hulc --offline -j 4 --test demo_9

use hulc::bdl::Data;

fn doc(location: &str) -> String {
    format!(
        r#"
"P02" = FLOOR
   Z             =              3
   POLYGON       =  "P02_Poligono1"
   FLOOR-HEIGHT  =              3
   SPACE-HEIGHT  =              3
   SHAPE         =  POLYGON
   PREVIOUS      =  ""
   ..
"P02_E01_Poligono002" = POLYGON
   V1 = ( 0, 0 )
   V2 = ( 6, 0 )
   V3 = ( 6, 8 )
   V4 = ( 0, 8 )
   ..
"P02_E01_FI001_Poligono001" = POLYGON
   V1 = ( 0, 0 )
   V2 = ( 6, 0 )
   V3 = ( 6, 8 )
   V4 = ( 0, 8 )
   ..
"forBaja" = LAYERS
   MATERIAL  = ( "m1" )
   THICKNESS = ( 0.3 )
   ..
"P02_E01" = SPACE
   HEIGHT        =              3
   SHAPE             = POLYGON
   POLYGON           = "P02_E01_Poligono002"
   TYPE              = CONDITIONED
   SPACE-TYPE        = "Residencial"
   MULTIPLIER        = 1
   MULTIPLIED        = 0
   POWER     = 4.4
   VEEI-OBJ  = 7.000000
   VEEI-REF  = 10.000000
   ..
            "P02_E01_FI001" = INTERIOR-WALL
                  INT-WALL-TYPE = STANDARD
                  NEXT-TO       = "P01_E01"
   COMPROBAR-REQUISITOS-MINIMOS = YES
                  CONSTRUCTION  = "forBaja"
                  X             =            4.3
                  Y             =          -6.76
                  Z             =              0
                  AZIMUTH       =             90
                  LOCATION      = {}
                  POLYGON       = "P02_E01_FI001_Poligono001"
                      ..
                  "forBaja" =  CONSTRUCTION
                        TYPE   = LAYERS
                        LAYERS = "forBaja"
                        ..
"#,
        location
    )
}

#[test]
fn control_top_element_carries_written_azimuth() {
    // passes
    let data = Data::new(doc("TOP")).unwrap();
    let w = data.get_wall("P02_E01_FI001").unwrap();
    assert_eq!(w.angle_with_space_north, 90.0);
}

#[test]
fn bottom_element_carries_written_azimuth() {
    let data = Data::new(doc("BOTTOM")).unwrap();
    let w = data.get_wall("P02_E01_FI001").unwrap();
    assert_eq!(w.space, "P02_E01");
    assert_eq!(w.nextto.as_deref(), Some("P01_E01"));
    assert_eq!((w.x, w.y, w.z), (4.3, -6.76, 0.0));
    assert_eq!(w.location.as_deref(), Some("BOTTOM"));
    assert_eq!(w.angle_with_space_north, 90.0, "written AZIMUTH = 90 not carried");
}
