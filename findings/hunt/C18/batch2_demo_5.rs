// C18 finding 5 -- quoted strings whose text looks like a number are re-typed as f32 and their text is lost
//
// Clause: "... number formats, quoted and bare strings ... parsing recovers ... every attribute value,
//          and the typed elements built from the blocks carry the written values". (The quantifier only
//          excludes numeric-looking *names*; this is about ordinary quoted string attributes.)
//
// Input A (real: hulc_tests/tests/liderdata/vivienda.cte and 9 more of the 56 .cte files):
//         CAMBIO = NO
//         "Defecto" = DESCRIPTION
//             PHONE          = "000000000"
//             ..
//   Expected: PHONE is the string "000000000" (it is written between quotes).
//   Actual:   PHONE = Number(0.0): get_str("PHONE") fails and the only recoverable text is "0".
//             (Same for the 12 .ctehexml: BUILDING-AREA = "625.00" -> Number(625.0) -> "625",
//              NUMRENHS3 = "1.00" -> "1"; a real phone such as "912345678" becomes 912345660.)
//
// Input B (typed element):
//         "F" = NAME-FRAME
//             GROUP         = "2020"
//             FRAME-WIDTH   = 0.1
//             FRAME-CONDUCT = 1.3
//             FRAME-ABS     = 0.7
//             ..
//   Expected: Frame { name: "F", group: "2020", width: 0.1, conductivity: 1.3, absorptivity: 0.7 }
//   Actual:   bdl::Data::new fails ("Atributo 'GROUP' no encontrado ...").
//
// Input C: same with `"M" = MATERIAL / TYPE = PROPERTIES / GROUP = "2020" / CONDUCTIVITY = 1 / DENSITY = 1000`
//   Expected: Material.group == "2020".   Actual: Material.group == "Materiales" (the legacy default for an
//   ABSENT group silently replaces the written one).
//
// Cause: hulc/src/bdl/blocks.rs:352 strips the quotes (`value.trim_matches('"')`) BEFORE
//        hulc/src/bdl/common.rs:28-33 `AttrMap::insert` decides the type with `v.parse::<f32>()`, so the
//        information "this value was written as a quoted string" is gone and anything f32::from_str
//        accepts ("000000000", "2020", "1e3", "inf", "nan", "infinity" ...) becomes BdlValue::Number.
//
// Minimal fix: decide the type before removing the quotes: in parse_attributes, if the raw value starts
//        with '"' insert BdlValue::String(unquoted) directly; only unquoted values go through the
//        number-or-string test.
//
// Goes to: hulc/tests/demo_5.rs
// Run:     cd /tmp/seed-h18 && cargo test -p hulc --offline -j 4 --test demo_5

use hulc::bdl::{build_blocks, Data};

#[test]
fn quoted_phone_keeps_its_text() {
    let doc = "CAMBIO = NO\n\"Defecto\" = DESCRIPTION\n    PHONE          = \"000000000\"\n    ..\n";
    let blocks = build_blocks(doc).unwrap();
    let b = blocks.iter().find(|b| b.name == "Defecto").unwrap();
    // Written value, read independently from the document text
    let written = doc
        .lines()
        .find(|l| l.trim_start().starts_with("PHONE"))
        .and_then(|l| l.split('"').nth(1))
        .unwrap();
    assert_eq!(written, "000000000");
    let recovered = b.attrs.get("PHONE").unwrap().to_string();
    assert_eq!(recovered, written, "quoted string was re-typed as a number");
}

#[test]
fn frame_with_numeric_looking_group() {
    let doc = "\"F\" = NAME-FRAME\n  GROUP         = \"2020\"\n  FRAME-WIDTH   = 0.1\n  FRAME-CONDUCT = 1.3\n  FRAME-ABS     = 0.7\n  ..\n";
    let data = Data::new(doc).expect("frame block with GROUP = \"2020\"");
    let f = &data.db.frames["F"];
    assert_eq!(f.group, "2020");
    assert_eq!(f.width, 0.1);
    assert_eq!(f.conductivity, 1.3);
    assert_eq!(f.absorptivity, 0.7);
}

#[test]
fn material_with_numeric_looking_group() {
    let doc = "\"M\" = MATERIAL\n  TYPE = PROPERTIES\n  GROUP = \"2020\"\n  CONDUCTIVITY = 1\n  DENSITY = 1000\n  ..\n";
    let data = Data::new(doc).unwrap();
    assert_eq!(data.db.materials["M"].group, "2020");
}
