// C18 finding 7 -- two consecutive dots inside a quoted string are taken as the end-of-block mark
//
// Clause: "... quoted and bare strings ... parsing recovers every block's name, type, parent and every
//          attribute value".
//
// Input:
//         "M" = MATERIAL
//            TYPE         = PROPERTIES
//            IMAGE        = "..\img\ladrillo.bmp"        <- or any text such as "ver nota..."
//            CONDUCTIVITY = 0.5
//            DENSITY      = 1000
//            ..
//         "P01" = FLOOR
//            Z = 3
//            ..
//
// Expected: 2 blocks; block "M" has IMAGE = `..\img\ladrillo.bmp`, CONDUCTIVITY = 0.5, DENSITY = 1000.
// Actual:   Err("Error al parsear el encabezado '\img\ladrillo.bmp\"' ..."): the text is cut at the
//           dots inside the string, the remainder of block "M" is parsed as if it were a new block.
//           (Second test: `NOTA = "ver memoria..."` -> Err("Error al parsear el encabezado '.\"' ...").)
//
// Cause: hulc/src/bdl/blocks.rs:277-280 `cleandata.split("..")` splits the whole cleaned text on every
//        occurrence of "..", not only on the terminator line (a line that consists of `..`).
//
// Minimal fix: split on terminator *lines*: iterate the cleaned lines and close the current block when
//        `line == ".."` (or when a line ends with " .." outside quotes), instead of `str::split("..")`.
//
// Goes to: hulc/tests/demo_7.rs
// Run:     cd /tmp/seed-h18 && cargo test -p hulc --offline -j 4 --test demo_7

use hulc::bdl::{build_blocks, BdlBlockType};

#[test]
fn dots_inside_quoted_string() {
    let doc = "\"M\" = MATERIAL\n   TYPE         = PROPERTIES\n   IMAGE        = \"..\\img\\ladrillo.bmp\"\n   CONDUCTIVITY = 0.5\n   DENSITY      = 1000\n   ..\n\"P01\" = FLOOR\n   Z = 3\n   ..\n";
    let blocks = build_blocks(doc).expect("document with '..' inside a quoted string");
    assert_eq!(blocks.len(), 2);
    assert_eq!(blocks[0].name, "M");
    assert_eq!(blocks[0].btype, BdlBlockType::Material);
    assert_eq!(blocks[0].attrs.get_str("IMAGE").unwrap(), "..\\img\\ladrillo.bmp");
    assert_eq!(blocks[0].attrs.get_f32("CONDUCTIVITY").unwrap(), 0.5);
    assert_eq!(blocks[0].attrs.get_f32("DENSITY").unwrap(), 1000.0);
    assert_eq!(blocks[1].name, "P01");
}

#[test]
fn ellipsis_at_the_end_of_a_quoted_string() {
    let doc = "\"Defecto\" = DEFECTOS\n   NOTA = \"ver memoria...\"\n   VX   = 2\n   ..\n";
    let blocks = build_blocks(doc).expect("document with an ellipsis inside a quoted string");
    assert_eq!(blocks.len(), 1);
    assert_eq!(blocks[0].attrs.get_str("NOTA").unwrap(), "ver memoria...");
    assert_eq!(blocks[0].attrs.get_f32("VX").unwrap(), 2.0);
}
