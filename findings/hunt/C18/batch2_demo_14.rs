// C18 finding 14 -- HEIGHT written in a SPACE is replaced by the SPACE-HEIGHT of its FLOOR
//                  (NOTE: deliberate in the code -"HULC solo permite que los espacios tengan la altura de
//                  la planta"-; none of the 68 real files has a SPACE whose HEIGHT differs from its floor's
//                  SPACE-HEIGHT, so only generated documents are affected)
//
// Clause: "... the typed elements built from the blocks carry the written values (with the documented
//          legacy defaults when an attribute is absent)".
//
// Input:
//         "P01" = FLOOR    ... FLOOR-HEIGHT = 3, SPACE-HEIGHT = 3, PREVIOUS = "" ..
//         "pol" = POLYGON  ... 4 vertices ..
//         "P01_E01" = SPACE
//            HEIGHT = 2.5            <- written, differs from the floor's 3
//            SHAPE = POLYGON, POLYGON = "pol", TYPE = CONDITIONED, SPACE-TYPE = "Residencial",
//            MULTIPLIER = 1, MULTIPLIED = 0, POWER = 4.4, VEEI-OBJ = 7, VEEI-REF = 10
//            ..
//
// Expected: data.spaces[0].height == 2.5 (floor height only as default when HEIGHT is absent, which is
//           what the comment at space.rs:145-146 describes: "HULC no define a veces la altura pero ...
//           usa la altura de la planta").
// Actual:   data.spaces[0].height == 3.0.
//
// Cause: hulc/src/bdl/mod.rs:263 `space.height = floor.height;` is unconditional (space.rs:149 has read the
//        written HEIGHT, or 0.0 when absent, just before).
//
// Minimal fix: `if space.height == 0.0 { space.height = floor.height }` (or keep HEIGHT as Option<f32> in
//        Space::try_from and use `unwrap_or(floor.height)`).
//
// Goes to: hulc/tests/demo_14.rs
// Run:     cd /tmp/seed-h18 && cargo test -p hulc --offline -j 4 --test demo_14

use hulc::bdl::Data;

fn doc(height_line: &str) -> String {
    format!(
        r#"
"P01" = FLOOR
   POLYGON       =  "P01_Poligono1"
   FLOOR-HEIGHT  =              3
   SPACE-HEIGHT  =              3
   SHAPE         =  POLYGON
   PREVIOUS      =  ""
   ..
"pol" = POLYGON
   V1 = ( 0, 0 )
   V2 = ( 10, 0 )
   V3 = ( 10, 5 )
   V4 = ( 0, 5 )
   ..
"P01_E01" = SPACE
   {}
   SHAPE             = POLYGON
   POLYGON           = "pol"
   TYPE              = CONDITIONED
   SPACE-TYPE        = "Residencial"
   MULTIPLIER        = 1
   MULTIPLIED        = 0
   POWER     = 4.4
   VEEI-OBJ  = 7.000000
   VEEI-REF  = 10.000000
   ..
"#,
        height_line
    )
}

#[test]
fn control_absent_height_defaults_to_floor_height() {
    // passes: documented legacy default
    let data = Data::new(doc("")).unwrap();
    assert_eq!(data.spaces[0].height, 3.0);
}

#[test]
fn written_space_height_is_carried() {
    let data = Data::new(doc("HEIGHT        =            2.5")).unwrap();
    assert_eq!(data.spaces[0].name, "P01_E01");
    assert_eq!(data.spaces[0].floor, "P01");
    assert_eq!(data.spaces[0].height, 2.5, "written HEIGHT replaced by the floor's SPACE-HEIGHT");
}
