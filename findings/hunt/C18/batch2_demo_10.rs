// C18 finding 10 -- NewBDL_O.tbl: a file with zero elements (or zero zones) cannot be read, and blanks
//                  after the closing quote of a name line corrupt the recovered name
//
// Clause: "The same holds for ... NewBDL_O.tbl" (parsing recovers every value written in the file).
//
// Input A (0 elements, 1 zone; header says `0 1`):
//         Nombre
//          A U p f fv angNorte tilt tipo codigo0 codigo1
//         0 1
//         "P01_E01"
//          1 1 50.000000 4.400000
//   Expected: elements = {}, spaces = { "P01_E01": Space { id_space 1, mult 1, area 50.0, qint 4.4 } }
//   Actual:   Err("Error al leer el archivo .tbl: formato desconocido del elemento P01_E01")
//
// Input B (1 element, 0 zones, and one empty line after the last record -the real files end right
//          after the CRLF of the last record, so this variant is a pure layout change-):
//         ...
//         1 0
//         "P01_E01_PE001"
//          30.000000 0.297400 173.700012 0.000000 0.000000 90.000000 90.000000 0 0 -1
//         <empty line>
//   Expected: 1 element, 0 spaces.   Actual: Err("... no se ha encontrado la línea de propiedades del espacio")
//
// Input C (name lines followed by blanks: `"P01_E01_PE001"  ` and `"P01_E01" `):
//   Expected: element name "P01_E01_PE001", space name "P01_E01" (and those map keys).
//   Actual:   element name/key `P01_E01_PE001"`, space name `P01_E01"` stored under key `P01_E01" `.
//
// Cause: hulc/src/tbl.rs:200-217 and :222-243: both loops are `while let Some(line) = lines.next() {
//        read one record; idx += 1; if idx == num { break } }`, i.e. they always read at least one
//        record, so a count of 0 is never honoured. tbl.rs:201 `line.trim_matches('"').trim()` and
//        tbl.rs:223 `line.trim_matches('"')` strip the quotes BEFORE the surrounding blanks, so a
//        trailing blank protects the closing quote.
//
// Minimal fix: `for _ in 0..numelements { let line = lines.next().ok_or(..)?; ... }` (same for
//        spaces) and `line.trim().trim_matches('"')` in both places.
//
// Goes to: hulc/tests/demo_10.rs
// Run:     cd /tmp/seed-h18 && cargo test -p hulc --offline -j 4 --test demo_10

use std::path::PathBuf;

const HEAD: &str = "Nombre\r\n A U p f fv angNorte tilt tipo codigo0 codigo1\r\n";
const ELEM_VALUES: &str =
    " 30.000000 0.297400 173.700012 0.000000 0.000000 90.000000 90.000000 0 0 -1";
const SPACE_VALUES: &str = " 1 1 50.000000 4.400000";

fn write_tbl(tag: &str, content: &str) -> PathBuf {
    let dir = std::env::temp_dir().join(format!("h18_demo10_{}_{}", tag, std::process::id()));
    std::fs::create_dir_all(&dir).unwrap();
    let path = dir.join("NewBDL_O.tbl");
    std::fs::write(&path, content).unwrap();
    path
}

#[test]
fn control_one_element_one_zone() {
    // passes
    let content = format!(
        "{HEAD}1 1\r\n\"P01_E01_PE001\"\r\n{ELEM_VALUES}\r\n\"P01_E01\"\r\n{SPACE_VALUES}\r\n"
    );
    let tbl = hulc::tbl::parse(write_tbl("ctl", &content)).unwrap();
    assert_eq!(tbl.elements["P01_E01_PE001"].area, 30.0);
    assert_eq!(tbl.elements["P01_E01_PE001"].id_space, -1);
    assert_eq!(tbl.spaces["P01_E01"].area, 50.0);
    assert_eq!(tbl.spaces["P01_E01"].qint, 4.4);
}

#[test]
fn zero_elements() {
    let content = format!("{HEAD}0 1\r\n\"P01_E01\"\r\n{SPACE_VALUES}\r\n");
    let tbl = hulc::tbl::parse(write_tbl("zero_el", &content)).expect("0 elements, 1 zone");
    assert!(tbl.elements.is_empty());
    assert_eq!(tbl.spaces.len(), 1);
    assert_eq!(tbl.spaces["P01_E01"].mult, 1);
    assert_eq!(tbl.spaces["P01_E01"].area, 50.0);
}

#[test]
fn zero_zones_and_final_blank_line() {
    let content = format!("{HEAD}1 0\r\n\"P01_E01_PE001\"\r\n{ELEM_VALUES}\r\n\r\n");
    let tbl = hulc::tbl::parse(write_tbl("zero_sp", &content)).expect("1 element, 0 zones");
    assert_eq!(tbl.elements.len(), 1);
    assert!(tbl.spaces.is_empty());
}

#[test]
fn blanks_after_the_name() {
    let content = format!(
        "{HEAD}1 1\r\n\"P01_E01_PE001\"  \r\n{ELEM_VALUES}\r\n\"P01_E01\" \r\n{SPACE_VALUES}\r\n"
    );
    let tbl = hulc::tbl::parse(write_tbl("blanks", &content)).unwrap();
    let el_keys: Vec<_> = tbl.elements.keys().cloned().collect();
    let sp_keys: Vec<_> = tbl.spaces.keys().cloned().collect();
    assert_eq!(el_keys, vec!["P01_E01_PE001".to_string()]);
    assert_eq!(tbl.elements.values().next().unwrap().name, "P01_E01_PE001");
    assert_eq!(sp_keys, vec!["P01_E01".to_string()]);
    assert_eq!(tbl.spaces.values().next().unwrap().name, "P01_E01");
}
