// C18 finding 13 -- a `$` comment after a value (BDL's in-line comment) becomes part of the value
//                  (LOW confidence that the verifier's printers emit this form: HULC/LIDER only write
//                  whole-line comments; in DOE-2 BDL `$` starts a comment anywhere in the line)
//
// Clause: "... comments, blank lines ... parsing recovers ... every attribute value".
//
// Input:
//         "P01" = FLOOR
//            Z            = 3      $ cota de la planta
//            SPACE-HEIGHT = 2.5    $ altura
//            PREVIOUS     = ""     $ primera planta
//            ..
//
// Expected: Z = 3 (number), SPACE-HEIGHT = 2.5, PREVIOUS = "" and Floor { z: 3, height: 2.5, previous: "" }.
// Actual:   Z = String("3      $ cota de la planta"), ... ; Floor::try_from fails
//           ("Atributo 'SPACE-HEIGHT' no encontrado").
//
// Cause: hulc/src/bdl/blocks.rs:231 `!l.starts_with('$')` only removes lines that START with '$';
//        parse_attributes (blocks.rs:334-353) takes everything after '=' as the value.
//
// Minimal fix: in clean_lines cut each line at the first '$' that is outside double quotes before
//        trimming/filtering.
//
// Goes to: hulc/tests/demo_13.rs
// Run:     cd /tmp/seed-h18 && cargo test -p hulc --offline -j 4 --test demo_13

use std::convert::TryFrom;

use hulc::bdl::{build_blocks, Floor};

#[test]
fn inline_comment_after_value() {
    let doc = "\"P01\" = FLOOR\n   Z            = 3      $ cota de la planta\n   SPACE-HEIGHT = 2.5    $ altura\n   PREVIOUS     = \"\"     $ primera planta\n   ..\n";
    let blocks = build_blocks(doc).unwrap();
    assert_eq!(blocks[0].name, "P01");
    assert_eq!(blocks[0].attrs.get_f32("Z").expect("Z is a number"), 3.0);
    let floor = Floor::try_from(blocks[0].clone()).expect("floor element");
    assert_eq!((floor.z, floor.height, floor.previous.as_str()), (3.0, 2.5, ""));
}
