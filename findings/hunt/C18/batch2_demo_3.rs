// C18 finding 3 -- a named block with an empty attribute set makes the whole document unparseable
//                 (and so does a document whose first block is "DATOS GENERALES"/"Defecto" with no
//                 loose preamble lines before it)
//
// Clause: "For any document in the block syntax ... any mix of block types ... [random attribute
//          sets] ... and the legacy preamble - parsing recovers every block's name, type, parent and
//          every attribute value".
//
// Input A (a block whose attribute set is empty, followed by a normal block):
//         "W" = WORK-SPACE
//            ..
//         "P01" = FLOOR
//            Z = 3
//            ..
// Expected: 2 blocks: (name "W", type WorkSpace, no attributes), (name "P01", type Floor, Z = 3).
// Actual:   build_blocks returns Err("Tipo de bloque desconocido \"W\" = WORK-SPACE"); nothing is recovered.
//
// Input B (HULC document WITHOUT the loose LIDER preamble lines, i.e. it starts directly -possibly
//          after comments- with the GENERAL-DATA block; same for old LIDER's `"Defecto" = DESCRIPTION`):
//         $ comentario
//         "DATOS GENERALES" = GENERAL-DATA
//            CITY = "Madrid"
//            ..
// Expected: 1 block (name "DATOS GENERALES", type GeneralData, CITY = "Madrid") (an additional empty
//           PARTELIDER pseudo-block would be acceptable).
// Actual:   Err("Tipo de bloque desconocido \"PARTELIDER\" = PARTELIDER").
//
// Cause: hulc/src/bdl/blocks.rs:46-57. `BdlBlock::from_str` treats every block text that has a single
//        line as a *nameless* block (LOADS-REPORT ...) and tries to parse the whole header
//        `"W" = WORK-SPACE` as a block type. Because build_blocks (blocks.rs:277-280) trims each
//        `..`-separated chunk, any named block without attributes is reduced to that single line.
//        Input B hits the same path through sanitize_lider_data (blocks.rs:258-269): the marker is
//        found at position 0, the lider part is empty, and the synthetic
//        `"PARTELIDER" = PARTELIDER\n\n..` block that is always prepended has no attributes.
//
// Minimal fix: in from_str, when there is a single stanza and it contains '=', parse it as
//        `name = type` with an empty AttrMap (only fall back to the nameless form when there is no
//        '='); additionally, in sanitize_lider_data do not prepend the PARTELIDER block when
//        `_lider_part` is empty.
//
// Goes to: hulc/tests/demo_3.rs
// Run:     cd /tmp/seed-h18 && cargo test -p hulc --offline -j 4 --test demo_3

use hulc::bdl::{build_blocks, BdlBlockType};

#[test]
fn block_with_empty_attribute_set() {
    let doc = "\"W\" = WORK-SPACE\n   ..\n\"P01\" = FLOOR\n   Z = 3\n   ..\n";
    let blocks = build_blocks(doc).expect("a block without attributes is still a block");
    assert_eq!(blocks.len(), 2);
    assert_eq!(blocks[0].name, "W");
    assert_eq!(blocks[0].btype, BdlBlockType::WorkSpace);
    assert!(blocks[0].attrs.0.is_empty());
    assert_eq!(blocks[1].name, "P01");
    assert_eq!(blocks[1].btype, BdlBlockType::Floor);
    assert_eq!(blocks[1].attrs.get_f32("Z").unwrap(), 3.0);
}

#[test]
fn general_data_first_without_loose_preamble() {
    let doc = "$ comentario\n\"DATOS GENERALES\" = GENERAL-DATA\n   CITY = \"Madrid\"\n   ..\n";
    let blocks = build_blocks(doc).expect("document without loose preamble lines");
    let gd: Vec<_> = blocks
        .iter()
        .filter(|b| b.btype == BdlBlockType::GeneralData)
        .collect();
    assert_eq!(gd.len(), 1);
    assert_eq!(gd[0].name, "DATOS GENERALES");
    assert_eq!(gd[0].attrs.get_str("CITY").unwrap(), "Madrid");
}

#[test]
fn old_lider_description_first_without_loose_preamble() {
    let doc = "\"Defecto\" = DESCRIPTION\n   PROJECTNAME = \"Ter\"\n   ..\n";
    let blocks = build_blocks(doc).expect("document without loose preamble lines");
    let d: Vec<_> = blocks
        .iter()
        .filter(|b| b.btype == BdlBlockType::Description)
        .collect();
    assert_eq!(d.len(), 1);
    assert_eq!(d[0].name, "Defecto");
    assert_eq!(d[0].attrs.get_str("PROJECTNAME").unwrap(), "Ter");
}
