// C18 finding 12 -- WINDOW: written overhang / fin / louvre values are discarded unless two particular
//                  attributes are both positive
//
// Clause: "... random attribute sets ... the typed elements built from the blocks carry the written values
//          (with the documented legacy defaults when an attribute is absent)".
//
// Input:
//         "w1" = EXTERIOR-WALL ... (context)
//         "w1_V" = WINDOW
//            X = 0.2   Y = 0.1   SETBACK = 0   HEIGHT = 2.6   WIDTH = 5
//            GAP            = "hueco"
//            OVERHANG-A     = 0.1
//            OVERHANG-B     = 0.2
//            OVERHANG-D     = 0.8            <- OVERHANG-W not written (absent => 0)
//            OVERHANG-ANGLE = 90
//            LEFT-FIN-A     = 0.3
//            LEFT-FIN-D     = 0.5            <- LEFT-FIN-H not written
//            LAMAS-DISTANCE = 0.2
//            LAMAS-ANGLE    = 45             <- LAMAS-WIDTH not written
//            POSITION-LAMAS = Horizontal
//            ..
//
// Expected: window.overhang = Some(Overhang { a: 0.1, b: 0.2, depth: 0.8, width: 0.0 (absent), angle: 90 }),
//           window.left_fin = Some(Fin { a: 0.3, b: 0.0, depth: 0.5, height: 0.0 }),
//           window.louvres  = Some(Louvres { is_horizontal: true, distance: 0.2, angle: 45, width: 0.0, .. })
//           i.e. every written number is somewhere in the typed element.
// Actual:   overhang == None, left_fin == None, louvres == None: 0.1, 0.2, 0.8, 90, 0.3, 0.5, 0.2 and 45 are
//           nowhere in the Window.
//
// Cause: hulc/src/bdl/envelope/window.rs:133-137 (`if o.depth * o.width > 0.0 { Some(o) } else { None }`),
//        :147-151, :161-165 (`f.depth * f.height > 0.0`) and :183-187 (`ll.width > 0.0`): the element is kept
//        only when it would cast a shadow, not when it has been written (also drops e.g. D = -1, W = -1 -> kept,
//        D = 1, W = -1 -> dropped).
//
// Minimal fix: keep the element when any of its attributes is present in the block (e.g. collect with
//        `attrs.remove_f32(..).ok()` and build `Some(..)` if any is `Some`), and leave the "does it shade?"
//        test to the consumers.
//
// Goes to: hulc/tests/demo_12.rs
// Run:     cd /tmp/seed-h18 && cargo test -p hulc --offline -j 4 --test demo_12

use std::convert::TryFrom;

use hulc::bdl::{build_blocks, Window};

const DOC: &str = r#"
"w1" = EXTERIOR-WALL
   CONSTRUCTION = "muro"
   LOCATION     = SPACE-V1
   ..
"w1_V" = WINDOW
   X              = 0.2
   Y              = 0.1
   SETBACK        = 0
   HEIGHT         = 2.6
   WIDTH          = 5
   GAP            = "hueco"
   OVERHANG-A     = 0.1
   OVERHANG-B     = 0.2
   OVERHANG-D     = 0.8
   OVERHANG-ANGLE = 90
   LEFT-FIN-A     = 0.3
   LEFT-FIN-D     = 0.5
   POSITION-LAMAS = Horizontal
   LAMAS-DISTANCE = 0.2
   LAMAS-ANGLE    = 45
   ..
"#;

fn window() -> Window {
    let blocks = build_blocks(DOC).unwrap();
    let b = blocks.into_iter().find(|b| b.name == "w1_V").unwrap();
    assert_eq!(b.parent.as_deref(), Some("w1"));
    Window::try_from(b).unwrap()
}

#[test]
fn written_overhang_values_are_carried() {
    let w = window();
    assert_eq!((w.x, w.y, w.height, w.width), (0.2, 0.1, 2.6, 5.0)); // ok
    let o = w.overhang.expect("OVERHANG-A/B/D/ANGLE are written in the block");
    assert_eq!((o.a, o.b, o.depth, o.width, o.angle), (0.1, 0.2, 0.8, 0.0, 90.0));
}

#[test]
fn written_fin_values_are_carried() {
    let f = window().left_fin.expect("LEFT-FIN-A/D are written in the block");
    assert_eq!((f.a, f.b, f.depth, f.height), (0.3, 0.0, 0.5, 0.0));
}

#[test]
fn written_louvre_values_are_carried() {
    let l = window().louvres.expect("LAMAS-* are written in the block");
    assert!(l.is_horizontal);
    assert_eq!((l.distance, l.angle, l.width), (0.2, 45.0, 0.0));
}
