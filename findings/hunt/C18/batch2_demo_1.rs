// C18 finding 1 -- KyGananciasSolares.txt, OLD column layout: written columns are not recovered
//
// Clause: "The same holds for KyGananciasSolares.txt (either decimal separator, old and new
//          column layouts)": parsing recovers every value that is written in the file.
//
// Input (lines copied verbatim from the real file
//        hulc_tests/tests/00_plurif_s3_v0_d3/KyGananciasSolares.txt, old layout):
//     Ventana;P01_E01_PE001_V;1.70;1.22;S ;20.00;0.63;-1.00;1.00        (9 columns)
//     Muro;P01_E01_PE001;19.96;0.27;1.00;Muro Exterior                  (6 columns)
//
// Expected: window.ggln = Some(0.63), window.unknown1 = Some(-1.0), window.unknown2 = Some(1.0)
//           (columns 7, 8, 9 of the Ventana line: "Factor solar vidrio", "No se usa (-1)",
//           "Factor de sombra del hueco"); wall.wtype = Some("Muro Exterior") (column 6 of the Muro
//           line; the doc comment of kyg::Wall::wtype even lists the old-layout vocabulary
//           "Muro Exteror"|"Separación No Habitable"|...).
// Actual:   ggln = None, unknown1 = None, unknown2 = None, wtype = None.
//
// Cause: hulc/src/kyg.rs:131 `if vv.len() > 10 { ... } else { (None, None, None, None, None) }`
//        reads the optional window columns all-or-nothing (only for the 11 column layout), and
//        hulc/src/kyg.rs:168 `if vv.len() > 7 { ... } else { (None, None, None) }` does the same for
//        the optional wall columns. The old layout has 9 (window) and 6 (wall) columns, so the
//        values that ARE written in those columns are thrown away.
//
// Minimal fix: read each optional column by position, e.g.
//        let col = |i: usize| vv.get(i).map(|v| v.replace(',', "."));
//        ggln = col(6).map(|v| v.parse()).transpose()?;  unknown1 = col(7)...; unknown2 = col(8)...;
//        infcoeff_100 = col(9)...; cons = vv.get(10).map(|s| s.to_string());
//        wtype = vv.get(5)..., orientation = vv.get(6)..., cons = vv.get(7)...
//
// Goes to: hulc/tests/demo_1.rs
// Run:     cd /tmp/seed-h18 && cargo test -p hulc --offline -j 4 --test demo_1

const OLD_LAYOUT: &str = "###;Datos para Factor de Pérdidas\n\
Ventana;P01_E01_PE001_V;1.70;1.22;S ;20.00;0.63;-1.00;1.00\n\
Muro;P01_E01_PE001;19.96;0.27;1.00;Muro Exterior\n\
PPTT;195.78;0.100;FRENTE_FORJADO\n\
Coeficiente K = ;0.52\n";

/// Independent reader: column `col` (0-based) of the first line starting with `kind`
fn written(kind: &str, col: usize) -> String {
    OLD_LAYOUT
        .lines()
        .find(|l| l.starts_with(kind))
        .unwrap()
        .split(';')
        .nth(col)
        .unwrap()
        .trim()
        .to_string()
}

#[test]
fn kyg_old_layout_window_columns_are_recovered() {
    let kyg = hulc::kyg::parse(OLD_LAYOUT).unwrap();
    let win = &kyg.windows["P01_E01_PE001_V"];
    // Columns that the parser does read
    assert_eq!(win.a, written("Ventana", 2).parse::<f32>().unwrap());
    assert_eq!(win.u, written("Ventana", 3).parse::<f32>().unwrap());
    // Columns written in the old layout but dropped
    let ggln: f32 = written("Ventana", 6).parse().unwrap(); // 0.63
    let unk1: f32 = written("Ventana", 7).parse().unwrap(); // -1.00
    let unk2: f32 = written("Ventana", 8).parse().unwrap(); // 1.00
    assert_eq!(win.ggln, Some(ggln), "g_gl;n written in column 7 is lost");
    assert_eq!(win.unknown1, Some(unk1), "column 8 is lost");
    assert_eq!(win.unknown2, Some(unk2), "column 9 is lost");
}

#[test]
fn kyg_old_layout_wall_type_is_recovered() {
    let kyg = hulc::kyg::parse(OLD_LAYOUT).unwrap();
    let wall = &kyg.walls["P01_E01_PE001"];
    assert_eq!(wall.btrx, written("Muro", 4).parse::<f32>().unwrap());
    assert_eq!(
        wall.wtype.as_deref(),
        Some(written("Muro", 5).as_str()), // "Muro Exterior"
        "wall type written in column 6 is lost"
    );
}
