// C18 finding 2 -- KyGananciasSolares.txt: decimal comma is not accepted in the solar gain lines
//
// Clause: "The same holds for KyGananciasSolares.txt (either decimal separator ...)".
//
// Input: a KyG file written with decimal commas (HULC itself writes commas in the PPTT and
//        "Coeficiente K" lines of the real files, e.g. casoA: `PPTT;50,00;0,000;FRENTE_FORJADO;SDINT`,
//        `Coeficiente K = ;0,464`), including the per-window solar gain line
//            "P02_E01_PE001_V"; 270,000000; 2,000000; 120642,843750; 113757,890625; 113757,890625; 113757,890625; 102382,109375
//
// Expected: Ok, with window.azimuth_n = 270.0 and window.fshobst = 113757.890625 / 120642.84375 = 0.94293
//           (exactly what the same document gives when written with decimal points).
// Actual:   Err(ParseFloatError { kind: Invalid }) -- the whole file is rejected.
//
// Cause: hulc/src/kyg.rs:219-225: the eight `vv[i].parse::<f32>()?` of the `line.starts_with('"')`
//        branch are the only numeric reads of the parser that lack the `.replace(',', ".")` used
//        everywhere else (lines 133-136, 149-151, 182-184, 202-203, 237, 253).
//
// Minimal fix: `vv[i].replace(',', ".").parse::<f32>()?` in those eight reads (or a small
//        `fn num(s: &str) -> Result<f32, _>` helper used by every numeric column).
//
// Goes to: hulc/tests/demo_2.rs
// Run:     cd /tmp/seed-h18 && cargo test -p hulc --offline -j 4 --test demo_2

const WITH_POINTS: &str = "Ventana;P02_E01_PE001_V;2.00;1.26;O ;10.00;0.79;-1.00;1.00;50.00;PVC 2\n\
Muro;P02_E01_PE001;28.00;0.30;1.00;Fachada;O ;SATE\n\
PPTT;50.00;0.000;FRENTE_FORJADO;SDINT\n\
Coeficiente K = ;0.464\n\
0 ; 61.031345\n\
\"P02_E01_PE001_V\"; 270.000000; 2.000000; 120642.843750; 113757.890625; 113757.890625; 113757.890625; 102382.109375\n";

#[test]
fn kyg_decimal_comma_everywhere() {
    // Same document, every decimal point replaced by a decimal comma (no other '.' in the text)
    let with_commas = WITH_POINTS.replace('.', ",");

    let reference = hulc::kyg::parse(WITH_POINTS).expect("decimal point version parses");
    let w_ref = &reference.windows["P02_E01_PE001_V"];
    // Expected values computed from the text, not from the parser
    let expected_fshobst = 113757.890625_f32 / 120642.843750_f32;
    assert!((w_ref.azimuth_n - 270.0).abs() < 1e-6);
    assert!((w_ref.fshobst - expected_fshobst).abs() < 1e-6);

    let parsed = hulc::kyg::parse(&with_commas);
    let kyg = parsed.expect("decimal comma version must parse too (either decimal separator)");
    let w = &kyg.windows["P02_E01_PE001_V"];
    assert!((w.a - 2.0).abs() < 1e-6);
    assert!((w.azimuth_n - 270.0).abs() < 1e-6);
    assert!((w.fshobst - expected_fshobst).abs() < 1e-6);
    assert!((kyg.k - 0.464).abs() < 1e-6);
}
