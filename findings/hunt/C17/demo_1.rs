// C17 demo 1 -- goes to bemodel/tests/demo_1.rs
// Run: cd /tmp/seed-h17 && cargo test -p bemodel --offline -j 4 --test demo_1
//
// Clause: "The yearly occupied time is the number of hours in which at least one habitable
// space inside the envelope has non-zero occupancy" (yearly schedules with periods of
// arbitrary lengths).
//
// Two occupied spaces of caso_a.json, each with its own people schedule:
//   space A: occupied 08-17h (9 h/day), yearly schedule with periods (50, 50) -> 100 days
//   space B: occupied 20-23h (3 h/day), yearly schedule with one period of 365 days
// The hours never overlap, so the occupied time is 100*9 + 365*3 = 1995 h.
// The implementation only walks as many days as the yearly schedule of the FIRST space
// (in Uuid order) expands to, so it answers 1200 h when A sorts first and 1995 h when B
// sorts first: the result depends on the ids of the spaces.

use bemodel::energy::EnergyProps;
use bemodel::{Model, Schedule, ScheduleDay, ScheduleWeek, SchedulesDb, SpaceLoads, Uuid};

fn uid(n: u128) -> Uuid {
    Uuid::from_u128(n)
}

fn build(a_sorts_first: bool) -> Model {
    let json = std::fs::read_to_string("tests/data/caso_a.json").unwrap();
    let mut model = Model::from_json(&json).unwrap();

    let mut day_a = vec![0.0; 24];
    day_a[8..17].iter_mut().for_each(|v| *v = 1.0);
    let mut day_b = vec![0.0; 24];
    day_b[20..23].iter_mut().for_each(|v| *v = 1.0);

    model.schedules = SchedulesDb {
        day: vec![
            ScheduleDay { id: uid(1), name: "day_a".into(), values: day_a },
            ScheduleDay { id: uid(2), name: "day_b".into(), values: day_b },
        ],
        week: vec![
            ScheduleWeek { id: uid(11), name: "week_a".into(), values: vec![(uid(1), 7)] },
            ScheduleWeek { id: uid(12), name: "week_b".into(), values: vec![(uid(2), 5), (uid(2), 2)] },
        ],
        year: vec![
            Schedule { id: uid(21), name: "year_a".into(), values: vec![(uid(11), 50), (uid(11), 50)] },
            Schedule { id: uid(22), name: "year_b".into(), values: vec![(uid(12), 365)] },
        ],
    };
    let loads = |id, sch| SpaceLoads {
        id,
        name: "l".into(),
        area_per_person: 10.0,
        people_schedule: Some(sch),
        people_sensible: 2.0,
        people_latent: 1.0,
        equipment: 0.0,
        equipment_schedule: None,
        lighting: 0.0,
        lighting_schedule: None,
    };
    model.loads = vec![loads(uid(31), uid(21)), loads(uid(32), uid(22))];
    model.thermostats.clear();
    for s in model.spaces.iter_mut() {
        s.thermostat = None;
        s.loads = None;
    }
    // Spaces P01_E01 and P03_E01 (both CONDITIONED and inside the envelope) are the occupied ones
    let (new_a, new_b) = if a_sorts_first { (uid(901), uid(902)) } else { (uid(902), uid(901)) };
    let (ia, ib) = (0, 3);
    assert!(model.spaces[ia].inside_tenv && model.spaces[ib].inside_tenv);
    let (old_a, old_b) = (model.spaces[ia].id, model.spaces[ib].id);
    for w in model.walls.iter_mut() {
        for (old, new) in [(old_a, new_a), (old_b, new_b)] {
            if w.space == old {
                w.space = new;
            }
            if w.next_to == Some(old) {
                w.next_to = Some(new);
            }
        }
    }
    model.spaces[ia].id = new_a;
    model.spaces[ia].loads = Some(uid(31));
    model.spaces[ib].id = new_b;
    model.spaces[ib].loads = Some(uid(32));
    model
}

/// Independent count: hour by hour, is any occupied space's people schedule non-zero?
fn expected_hours(model: &Model) -> u32 {
    let mut occupied: Vec<bool> = vec![];
    for s in &model.spaces {
        let Some(l) = s.loads.and_then(|id| model.loads.iter().find(|l| l.id == id)) else { continue };
        let Some(y) = l.people_schedule else { continue };
        let hourly = model.schedules.year_values(y); // expansion itself was cross-checked separately
        if occupied.len() < hourly.len() {
            occupied.resize(hourly.len(), false);
        }
        for (o, v) in occupied.iter_mut().zip(&hourly) {
            *o |= *v != 0.0;
        }
    }
    occupied.iter().filter(|o| **o).count() as u32
}

#[test]
fn occupied_hours_do_not_depend_on_which_space_sorts_first() {
    let m1 = build(true);
    let m2 = build(false);
    assert_eq!(expected_hours(&m1), 100 * 9 + 365 * 3);
    assert_eq!(expected_hours(&m2), 1995);
    let h1 = EnergyProps::from(&m1).global.occ_spaces_hours_in_use;
    let h2 = EnergyProps::from(&m2).global.occ_spaces_hours_in_use;
    println!("A first: {} h, B first: {} h, expected 1995 h", h1, h2);
    assert_eq!(h2, 1995, "B (365 days) sorts first");
    assert_eq!(h1, 1995, "A (100 days) sorts first"); // FAILS: 1200
}
