// C17 demo 2 (borderline) -- goes to bemodel/tests/demo_2.rs
// Run: cd /tmp/seed-h17 && cargo test -p bemodel --offline -j 4 --test demo_2
//
// Clause: "... hours in which at least one habitable space inside the envelope has NON-ZERO
// occupancy".  The implementation uses |v| > 100 * f32::EPSILON (= 1.19e-5) instead of v != 0,
// so an occupancy fraction of 1e-5 (a perfectly representable, non-zero f32 that does
// contribute to the mean load) counts as "not occupied".

use bemodel::energy::EnergyProps;
use bemodel::Model;

#[test]
fn small_but_non_zero_occupancy_counts_as_occupied() {
    let json = std::fs::read_to_string("tests/data/cubo.json").unwrap();
    let mut model = Model::from_json(&json).unwrap();
    let before = EnergyProps::from(&model).global.occ_spaces_hours_in_use;
    assert_eq!(before, 8760);
    // Scale every daily profile so that the largest value is 1e-5: still non-zero wherever it was non-zero
    for d in model.schedules.day.iter_mut() {
        for v in d.values.iter_mut() {
            if *v != 0.0 {
                *v = 1.0e-5;
            }
        }
    }
    let space = &model.spaces[0];
    let loads = model.loads.iter().find(|l| Some(l.id) == space.loads).unwrap();
    let hourly = model.schedules.year_values(loads.people_schedule.unwrap());
    let expected = hourly.iter().filter(|v| **v != 0.0).count() as u32;
    assert_eq!(expected, 8760);
    let got = EnergyProps::from(&model).global.occ_spaces_hours_in_use;
    assert_eq!(got, expected); // FAILS: 0
}
