// C17 demo 3 (side finding: conversion refuses a valid calendar) -- goes to bemodel/tests/demo_3.rs
// Run: cd /tmp/seed-h17 && cargo test -p bemodel --offline -j 4 --test demo_3
//
// Clause: "HULC schedules given as end dates are converted into periods that partition the
// 365-day year exactly at those dates, weekly schedules into runs covering 7 days and daily
// ones into 24 values".
// hulc normalises the NAME of a schedule block ("  " -> " ", hulc/src/bdl/systems/schedules.rs:82,
// 131, 183) but not the names inside DAY-SCHEDULES / WEEK-SCHEDULES lists, so a project whose
// schedule names contain two consecutive spaces (the source comment says the HULC database has
// such names) cannot be converted at all: "Horario H17  DS no identificado".

use bemodel::Model;

#[test]
fn schedule_names_with_double_spaces_convert() {
    let blocks = concat!(
        "\"H17  DS\" = DAY-SCHEDULE-PD\n    TYPE  = \"FRACTION\"\n    VALUES  = ( 1)\n    ..\n",
        "  \"H17  WS\" = WEEK-SCHEDULE-PD\n    TYPE  = FRACTION\n    DAY-SCHEDULES = ( \"H17  DS\")\n    ..\n",
        "\"H17  YS\" = SCHEDULE-PD\n    TYPE   = \"FRACTION\"\n    MONTH = ( 6, 12)\n    DAY   = ( 30, 31)\n",
        "    WEEK-SCHEDULES = ( \"H17  WS\", \"H17  WS\")\n    ..\n"
    );
    let txt = std::fs::read_to_string("../hulc_tests/tests/cubo/cubo.ctehexml").unwrap();
    let marker = "\"SSHDV\" = DAY-SCHEDULE-PD";
    assert!(txt.contains(marker));
    let txt = txt.replacen(marker, &format!("{}\n{}", blocks, marker), 1);
    let data = hulc::ctehexml::parse_with_catalog(&txt).unwrap();
    let model = Model::try_from(&data).expect("conversion of a valid calendar"); // FAILS here
    let y = model.schedules.year.iter().find(|y| y.name.starts_with("H17")).unwrap();
    assert_eq!(y.values.iter().map(|v| v.1).collect::<Vec<_>>(), vec![181, 184]);
    assert_eq!(model.schedules.year_values(y.id), vec![1.0; 8760]);
}
