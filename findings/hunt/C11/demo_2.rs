//! Finding 2 (C11, clause "the parser and the model classify every tilt in [0,360] identically"):
//! the conversion rounds the wall tilt to two decimals (bemodel/src/convert/from_ctehexml.rs:268,
//! `tilt: fround2(wall.tilt)`), so for tilts within 0.005 degrees of a class threshold the parser
//! (hulc::bdl::Wall::position, on the tilt as read) and the model (Tilt::from, on the rounded tilt)
//! put the SAME element in different classes (wall vs roof, wall vs floor). HULC writes tilts with
//! 5 decimals (e.g. `TILT = 11.30993` in this very project), so such values are ordinary input.
//!
//! Goes to: hulc_tests/tests/demo_2.rs
//! Run:     cd /tmp/seed-h11 && cargo test -p hulc_tests --offline -j 4 --test demo_2
use std::convert::TryFrom;

#[test]
fn parser_and_model_disagree_near_thresholds() {
    let src = std::fs::read_to_string("tests/casoC/casoc.ctehexml").unwrap();
    assert!(src.contains("TILT          =       11.30993"));
    let model0 = bemodel::Model::try_from(
        &hulc::ctehexml::parse_with_catalog_from_path("tests/casoC/casoc.ctehexml").unwrap(),
    )
    .unwrap();
    let a_ref0 = model0.energy_indicators().area_ref;

    let mut failures = vec![];
    for tilt in ["60.004", "119.996", "239.996", "299.996"] {
        // Same project, only the tilt of roof P04_E01_CUB001 (first occurrence) is edited
        let edited = src.replacen("TILT          =       11.30993", &format!("TILT          = {}", tilt), 1);
        let dir = std::env::temp_dir().join(format!("h11_demo2_{}", tilt));
        std::fs::create_dir_all(&dir).unwrap();
        let path = dir.join("casoc.ctehexml");
        std::fs::write(&path, edited).unwrap();

        let data = hulc::ctehexml::parse_with_catalog_from_path(&path).unwrap();
        let model = bemodel::Model::try_from(&data).unwrap();
        let pw = data.bdldata.get_wall("P04_E01_CUB001").unwrap();
        let mw = model.get_wall_by_name("P04_E01_CUB001").unwrap();
        let parser_class = format!("{:?}", pw.position());
        let model_class = format!("{:?}", bemodel::Tilt::from(mw));
        let a_ref = model.energy_indicators().area_ref;
        println!(
            "TILT = {}: parser tilt {} -> {}, model tilt {} -> {}; a_ref {} (unedited project: {})",
            tilt, pw.tilt, parser_class, mw.geometry.tilt, model_class, a_ref, a_ref0
        );
        if parser_class != model_class {
            failures.push(format!("tilt {}: parser {} / model {}", tilt, parser_class, model_class));
        }
        std::fs::remove_dir_all(&dir).ok();
    }
    assert!(failures.is_empty(), "parser and model classes differ: {:?}", failures);
}
