//! Finding 4 (C11, clause "scaling all lengths by s scales ... volumes by s^3"), low severity:
//! WallCons::thickness() rounds the construction thickness to millimetres (fround3), and
//! Space::height_net subtracts that rounded value, so the NET volumes (vol_env_net,
//! vol_env_inh_net, and with them n50 and the building ventilation rate) do not scale with s^3:
//! the error is up to 0.0005 m x floor area, far above the two decimals the results are given with.
//! a_ref, vol_env_gross and compactness do scale correctly.
//!
//! Goes to: bemodel/tests/demo_4.rs
//! Run:     cd /tmp/seed-h11 && cargo test -p bemodel --offline -j 4 --test demo_4
use bemodel::Model;

/// Scales every length of the model by s (polygons, positions, heights, levels, window sizes and
/// layer thicknesses)
fn scale(m: &Model, s: f32) -> Model {
    let mut m = m.clone();
    for sp in &mut m.spaces {
        sp.height *= s;
        sp.z *= s;
    }
    for w in &mut m.walls {
        w.geometry.polygon.iter_mut().for_each(|p| *p *= s);
        if let Some(p) = &mut w.geometry.position {
            *p *= s;
        }
    }
    for w in &mut m.shades {
        w.geometry.polygon.iter_mut().for_each(|p| *p *= s);
        if let Some(p) = &mut w.geometry.position {
            *p *= s;
        }
    }
    for w in &mut m.windows {
        w.geometry.width *= s;
        w.geometry.height *= s;
        w.geometry.setback *= s;
        if let Some(p) = &mut w.geometry.position {
            *p *= s;
        }
    }
    for c in &mut m.cons.wallcons {
        c.layers.iter_mut().for_each(|l| l.e *= s);
    }
    m
}

#[test]
fn net_volume_does_not_scale_with_s3() {
    let mut bad = vec![];
    for f in ["e4h_medianeras.json", "caso_a.json", "cubo_gt_caldera_radiadores.json"] {
        let m = Model::from_json(&std::fs::read_to_string(format!("tests/data/{}", f)).unwrap()).unwrap();
        let g0 = m.energy_indicators().props.global;
        for s in [0.25f32, 0.5, 0.7, 1.3, 3.3] {
            let g1 = scale(&m, s).energy_indicators().props.global;
            let (s1, s2, s3) = (s as f64, (s as f64).powi(2), (s as f64).powi(3));
            for (name, got, exp, k) in [
                ("a_ref", g1.a_ref, g0.a_ref as f64 * s2, s2),
                ("vol_env_gross", g1.vol_env_gross, g0.vol_env_gross as f64 * s3, s3),
                ("compactness", g1.compactness, g0.compactness as f64 * s1, s1),
                ("vol_env_net", g1.vol_env_net, g0.vol_env_net as f64 * s3, s3),
                ("vol_env_inh_net", g1.vol_env_inh_net, g0.vol_env_inh_net as f64 * s3, s3),
            ] {
                // both values are rounded to 2 decimals (+ f32 noise: 3e-6 relative)
                let tol = 0.005 * (1.0 + k) + 3e-6 * exp.abs() + 1e-4;
                if (got as f64 - exp).abs() > tol {
                    bad.push(format!("{} s={} {}: got {} expected {:.3} (diff {:+.3}, tol {:.3})", f, s, name, got, exp, got as f64 - exp, tol));
                }
            }
        }
    }
    bad.iter().for_each(|b| println!("{}", b));
    assert!(bad.is_empty(), "{} scaled results off by more than two decimals", bad.len());
}
