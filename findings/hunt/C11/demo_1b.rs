//! Finding 1, reproduced on a REAL project (hulc_tests/tests/casoC): space P04_E02 (inside the
//! thermal envelope, 50 m2 x 3 m) only has its floor declared from below (P03_E01_FI001, the
//! ceiling of P03_E01, TILT 0, NEXT-TO P04_E02). The model gives it floor area 0, so 150 m3 are
//! missing from the envelope volume and compactness is 1.58 instead of 1.76 (1.76 is the value
//! HULC itself reports, see the comment in hulc_tests/tests/test.rs: "HULC 1.76").
//!
//! Goes to: hulc_tests/tests/demo_1b.rs
//! Run:     cd /tmp/seed-h11 && cargo test -p hulc_tests --offline -j 4 --test demo_1b
use hulc2model::collect_hulc_data;

#[test]
fn caso_c_space_with_floor_declared_from_below() {
    let model = collect_hulc_data("tests/casoC", false, false).unwrap();
    let path = hulc::ctehexml::find_ctehexml("tests/casoC").unwrap().unwrap();
    let data = hulc::ctehexml::parse_with_catalog_from_path(path).unwrap();

    // Independent floor areas: the polygon of each SPACE in the HULC project
    let mut vol_gross = 0.0f64;
    let mut worst = (String::new(), 0.0f32, 0.0f32);
    for s in &data.bdldata.spaces {
        let ms = model.get_space_by_name(&s.name).unwrap();
        let (a_poly, a_model) = (s.polygon.area(), ms.area(&model.walls));
        println!("{:8} inside={} floor polygon {:7.2} m2, model floor area {:7.2} m2", s.name, s.insidete, a_poly, a_model);
        if s.insidete {
            vol_gross += a_poly as f64 * ms.height as f64 * ms.multiplier as f64;
        }
        if (a_poly - a_model).abs() > (worst.1 - worst.2).abs() {
            worst = (s.name.clone(), a_poly, a_model);
        }
    }
    let ind = model.energy_indicators();
    // exposed area, independently: envelope walls to air or ground (all spaces are inside here)
    let exposed: f64 = model
        .walls
        .iter()
        .filter(|w| matches!(w.bounds, bemodel::BoundaryType::EXTERIOR | bemodel::BoundaryType::GROUND))
        .filter(|w| model.get_space(w.space).unwrap().inside_tenv)
        .map(|w| w.area() as f64)
        .sum();
    println!(
        "vol_env_gross: expected {:.2}, got {}; compactness: expected {:.3} (HULC: 1.76), got {}",
        vol_gross, ind.vol_env_gross, vol_gross / exposed, ind.compactness
    );
    assert!((worst.1 - worst.2).abs() < 0.05, "space {}: floor polygon {} m2 but model floor area {} m2", worst.0, worst.1, worst.2);
    assert!((ind.vol_env_gross as f64 - vol_gross).abs() < 0.5);
    assert!((ind.compactness as f64 - vol_gross / exposed).abs() < 0.01);
}
