//! Finding 3 (C11, clause "net volumes are floor area times net height"):
//! the net height of a space is taken from the FIRST ceiling found in `model.walls`, so the net
//! volume of the envelope (and n50, and the reported building ventilation rate) depends on the
//! order in which the walls are listed, when a space is covered by ceilings of different thickness.
//!
//! Goes to: bemodel/tests/demo_3.rs
//! Run:     cd /tmp/seed-h11 && cargo test -p bemodel --offline -j 4 --test demo_3
use bemodel::{Model, SpaceType, Tilt};

/// Independent expectation: a space's net volume is its floor area times its clear height; with
/// several ceilings the clear height is the area-weighted mean of (gross height - ceiling thickness)
/// (what the TODO in Space::height_net itself asks for). It does not depend on the order of `walls`.
fn expected_vol_env_net(m: &Model) -> f64 {
    let thick = |cons| -> f64 {
        m.cons
            .get_wallcons(cons)
            .map_or(0.0, |c| c.layers.iter().map(|l| l.e as f64).sum())
    };
    let mut v = 0.0;
    for s in m.spaces.iter().filter(|s| s.inside_tenv) {
        let floor: f64 = m
            .walls
            .iter()
            .filter(|w| w.space == s.id && Tilt::from(*w) == Tilt::BOTTOM)
            .map(|w| w.area() as f64)
            .sum();
        let (mut ca, mut cat) = (0.0, 0.0);
        for w in &m.walls {
            let is_ceiling = (w.space == s.id && Tilt::from(w) == Tilt::TOP)
                || (w.next_to == Some(s.id) && Tilt::from(w) == Tilt::BOTTOM);
            if is_ceiling {
                ca += w.area() as f64;
                cat += w.area() as f64 * thick(w.cons);
            }
        }
        let t = if ca > 0.0 { cat / ca } else { 0.0 };
        v += floor * (s.height as f64 - t) * s.multiplier as f64;
    }
    v
}

#[test]
fn net_volume_depends_on_wall_order() {
    let json = std::fs::read_to_string("tests/data/caso_a.json").unwrap();
    let m1 = Model::from_json(&json).unwrap();
    // Same building, walls listed in the opposite order
    let mut m2 = m1.clone();
    m2.walls.reverse();

    let (i1, i2) = (m1.energy_indicators(), m2.energy_indicators());
    let exp = expected_vol_env_net(&m1);
    assert!((exp - expected_vol_env_net(&m2)).abs() < 1e-6);
    println!(
        "vol_env_net: listed order {} / reversed order {} / expected (area weighted) {:.2}",
        i1.vol_env_net, i2.vol_env_net, exp
    );
    println!(
        "n50_ref: {} / {}; global_ventilation_rate: {} / {}",
        i1.n50_data.n50_ref,
        i2.n50_data.n50_ref,
        i1.props.global.global_ventilation_rate,
        i2.props.global.global_ventilation_rate
    );
    // habitable spaces only, to show that the reported ventilation rate moves too
    assert!(m1.spaces.iter().any(|s| s.kind != SpaceType::UNINHABITED));
    // 1. order invariance
    assert!(
        (i1.vol_env_net - i2.vol_env_net).abs() <= 0.01,
        "vol_env_net changes with the order of the walls: {} vs {}",
        i1.vol_env_net,
        i2.vol_env_net
    );
    // 2. value
    assert!((i1.vol_env_net as f64 - exp).abs() <= 0.01);
}
