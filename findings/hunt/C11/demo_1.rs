//! Finding 1 (C11, clauses "reference area is the floor area of habitable spaces inside the
//! envelope", "gross and net volumes are floor area times gross and net height", compactness):
//! Space::area only counts the BOTTOM walls that are *owned* by the space. When the horizontal
//! partition between two storeys is declared from the lower side (as the ceiling of the lower
//! space: tilt 0, space = lower, next_to = upper) the upper space gets floor area 0, so it
//! disappears from a_ref, vol_env_gross/net, compactness and the building ventilation rate.
//! Space::height_net (same file) does honour partitions declared from either side.
//!
//! Goes to: bemodel/tests/demo_1.rs
//! Run:     cd /tmp/seed-h11 && cargo test -p bemodel --offline -j 4 --test demo_1
use bemodel::{
    point, BoundaryType, ConsDb, Layer, MatProps, Material, Meta, Model, Point2, Space, Uuid, Wall,
    WallCons, WallGeom,
};

fn rect(w: f32, h: f32) -> Vec<Point2> {
    vec![point![0.0, 0.0], point![w, 0.0], point![w, h], point![0.0, h]]
}

fn wall(n: u128, space: Uuid, next_to: Option<Uuid>, bounds: BoundaryType, tilt: f32, azimuth: f32, polygon: Vec<Point2>, cons: Uuid) -> Wall {
    Wall {
        id: Uuid::from_u128(0x2000 + n),
        name: format!("W{}", n),
        bounds,
        cons,
        space,
        next_to,
        geometry: WallGeom { tilt, azimuth, position: Some(point![0.0, 0.0, 0.0]), polygon },
    }
}

/// Two storeys of 10 m x 10 m x 3 m, both conditioned and inside the envelope.
/// `from_below`: the intermediate slab is declared as the ceiling of the lower space
/// (otherwise as the floor of the upper space). Both describe the same building.
fn two_storeys(from_below: bool) -> Model {
    use BoundaryType::*;
    let mat = Material {
        id: Uuid::from_u128(1),
        name: "m".into(),
        properties: MatProps::Detailed { conductivity: 1.0, density: 1000.0, specific_heat: 1000.0, vapour_diff: None },
    };
    let cons = WallCons { id: Uuid::from_u128(2), name: "c".into(), layers: vec![Layer { material: mat.id, e: 0.3 }], absorptance: 0.6 };
    let (a, b) = (Uuid::from_u128(0x1001), Uuid::from_u128(0x1002));
    let space = |id, name: &str| Space { id, name: name.into(), height: 3.0, ..Default::default() };
    let mut walls = vec![wall(1, a, None, GROUND, 180.0, 0.0, rect(10.0, 10.0), cons.id)];
    if from_below {
        walls.push(wall(2, a, Some(b), INTERIOR, 0.0, 0.0, rect(10.0, 10.0), cons.id));
    } else {
        walls.push(wall(2, b, Some(a), INTERIOR, 180.0, 0.0, rect(10.0, 10.0), cons.id));
    }
    walls.push(wall(3, b, None, EXTERIOR, 0.0, 0.0, rect(10.0, 10.0), cons.id));
    let mut n = 10;
    for s in [a, b] {
        for az in [0.0, 90.0, 180.0, -90.0] {
            walls.push(wall(n, s, None, EXTERIOR, 90.0, az, rect(10.0, 3.0), cons.id));
            n += 1;
        }
    }
    Model {
        meta: Meta { global_ventilation_l_s: Some(50.0), ..Default::default() },
        spaces: vec![space(a, "lower"), space(b, "upper")],
        walls,
        cons: ConsDb { wallcons: vec![cons], materials: vec![mat], ..Default::default() },
        ..Default::default()
    }
}

#[test]
fn floor_declared_from_below() {
    // Expected values straight from the statement:
    // two habitable inside spaces of 100 m2 -> A_ref = 200 m2; V = 2 x 100 x 3 = 600 m3
    // net height = 3 - 0.3 -> V_net = 540 m3
    // exposed area = ground slab 100 + roof 100 + 8 walls x 30 = 440 m2 -> compactness = 600 / 440
    // ventilation rate = 3.6 x 50 l/s / 540 m3
    for from_below in [false, true] {
        let m = two_storeys(from_below);
        let ind = m.energy_indicators();
        let g = &ind.props.global;
        println!(
            "slab declared from {}: a_ref={} vol_gross={} vol_net={} compactness={} n_v,g={} (used in U: {})",
            if from_below { "below" } else { "above" },
            g.a_ref, g.vol_env_gross, g.vol_env_net, g.compactness, g.global_ventilation_rate,
            m.global_ventilation_rate()
        );
    }
    let m = two_storeys(true);
    let ind = m.energy_indicators();
    let g = &ind.props.global;
    assert!((g.a_ref - 200.0).abs() <= 0.01, "a_ref = {} (expected 200)", g.a_ref);
    assert!((g.vol_env_gross - 600.0).abs() <= 0.01, "vol_env_gross = {} (expected 600)", g.vol_env_gross);
    assert!((g.vol_env_net - 540.0).abs() <= 0.01, "vol_env_net = {} (expected 540)", g.vol_env_net);
    assert!((g.compactness - 600.0 / 440.0).abs() <= 0.01, "compactness = {} (expected 1.36)", g.compactness);
    assert!((g.global_ventilation_rate - 3.6 * 50.0 / 540.0).abs() <= 0.001);
}
