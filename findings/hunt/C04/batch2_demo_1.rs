// C04 demo 1 -- non-finite f32 values are written as JSON `null`: the text is not loadable (required
// fields) or loads back as a different value (Option<f32> fields).
//
// Clause violated:
//   "Serialising any model and loading it back yields a model equal in every field (optional ...
//    fields included), and serialising that again yields the identical text"
//   (and, for test c, idempotence/stability of load -> serialise -> load).
//
// Exact inputs (base model: bemodel/tests/data/cubo.json, everything else untouched):
//   a) spaces[0].height = f32::INFINITY                 (required f32 field)
//   b) spaces[0].n_v    = Some(f32::INFINITY)           (Option<f32> field)
//      meta.n50_test_ach = Some(f32::NAN)
//   c) model FILE whose "height" of spaces[0] is the JSON number 1e39 (a valid JSON number larger than
//      f32::MAX = 3.4028235e38). It loads without error.
//
// Expected (from the statement): as_json() either fails, or from_json(as_json(m)) succeeds and every
//   field equals the original (height == inf, n_v == Some(inf), n50_test_ach is Some(NaN)).
// Actual:
//   a) as_json() returns Ok, with `"height": null`; from_json() of that text fails with
//      "invalid type: null, expected f32 at line .. column ..".
//   b) as_json() returns Ok, with `"n_v": null`, `"n50_test_ach": null`; from_json() succeeds but
//      n_v == None and n50_test_ach == None (silent change of an optional field); the second
//      serialisation then drops both keys, so the text is not identical either.
//   c) from_json() accepts 1e39 and stores height = inf; as_json() of the loaded model writes
//      `"height": null`, which from_json() rejects: a file that loads does not survive load -> save -> load.
//
// Cause: bemodel/src/types/model.rs:64-67 (Model::as_json) hands the model to
//   serde_json::to_string_pretty, whose serializer writes every non-finite f32/f64 as `null` and reports no
//   error; none of the f32 fields (space.rs:39, 48-52; meta.rs:28-39; opaques.rs:157-166; window.rs:166-172;
//   constructions.rs:109, 136, 152-161, 209-226, 251-253, 277-279; overrides.rs:32-43; schedules.rs:150;
//   model.rs:126-128 ...) guards against it. On the reading side model.rs:70-73 (Model::from_json) relies on
//   serde's `f64 as f32` cast, which turns out-of-range numbers into +-inf instead of rejecting them.
//
// Minimal fix: make the format total or make it fail loudly: in Model::as_json reject non-finite values
//   (e.g. a `serialize_with` helper for f32 / Option<f32> / Vec<f32> that returns
//   `Err(S::Error::custom("non-finite value"))`, or a `Model::check_finite()` walk called first), and in
//   Model::from_json reject numbers that do not fit a finite f32 (`deserialize_with` helper checking
//   `is_finite()`), so that as_json() never produces a text that from_json() cannot read back identically.
//
// Goes to: bemodel/tests/demo_1.rs
// Run:     cd /tmp/seed-h04 && cp SEED/demo_1.rs bemodel/tests/demo_1.rs && cargo test -p bemodel --offline -j 4 --test demo_1
// (3 tests, all fail on the unmodified code)

use bemodel::Model;

fn base() -> Model {
    Model::from_json(include_str!("./data/cubo.json")).unwrap()
}

/// a) required f32 field: the written text cannot be loaded back
#[test]
fn c04_infinite_required_field_is_not_loadable() {
    let mut m = base();
    m.spaces[0].height = f32::INFINITY;
    // The statement allows only two outcomes: refuse to serialise, or round-trip exactly
    let json = match m.as_json() {
        Err(_) => return,
        Ok(json) => json,
    };
    let back = Model::from_json(&json);
    assert!(
        back.is_ok(),
        "as_json() succeeded but its output does not load: {}",
        back.err().unwrap()
    );
    assert_eq!(back.unwrap().spaces[0].height, f32::INFINITY);
}

/// b) optional f32 fields: the text loads, but Some(x) has silently become None
#[test]
fn c04_nonfinite_optional_field_becomes_none() {
    let mut m = base();
    m.spaces[0].n_v = Some(f32::INFINITY);
    m.meta.n50_test_ach = Some(f32::NAN);
    let json = match m.as_json() {
        Err(_) => return,
        Ok(json) => json,
    };
    let back = Model::from_json(&json).expect("loads");
    // independent expectation: the same Option, the same value
    assert_eq!(
        back.spaces[0].n_v,
        Some(f32::INFINITY),
        "spaces[0].n_v changed in the round trip"
    );
    assert!(
        matches!(back.meta.n50_test_ach, Some(v) if v.is_nan()),
        "meta.n50_test_ach changed in the round trip: {:?}",
        back.meta.n50_test_ach
    );
    assert_eq!(back.as_json().unwrap(), json, "second serialisation differs");
}

/// c) a model file that loads fine does not survive load -> serialise -> load
#[test]
fn c04_loadable_file_with_big_number_is_not_stable() {
    let mut v: serde_json::Value = serde_json::from_str(include_str!("./data/cubo.json")).unwrap();
    v["spaces"][0]["height"] = serde_json::json!(1e39);
    let text = v.to_string();
    // Either the file is rejected ...
    let m = match Model::from_json(&text) {
        Err(_) => return,
        Ok(m) => m,
    };
    // ... or what was loaded must serialise to something that loads back to the same model and text
    let j1 = m.as_json().unwrap();
    let m2 = Model::from_json(&j1);
    assert!(
        m2.is_ok(),
        "file loaded (height = {}), but its re-serialisation does not load: {}",
        m.spaces[0].height,
        m2.err().unwrap()
    );
    assert_eq!(m2.unwrap().as_json().unwrap(), j1);
}
