// Independent oracle for property C12 (remote obstruction factors), shared by the demo tests.
// Everything here is computed from the statement: own f64 geometry (no nalgebra transforms of the
// implementation, no BVH, no Polygon::normal), only the public July design-day table and the
// public `climate::radiation_for_surface` weights are taken from the code base.
#![allow(dead_code, unused_imports)]

use bemodel::climatedata::{ClimateZone, CLIMATEMETADATA, JULYRADDATA};
use bemodel::{point, BoundaryType, Model, Shade, Wall, WallGeom, WinGeom, Window};
use climate::{nday_from_md, radiation_for_surface, SolarRadiation};

type V3 = [f64; 3];

fn sub(a: V3, b: V3) -> V3 {
    [a[0] - b[0], a[1] - b[1], a[2] - b[2]]
}
fn add(a: V3, b: V3) -> V3 {
    [a[0] + b[0], a[1] + b[1], a[2] + b[2]]
}
fn mul(a: V3, k: f64) -> V3 {
    [a[0] * k, a[1] * k, a[2] * k]
}
fn dot(a: V3, b: V3) -> f64 {
    a[0] * b[0] + a[1] * b[1] + a[2] * b[2]
}
fn norm(a: V3) -> f64 {
    dot(a, a).sqrt()
}

/// Rz(az) * Rx(tilt) * v
fn rot(az_deg: f64, tilt_deg: f64, v: V3) -> V3 {
    let (st, ct) = tilt_deg.to_radians().sin_cos();
    let (sa, ca) = az_deg.to_radians().sin_cos();
    let x1 = v[0];
    let y1 = v[1] * ct - v[2] * st;
    let z1 = v[1] * st + v[2] * ct;
    [x1 * ca - y1 * sa, x1 * sa + y1 * ca, z1]
}

fn local_to_global(g: &WallGeom, p: V3) -> Option<V3> {
    let pos = g.position?;
    let r = rot(g.azimuth as f64, g.tilt as f64, p);
    Some(add([pos.x as f64, pos.y as f64, pos.z as f64], r))
}

fn geom_poly3(g: &WallGeom) -> Option<Vec<V3>> {
    if g.polygon.is_empty() {
        return None;
    }
    g.position?;
    Some(
        g.polygon
            .iter()
            .map(|p| local_to_global(g, [p.x as f64, p.y as f64, 0.0]).unwrap())
            .collect(),
    )
}

#[derive(Clone, Copy, PartialEq, Debug)]
enum Hit {
    No,
    Yes,
    Unsure,
}

/// Intersección semirrecta - polígono plano 3D
fn ray_hits(o: V3, d: V3, poly: &[V3]) -> Hit {
    let n = poly.len();
    if n < 3 {
        return Hit::No;
    }
    // Newell
    let mut nn = [0.0; 3];
    for i in 0..n {
        let a = poly[i];
        let b = poly[(i + 1) % n];
        nn[0] += (a[1] - b[1]) * (a[2] + b[2]);
        nn[1] += (a[2] - b[2]) * (a[0] + b[0]);
        nn[2] += (a[0] - b[0]) * (a[1] + b[1]);
    }
    let ln = norm(nn);
    if ln < 1e-9 {
        return Hit::No;
    }
    let nn = mul(nn, 1.0 / ln);
    let den = dot(nn, d);
    if den.abs() < 1e-9 {
        return Hit::No;
    }
    let t = dot(nn, sub(poly[0], o)) / den;
    if t < -1e-4 {
        return Hit::No;
    }
    let p = add(o, mul(d, t));
    // proyección
    let ax = if nn[0].abs() >= nn[1].abs() && nn[0].abs() >= nn[2].abs() {
        0
    } else if nn[1].abs() >= nn[2].abs() {
        1
    } else {
        2
    };
    let (u, v) = match ax {
        0 => (1, 2),
        1 => (0, 2),
        _ => (0, 1),
    };
    let px = p[u];
    let py = p[v];
    let mut inside = false;
    let mut mind = f64::INFINITY;
    for i in 0..n {
        let a = poly[i];
        let b = poly[(i + 1) % n];
        let (ax_, ay_, bx_, by_) = (a[u], a[v], b[u], b[v]);
        if (ay_ > py) != (by_ > py) {
            let xi = ax_ + (py - ay_) * (bx_ - ax_) / (by_ - ay_);
            if px < xi {
                inside = !inside;
            }
        }
        // distancia al segmento (en 3D)
        let ab = sub(b, a);
        let l2 = dot(ab, ab);
        let s = if l2 > 0.0 {
            (dot(sub(p, a), ab) / l2).clamp(0.0, 1.0)
        } else {
            0.0
        };
        let q = add(a, mul(ab, s));
        mind = mind.min(norm(sub(p, q)));
    }
    if mind < 2e-4 {
        return Hit::Unsure;
    }
    if !inside {
        return Hit::No;
    }
    if t < 1e-4 {
        return Hit::Unsure;
    }
    Hit::Yes
}

pub struct Expect {
    pub lo: f64,
    pub hi: f64,
    /// lo/hi si además se tolera el umbral 0.01 del test de cara posterior
    pub lo_bf: f64,
    pub hi_bf: f64,
    pub diffuse_only: f64,
}

fn sun_dir(az: f64, alt: f64) -> V3 {
    let (sa, ca) = az.to_radians().sin_cos();
    let (sl, cl) = alt.to_radians().sin_cos();
    [cl * sa, -cl * ca, sl]
}

/// Puntos de muestreo del hueco (independiente)
fn window_points(win: &Window, wall: &Wall) -> Vec<V3> {
    let wg = &win.geometry;
    let g = &wall.geometry;
    let pos = match wg.position {
        Some(p) => p,
        None => return vec![],
    };
    if g.position.is_none() || g.polygon.len() < 3 {
        return vec![];
    }
    let nx = ((wg.width / 20.0).round() as usize).min(10).max(5);
    let ny = ((wg.height / 20.0).round() as usize).min(10).max(5);
    let mut v = vec![];
    for j in 0..ny {
        for i in 0..nx {
            let x = pos.x as f64 + (i as f64 + 0.5) * wg.width as f64 / nx as f64;
            let y = pos.y as f64 + (j as f64 + 0.5) * wg.height as f64 / ny as f64;
            v.push(win_local_to_global(wall, x, y, -(wg.setback as f64)));
        }
    }
    v
}

/// Coordenadas de hueco (relativas al primer vértice y primer lado del polígono del opaco) a globales
fn win_local_to_global(wall: &Wall, x: f64, y: f64, z: f64) -> V3 {
    let g = &wall.geometry;
    let p0 = g.polygon[0];
    let p1 = g.polygon[1];
    let ex = [(p1.x - p0.x) as f64, (p1.y - p0.y) as f64];
    let l = (ex[0] * ex[0] + ex[1] * ex[1]).sqrt();
    let ex = [ex[0] / l, ex[1] / l];
    let ey = [-ex[1], ex[0]];
    let lx = p0.x as f64 + ex[0] * x + ey[0] * y;
    let ly = p0.y as f64 + ex[1] * x + ey[1] * y;
    local_to_global(g, [lx, ly, z]).unwrap()
}

fn reveal_polys(win: &Window, wall: &Wall) -> Vec<Vec<V3>> {
    let wg = &win.geometry;
    let pos = match wg.position {
        Some(p) => p,
        None => return vec![],
    };
    if wg.setback == 0.0 || wall.geometry.position.is_none() || wall.geometry.polygon.len() < 3 {
        return vec![];
    }
    let (x, y, w, h, s) = (
        pos.x as f64,
        pos.y as f64,
        wg.width as f64,
        wg.height as f64,
        wg.setback as f64,
    );
    let c = [(x, y), (x + w, y), (x + w, y + h), (x, y + h)];
    let mut out = vec![];
    for i in 0..4 {
        let a = c[i];
        let b = c[(i + 1) % 4];
        out.push(vec![
            win_local_to_global(wall, a.0, a.1, 0.0),
            win_local_to_global(wall, b.0, b.1, 0.0),
            win_local_to_global(wall, b.0, b.1, -s),
            win_local_to_global(wall, a.0, a.1, -s),
        ]);
    }
    out
}

pub fn expected(model: &Model, win: &Window) -> Option<Expect> {
    let wall = model.walls.iter().find(|w| w.id == win.wall)?;
    let zone = model.meta.climate;
    let latitude = CLIMATEMETADATA.lock().unwrap().get(&zone).unwrap().latitude;
    let rad = JULYRADDATA.lock().unwrap().get(&zone).unwrap().clone();

    let has_geom = wall.geometry.position.is_some() && win.geometry.position.is_some();
    let pts = if has_geom {
        window_points(win, wall)
    } else {
        vec![]
    };
    let mut occl: Vec<Vec<V3>> = vec![];
    for w in &model.walls {
        if w.id == wall.id {
            continue;
        }
        if w.bounds != BoundaryType::EXTERIOR && w.bounds != BoundaryType::ADIABATIC {
            continue;
        }
        if let Some(p) = geom_poly3(&w.geometry) {
            occl.push(p);
        }
    }
    for s in &model.shades {
        if let Some(p) = geom_poly3(&s.geometry) {
            occl.push(p);
        }
    }
    if has_geom {
        occl.extend(reveal_polys(win, wall));
    }
    let nw = rot(
        wall.geometry.azimuth as f64,
        wall.geometry.tilt as f64,
        [0.0, 0.0, 1.0],
    );

    let (mut slo, mut shi, mut slob, mut shib, mut sdif) = (0.0, 0.0, 0.0, 0.0, 0.0);
    let mut n = 0.0;
    for d in &rad {
        let nday = nday_from_md(d.month, d.day);
        let r = radiation_for_surface(
            nday,
            d.hour,
            SolarRadiation {
                dir: d.dir,
                dif: d.dif,
            },
            latitude,
            wall.geometry.tilt,
            wall.geometry.azimuth,
            0.2,
        );
        let (dir, dif) = (r.dir as f64, r.dif as f64);
        let s = sun_dir(d.azimuth as f64, d.altitude as f64);
        let cosi = dot(nw, s);
        let (flo, fhi);
        if pts.is_empty() {
            flo = 1.0;
            fhi = 1.0;
        } else if cosi <= 0.0 {
            flo = 0.0;
            fhi = 0.0;
        } else {
            let mut yes = 0;
            let mut unsure = 0;
            for p in &pts {
                let mut st = Hit::No;
                for o in &occl {
                    match ray_hits(*p, s, o) {
                        Hit::Yes => {
                            st = Hit::Yes;
                            break;
                        }
                        Hit::Unsure => st = Hit::Unsure,
                        Hit::No => {}
                    }
                }
                match st {
                    Hit::Yes => yes += 1,
                    Hit::Unsure => unsure += 1,
                    Hit::No => {}
                }
            }
            let np = pts.len() as f64;
            fhi = 1.0 - yes as f64 / np;
            flo = 1.0 - (yes + unsure) as f64 / np;
        }
        let (flob, fhib) = if !pts.is_empty() && cosi > 0.0 && cosi < 0.011 {
            (0.0, fhi)
        } else {
            (flo, fhi)
        };
        slo += (flo * dir + dif) / (dir + dif);
        shi += (fhi * dir + dif) / (dir + dif);
        slob += (flob * dir + dif) / (dir + dif);
        shib += (fhib * dir + dif) / (dir + dif);
        sdif += dif / (dir + dif);
        n += 1.0;
    }
    Some(Expect {
        lo: slo / n,
        hi: shi / n,
        lo_bf: slob / n,
        hi_bf: shib / n,
        diffuse_only: sdif / n,
    })
}

pub const ZONES: [ClimateZone; 32] = {
    use ClimateZone::*;
    [
        A1c, A2c, A3c, A4c, Alfa1c, Alfa2c, Alfa3c, Alfa4c, B1c, B2c, B3c, B4c, C1c, C2c, C3c,
        C4c, D1c, D2c, D3c, E1c, A3, A4, B3, B4, C1, C2, C3, C4, D1, D2, D3, E1,
    ]
};

/// Devuelve la lista de discrepancias (nombre, actual, lo, hi)
pub fn compare(model: &Model, label: &str, tol: f64, strict_bf: bool) -> Vec<String> {
    let map = model.compute_fshobst();
    let mut out = vec![];
    for win in &model.windows {
        let exp = match expected(model, win) {
            Some(e) => e,
            None => continue,
        };
        let act = match map.get(&win.id) {
            Some(a) => *a as f64,
            None => {
                out.push(format!("{label}: {} sin factor calculado", win.name));
                continue;
            }
        };
        let (lo, hi) = if strict_bf {
            (exp.lo, exp.hi)
        } else {
            (exp.lo_bf, exp.hi_bf)
        };
        if !(act >= 0.0 && act <= 1.0) {
            out.push(format!("{label}: {} fuera de [0,1]: {act}", win.name));
        }
        if act < lo - tol || act > hi + tol {
            out.push(format!(
                "{label}: {} ({:?}) actual {act:.3} esperado [{lo:.4}, {hi:.4}] (solo difusa {:.3})",
                win.name, model.meta.climate, exp.diffuse_only
            ));
        }
    }
    out
}

pub fn load(name: &str) -> Model {
    let s = std::fs::read_to_string(format!("tests/data/{name}.json")).unwrap();
    Model::from_json(&s).unwrap()
}

fn mk_wall(tilt: f32, az: f32, pos: [f32; 3], poly: Vec<[f32; 2]>, name: &str) -> Wall {
    let mut w = Wall::default();
    w.name = name.to_string();
    w.geometry = WallGeom {
        tilt,
        azimuth: az,
        position: Some(point![pos[0], pos[1], pos[2]]),
        polygon: poly.iter().map(|p| point![p[0], p[1]]).collect(),
    };
    w
}

fn mk_win(wall: &Wall, pos: [f32; 2], w: f32, h: f32, setback: f32, name: &str) -> Window {
    let mut win = Window::default();
    win.name = name.to_string();
    win.wall = wall.id;
    win.geometry = WinGeom {
        position: Some(point![pos[0], pos[1]]),
        width: w,
        height: h,
        setback,
    };
    win
}

fn empty_model(zone: ClimateZone) -> Model {
    let mut m = Model::default();
    m.meta.climate = zone;
    m
}

// ==========================================================================================
// demo_3: the back-face test of `sunlit_fraction` is `normal . sun < 0.01` instead of `<= 0`:
// hours in which the sun is up to 0.57 degrees IN FRONT of the window plane are treated as
// "sun behind the window" (sunlit fraction 0). The beam irradiance used as weight for that hour
// (climate::radiation_for_surface) is not negligible, so the factor of a window that nothing
// hides drops to 0.98 where the statement gives 1.00 (two-decimal mismatch of 0.02).
//
// Cause: bemodel/src/energy/radiation.rs:155  `normal().dot(ray_dir) < 0.01`.
// Observed: 0.98 where the statement gives 1.00 (D3c/A2c tilt 10 az 0; D3 tilt 155 az -180;
//        A3c tilt 77.5 az 156; Alfa4c tilt 101.5 az -158). Never below 0.97.
// Fix:   `<= 0.0` (or an epsilon of float-noise size such as 1e-6).
//
// Put this file in bemodel/tests/ and run:
//     cargo test -p bemodel --offline --test demo_3
// ==========================================================================================

fn check(zone: ClimateZone, tilt: f32, az: f32) -> Result<(), String> {
    let mut m = empty_model(zone);
    let wall = mk_wall(tilt, az, [0.0, 0.0, 0.0], vec![[0.0, 0.0], [6.0, 0.0], [6.0, 3.0], [0.0, 3.0]], "W");
    let win = mk_win(&wall, [2.0, 1.0], 1.5, 1.2, 0.0, "V");
    m.walls.push(wall);
    m.windows.push(win);
    let act = m.compute_fshobst()[&m.windows[0].id] as f64;
    let exp = expected(&m, &m.windows[0]).unwrap();

    // detail of the hours in which the sun is in front of the plane by less than 0.01 (cosine)
    let n = rot(az as f64, tilt as f64, [0.0, 0.0, 1.0]);
    let lat = CLIMATEMETADATA.lock().unwrap().get(&zone).unwrap().latitude;
    for d in JULYRADDATA.lock().unwrap().get(&zone).unwrap() {
        let c = dot(n, sun_dir(d.azimuth as f64, d.altitude as f64));
        if c > 0.0 && c < 0.01 {
            let r = radiation_for_surface(nday_from_md(d.month, d.day), d.hour, SolarRadiation { dir: d.dir, dif: d.dif }, lat, tilt, az, 0.2);
            println!(
                "  {zone:?} tilt {tilt} az {az} hour {}: normal.sun = {c:.5} (> 0, sun in front), beam {:.1} W/m2, diffuse {:.1} W/m2 -> hour term 1.0 by the statement, {:.3} in the code",
                d.hour, r.dir, r.dif, r.dif / (r.dir + r.dif)
            );
        }
    }
    println!("{zone:?} tilt {tilt} az {az}: actual {act:.2} expected {:.4}", exp.hi);
    if (act - exp.hi).abs() > 0.0075 {
        return Err(format!("{zone:?} tilt {tilt} az {az}: actual {act:.2}, expected {:.2}", exp.hi));
    }
    Ok(())
}

#[test]
fn grazing_sun_in_front_is_counted_as_behind() {
    let mut errs = vec![];
    // almost flat roof window facing south, Canary Islands zones
    errs.extend(check(ClimateZone::D3c, 10.0, 0.0).err());
    errs.extend(check(ClimateZone::A2c, 10.0, 0.0).err());
    // ceiling-like surface facing north, peninsular zones
    errs.extend(check(ClimateZone::D3, 155.0, -180.0).err());
    // nearly vertical facade
    errs.extend(check(ClimateZone::A3c, 77.5, 156.0).err());
    errs.extend(check(ClimateZone::Alfa4c, 101.5, -158.0).err());
    assert!(errs.is_empty(), "{errs:#?}");
}
