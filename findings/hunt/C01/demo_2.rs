// C01 demo 2 -- with --use-extra, a KyGananciasSolares.txt window line whose unobstructed radiation is 0
//               makes the tool print (exit 0) a document that loads as a DIFFERENT model.
//
// Clause violated:
//   "running the export tool on it (with or without the option that reads HULC's result files) exits with
//    status 0 and writes ... one JSON document ...; that document loads as a model equal to the one the
//    library conversion yields for the same directory".
//
// Exact input: the shipped project hulc_tests/tests/cubo (cubo.ctehexml, NewBDL_O.tbl unchanged) with
//   line 25 of KyGananciasSolares.txt changed from
//     "P01_E01_PE001_V"; 180.000000; 2.000000; 88472.460938; 52435.878906; 48153.050781; 48153.050781; 43337.710938
//   to
//     "P01_E01_PE001_V"; 180.000000; 2.000000; 0.000000; 52435.878906; 48153.050781; 48153.050781; 43337.710938
//   (4th column, "htot", radiation on the glass plane without obstacles, is 0), tool run with --use-extra.
//
// Expected: the document printed by `hulc2model --use-extra DIR` loads as a model equal to
//           `hulc2model::collect_hulc_data(DIR, true, true)`.
// Actual:   the library model has overrides.windows[<id of P01_E01_PE001_V>].f_shobst == Some(inf);
//           the tool exits 0 and prints `"f_shobst": null` for that window, which `Model::from_json`
//           loads as `None`: the override present in the converted model is lost in the document.
//
// Cause: hulc/src/kyg.rs:223 `let fshobst = h3 / htot;` divides without checking htot (x/0 = inf, 0/0 = NaN);
//   hulc2model/src/lib.rs:139-154 stores `fround2(kw.fshobst)` as override when
//   `|computed - override| > 0.01`, which is true for inf, and serde_json writes inf as `null`.
//
// Related (same file, same mechanism, found by the sweep of KyGananciasSolares.txt): a U value that is not finite
//   in a `Muro;` line (`Muro;P01_E01_PE001;28.00;1e39;1.00;...`, also `inf`) ends as `"u": null` in the `extra`
//   list and `"u_value": null` in overrides.walls; `extra[].u` is a plain f32, so that document does not load
//   at all ("invalid type: null, expected f32").
//
// Minimal fix: in kyg.rs skip the obstruction factor when `htot <= 0.0` (or when the quotient is not
//   finite), e.g. `if htot > 0.0 { qsolvalues.insert(name, (azimuth_n, h3 / htot)); }`, and/or in
//   fix_ecdata_from_extra ignore non finite `kw.fshobst` / `kw.u` values.
//
// Goes to: hulc2model/tests/demo_2.rs
// Run:     cd /tmp/seed-h01 && cargo test -p hulc2model --offline -j 4 --test demo_2

use std::path::Path;
use std::process::Command;

#[test]
fn kyg_window_without_unobstructed_radiation() {
    let src = Path::new(env!("CARGO_MANIFEST_DIR")).join("../hulc_tests/tests/cubo");
    let dir = std::env::temp_dir().join(format!("c01_demo2_{}", std::process::id()));
    let _ = std::fs::remove_dir_all(&dir);
    std::fs::create_dir_all(&dir).unwrap();
    for f in ["cubo.ctehexml", "NewBDL_O.tbl"] {
        std::fs::copy(src.join(f), dir.join(f)).unwrap();
    }
    // KyGananciasSolares.txt is latin1: edit it as bytes
    let kyg = std::fs::read(src.join("KyGananciasSolares.txt")).unwrap();
    let from = b"\"P01_E01_PE001_V\"; 180.000000; 2.000000; 88472.460938;";
    let to = b"\"P01_E01_PE001_V\"; 180.000000; 2.000000; 0.000000;";
    let pos = kyg.windows(from.len()).position(|w| w == from).expect("line to edit not found");
    let mut edited = kyg[..pos].to_vec();
    edited.extend_from_slice(to);
    edited.extend_from_slice(&kyg[pos + from.len()..]);
    std::fs::write(dir.join("KyGananciasSolares.txt"), edited).unwrap();

    let dirs = dir.to_str().unwrap();
    let libmodel = hulc2model::collect_hulc_data(dirs, true, true).expect("the library converts the directory");
    let out = Command::new(env!("CARGO_BIN_EXE_hulc2model")).arg("--use-extra").arg(dirs).output().unwrap();
    let _ = std::fs::remove_dir_all(&dir);
    let stdout = String::from_utf8(out.stdout).unwrap();
    assert!(out.status.success());

    let loaded = bemodel::Model::from_json(&stdout).expect("the printed document loads");
    assert_eq!(
        format!("{:?}", loaded.overrides),
        format!("{:?}", libmodel.overrides),
        "the document printed by `hulc2model --use-extra` loads as a model different from collect_hulc_data(dir, true, true)"
    );
}
