// C01 demo 1 -- the export tool exits 0 and prints a JSON document that does NOT load as a model
//               (or loads as a different model) when a number of the project is not finite.
//
// Clause violated:
//   "running the export tool on it ... exits with status 0 and writes to standard output exactly one
//    JSON document ...; that document loads as a model equal to the one the library conversion yields".
//
// Exact inputs (both are the shipped project hulc_tests/tests/cubo with ONE token replaced in cubo.ctehexml):
//   a) line 444  `    THICKNESS = (           0.12,           0.03,           0.05,           0.02)`
//                 -> `    THICKNESS = (           1e39,           0.03,           0.05,           0.02)`
//      (a LAYERS thickness out of the f32 range; `nan`, `inf`, `infinity` or any |x| >= 3.4e38 written in
//      ANY numeric attribute of the BDL text -- polygon vertices, ABSORPTANCE, GLASS-CONDUCTANCE, FRAME-ABS,
//      INF-COEF, D-AISLAMIENTO-PERIMETRAL ... -- behaves the same; the mutation sweep found 6516 such mutants
//      in cubo + cubo_gt_furnace alone)
//   b) line 18   `<valorImpulsionAire>50.00</valorImpulsionAire>` -> `<valorImpulsionAire>nan</valorImpulsionAire>`
//
// Expected: either the tool refuses the project (non-zero status, nothing on stdout) like the library should,
//           or the JSON it prints loads (`bemodel::Model::from_json`) as a model equal to
//           `hulc2model::collect_hulc_data(dir, false, false)`.
// Actual:   the library conversion returns Ok, the tool exits 0, and
//   a) stdout holds `"e": null` in the layer  -> `Model::from_json` fails with
//      "invalid type: null, expected f32 at line ... column ..."
//   b) stdout holds `"global_ventilation_l_s": null` -> loads, but as `None` whereas the library model
//      has `Some(NaN)`; re-serialising the loaded model does not give the document back.
//
// Cause: Rust's `str::parse::<f32>()` accepts "nan", "inf", "infinity" and silently turns out-of-range
//   decimals into +-inf. The readers use it without a finiteness check:
//     hulc/src/bdl/common.rs:29          (AttrMap::insert, every BDL attribute)
//     hulc/src/bdl/common.rs:201         (extract_f32vec: THICKNESS lists, schedule values)
//     hulc/src/bdl/envelope/geom.rs:165,184 (polygon / vertex coordinates)
//     hulc/src/utils/xml.rs:25,32        (get_tag_as_f32 / get_tag_as_f32_or_default: DatosGenerales)
//   and serde_json writes every non finite float as `null` without error, so
//   `Model::as_json` (bemodel/src/types/model.rs:64-67) succeeds and cli_main prints it
//   (hulc2model/src/bin/cli/mod.rs:93-96). `Model::from_json` then rejects `null` for an `f32` field.
//
// Minimal fix: reject non finite values where numbers are read (one helper `parse_finite_f32` used in the
//   four places above returning Err for !is_finite()), or, as a last line of defence, make
//   `Model::as_json` fail when the serialised model contains a non finite float (cli_main already exits 1
//   in that branch).
//
// Goes to: hulc2model/tests/demo_1.rs
// Run:     cd /tmp/seed-h01 && cargo test -p hulc2model --offline -j 4 --test demo_1

use std::path::{Path, PathBuf};
use std::process::Command;

fn project_with(tag: &str, from: &str, to: &str) -> PathBuf {
    let src = Path::new(env!("CARGO_MANIFEST_DIR")).join("../hulc_tests/tests/cubo/cubo.ctehexml");
    let dir = std::env::temp_dir().join(format!("c01_demo1_{}_{}", tag, std::process::id()));
    let _ = std::fs::remove_dir_all(&dir);
    std::fs::create_dir_all(&dir).unwrap();
    let text = std::fs::read_to_string(src).unwrap();
    assert_eq!(text.matches(from).count() >= 1, true, "token to replace not found");
    std::fs::write(dir.join("cubo.ctehexml"), text.replacen(from, to, 1)).unwrap();
    dir
}

fn check(dir: &Path) {
    let dirs = dir.to_str().unwrap();
    // The library converts the directory...
    let libmodel = hulc2model::collect_hulc_data(dirs, false, false);
    let out = Command::new(env!("CARGO_BIN_EXE_hulc2model")).arg(dirs).output().unwrap();
    let stdout = String::from_utf8(out.stdout).unwrap();
    let _ = std::fs::remove_dir_all(dir);
    let libmodel = match libmodel {
        Ok(m) => m,
        Err(_) => {
            // Acceptable alternative: nobody converts it
            assert!(!out.status.success() && stdout.is_empty());
            return;
        }
    };
    assert!(out.status.success(), "the tool must exit 0 for a directory the library converts");
    // ...and the document the tool printed must load as that same model
    let loaded = bemodel::Model::from_json(&stdout)
        .unwrap_or_else(|e| panic!("the JSON printed by hulc2model (exit status 0) does not load as a model: {}", e));
    assert_eq!(
        loaded.as_json().unwrap(),
        libmodel.as_json().unwrap(),
        "the document printed by hulc2model loads as a model different from the library conversion"
    );
    assert_eq!(
        format!("{:?}", loaded.meta),
        format!("{:?}", libmodel.meta),
        "the document printed by hulc2model loads as a model different from the library conversion"
    );
}

#[test]
fn out_of_range_thickness_is_printed_as_null_and_does_not_load() {
    check(&project_with(
        "a",
        "    THICKNESS = (           0.12,           0.03,           0.05,           0.02)",
        "    THICKNESS = (           1e39,           0.03,           0.05,           0.02)",
    ));
}

#[test]
fn nan_ventilation_flow_is_printed_as_null_and_loads_as_another_model() {
    check(&project_with(
        "b",
        "<valorImpulsionAire>50.00</valorImpulsionAire>",
        "<valorImpulsionAire>nan</valorImpulsionAire>",
    ));
}
