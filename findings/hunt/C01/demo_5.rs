// C01 demo 5 -- an out-of-range MONTH (or DAY) in a year schedule makes the export tool (and thor) ABORT
//               trying to allocate 64 GiB, after the model itself has been converted without error.
//
// Clause violated:
//   "For every HULC project directory the library can convert, running the export tool on it ... exits with
//    status 0 and writes to standard output exactly one JSON document" / crash (abort or, on a machine with
//   enough memory, a hang of minutes while tens of GB are filled).
//   `bemodel::Model::try_from(&hulc::ctehexml::parse_with_catalog_from_path(file)?)` returns Ok for this
//   project and `model.as_json()` round-trips; it is the indicator computation the tool runs only to print a
//   summary line on stderr (cli/mod.rs:75; also hulc2model/src/lib.rs:74 and thor.rs:137) that dies.
//
// Exact input: the shipped project hulc_tests/tests/cubo/cubo.ctehexml with line 1623 (block
//   "Ocupacion-Residencia" = SCHEDULE-PD, the occupancy schedule of the dwelling) changed from
//       MONTH = ( 12)
//   to
//       MONTH = ( 4000000000)
//
// Expected: exit 0 with the model on stdout, or exit 1 with "fecha incorrecta en horario anual ..." and an
//           empty stdout. For thor: the same (exit 0 or a DATAERR exit).
// Actual (run with the address space limited to 6 GB so that the failure is immediate):
//   hulc2model: "memory allocation of 68719476720 bytes failed", SIGABRT (shell status 134), empty stdout.
//   thor FILE -o OUT: writes OUT and then aborts the same way.
//
// Cause: bemodel/src/convert/from_ctehexml.rs:789,833-843 `day_of_year(day, month)` accepts any day/month
//   (no 1..=31 / 1..=12 check) and its float result saturates to u32::MAX, which becomes the number of days
//   the week schedule is active; bemodel/src/types/schedules.rs:51-66 `get_year_as_day_sch` then expands it
//   eagerly (`.cycle().skip(..).take(*count as usize)` collected into a Vec<Uuid>) when
//   bemodel/src/energy/props.rs:98,388 compute the load averages and the occupancy time.
//
// Minimal fix: in schedules_from_bdl reject dates out of range
//   (`if !(1..=12).contains(month) || !(1..=31).contains(day) { bail!(..) }`), and/or bail when the day counts
//   of a year schedule add up to more than 366; defensively, cap `count` in get_year_as_day_sch.
//
// Goes to: hulc2model/tests/demo_5.rs
// Run:     cd /tmp/seed-h01 && cargo test -p hulc2model --offline -j 4 --test demo_5

use std::os::unix::process::ExitStatusExt;
use std::path::Path;
use std::process::Command;

#[test]
fn year_schedule_with_month_out_of_range_aborts_the_tool() {
    let src = Path::new(env!("CARGO_MANIFEST_DIR")).join("../hulc_tests/tests/cubo/cubo.ctehexml");
    let text = std::fs::read_to_string(src).unwrap();
    let from = "\"Ocupacion-Residencia\" = SCHEDULE-PD\n    TYPE   = \"FRACTION\"\n    GROUP  = \"Internas\"\n    MONTH = ( 12)";
    assert!(text.contains(from));
    let text = text.replacen(from, &from.replace("( 12)", "( 4000000000)"), 1);

    // The building model itself converts and round-trips through JSON
    let model = {
        use std::convert::TryFrom;
        bemodel::Model::try_from(&hulc::ctehexml::parse_with_catalog(&text).unwrap()).expect("the model converts")
    };
    bemodel::Model::from_json(&model.as_json().unwrap()).expect("and its JSON loads");

    let dir = std::env::temp_dir().join(format!("c01_demo5_{}", std::process::id()));
    let _ = std::fs::remove_dir_all(&dir);
    std::fs::create_dir_all(&dir).unwrap();
    std::fs::write(dir.join("cubo.ctehexml"), text).unwrap();

    // Address space limited to 6 GB: without the limit the process fills the memory of the machine first
    let out = Command::new("sh")
        .arg("-c")
        .arg("ulimit -v 6000000; exec \"$0\" \"$1\"")
        .arg(env!("CARGO_BIN_EXE_hulc2model"))
        .arg(&dir)
        .output()
        .unwrap();
    let _ = std::fs::remove_dir_all(&dir);
    let stderr = String::from_utf8_lossy(&out.stderr);
    assert!(
        out.status.signal().is_none() && matches!(out.status.code(), Some(0) | Some(1)),
        "the tool crashed: signal {:?}, code {:?}: {}",
        out.status.signal(),
        out.status.code(),
        stderr.lines().find(|l| l.contains("memory allocation") || l.contains("panicked")).unwrap_or("")
    );
}
