// C01 demo 3 -- a damaged / unforeseen CALENER-VyP systems section (<Definicion_Sistema>, or the on-site
//               production lists of <DatosGenerales>) makes the library and the export tool PANIC
//               (tool: exit status 101 and a Rust backtrace), although that section takes no part in
//               the exported model.
//
// Clause violated:
//   "For every HULC project directory the library can convert, running the export tool on it ... exits with
//    status 0 ..." read together with its anchored mechanism "parse_systems runs inside every
//   ctehexml::parse" (hulc/src/ctehexml/systems/mod.rs:27-42): the VyP systems are parsed only to be logged
//   (they are never copied to bemodel::Model), and for the GT systems the code states "un error en su
//   definición no impide la conversión" (systems/mod.rs:33-37). A project whose building description is
//   intact must therefore be exported, or at the very least refused with an error; instead the process
//   aborts with a panic (a crash).
//
// Exact inputs: the shipped project hulc_tests/tests/cubo/cubo.ctehexml with ONE of these edits:
//   a) lines 2004-2012 removed: the `<demandas> ... </demandas>` element of `<SIS_Acs nombre="SIS_ACS1">`
//        -> panic at hulc/src/ctehexml/systems/vyp_sys.rs:144  `dhw_demand: dhw_demand.unwrap()`
//   b) line 1998 `<cap_T>"cap_T-EQ_Caldera-unidad"</cap_T>` -> `<cap_T></cap_T>` (empty curve name)
//        -> panic at vyp_sys.rs:343  `n.text().unwrap()`
//   c) line 97 `<valMenELE>NO</valMenELE>` -> `<valMenELE>SI</valMenELE>` and line 99
//      `<valoresMensualesELE>Ninguno;Ninguno;0;...` -> `<valoresMensualesELE>Minihidraulica insitu;Turbina;0;...`
//      (a kind of on-site generation other than the three the code knows)
//        -> panic at vyp_sys.rs:774  `panic!("XXX: Tipo desconocido: {}", kind)`
//   d) line 97 `<valMenELE>SI</valMenELE>` and line 99 with a `;` appended after the last value
//      (`...;0;0;</valoresMensualesELE>`)
//        -> panic at vyp_sys.rs:744  `let name = sysdata[1];` (index out of bounds: the len is 1)
//   e) line 2014 `<SIS_ClimatizacionUnizona nombre="SIS1">` (and its closing tag, line 2028) renamed to
//      `<SIS_ClimatizacionNueva ...>` (a system type unknown to the code)
//        -> panic at vyp_sys.rs:219  `panic!("Sistema de tipo desconocido: {}", kind)`
//   The same family: vyp_sys.rs:161, 216 (`zone_equipment.unwrap()`: <SIS_Mixto>/<SIS_Conductos> without
//   <unidades_terminales>, found by the sweep in casoA and ejemplopmt_huecosok), :179 (no
//   <recuperacionCalor>), :262 (UT_AguaCaliente without `nombre`), :307, :365, :785, :801.
//
// Expected: `hulc::ctehexml::parse` returns (Ok, or an Err) and `hulc2model DIR` exits 0 printing the model
//           (the one of the unedited cubo project, since systems are not part of it), or exits 1 with an
//           error message.
// Actual:   `parse` panics; `hulc2model DIR` dies with status 101 ("thread 'main' panicked at
//           hulc/src/ctehexml/systems/vyp_sys.rs:...") and `thor FILE -o OUT` likewise, writing no file.
//
// Cause: vyp_sys::parse_systems / build_system / build_zone_equipment / build_generation_equipment /
//   build_onsite_prod return plain values and use unwrap()/panic!/unchecked indexing on optional XML content
//   (file:line list above).
//
// Minimal fix: make those builders return Result (`ok_or_else(|| format_err!(..))?` instead of unwrap,
//   `bail!` instead of panic!, `sysdata.get(1)` instead of `sysdata[1]`) and, in
//   hulc/src/ctehexml/systems/mod.rs::parse_systems, treat an Err of the VyP systems like the GT one:
//   `log::warn!` and continue with an empty list.
//
// Goes to: hulc2model/tests/demo_3.rs
// Run:     cd /tmp/seed-h01 && cargo test -p hulc2model --offline -j 4 --test demo_3

use std::panic::catch_unwind;
use std::path::Path;
use std::process::Command;

fn cubo() -> String {
    std::fs::read_to_string(Path::new(env!("CARGO_MANIFEST_DIR")).join("../hulc_tests/tests/cubo/cubo.ctehexml")).unwrap()
}

fn replace1(text: &str, from: &str, to: &str) -> String {
    assert!(text.contains(from), "text to edit not found: {}", from);
    text.replacen(from, to, 1)
}

fn check(tag: &str, text: String) {
    // 1. library, in process
    let t = text.clone();
    let lib = catch_unwind(move || hulc::ctehexml::parse_with_catalog(&t).map(|_| ()));
    // 2. tool
    let dir = std::env::temp_dir().join(format!("c01_demo3_{}_{}", tag, std::process::id()));
    let _ = std::fs::remove_dir_all(&dir);
    std::fs::create_dir_all(&dir).unwrap();
    std::fs::write(dir.join("cubo.ctehexml"), &text).unwrap();
    let out = Command::new(env!("CARGO_BIN_EXE_hulc2model")).arg(dir.to_str().unwrap()).output().unwrap();
    let _ = std::fs::remove_dir_all(&dir);
    let stderr = String::from_utf8_lossy(&out.stderr);
    let panic_line = stderr.lines().find(|l| l.contains("panicked at")).unwrap_or("").to_string();
    assert!(
        lib.is_ok() && out.status.code() != Some(101),
        "case {}: library panicked: {}; tool exit status {:?} {}",
        tag, lib.is_err(), out.status.code(), panic_line
    );
}

#[test]
fn a_dhw_system_without_demandas() {
    let text = cubo();
    let start = text.find("                    <demandas>").unwrap();
    let endtag = "</demandas>\n";
    let end = text[start..].find(endtag).unwrap() + start + endtag.len();
    check("a", format!("{}{}", &text[..start], &text[end..]));
}

#[test]
fn b_empty_curve_name() {
    check("b", replace1(&cubo(), "<cap_T>\"cap_T-EQ_Caldera-unidad\"</cap_T>", "<cap_T></cap_T>"));
}

#[test]
fn c_unknown_kind_of_onsite_generation() {
    let text = replace1(&cubo(), "<valMenELE>NO</valMenELE>", "<valMenELE>SI</valMenELE>");
    check("c", replace1(&text, "<valoresMensualesELE>Ninguno;Ninguno;", "<valoresMensualesELE>Minihidraulica insitu;Turbina;"));
}

#[test]
fn d_trailing_separator_in_onsite_generation_list() {
    let text = replace1(&cubo(), "<valMenELE>NO</valMenELE>", "<valMenELE>SI</valMenELE>");
    check("d", replace1(&text, "0;0</valoresMensualesELE>", "0;0;</valoresMensualesELE>"));
}

#[test]
fn e_unknown_system_type() {
    let text = replace1(&cubo(), "<SIS_ClimatizacionUnizona nombre=\"SIS1\">", "<SIS_ClimatizacionNueva nombre=\"SIS1\">");
    check("e", replace1(&text, "</SIS_ClimatizacionUnizona>", "</SIS_ClimatizacionNueva>"));
}
