// C01 demo 4 -- the project DIRECTORY NAME is used as a glob pattern: a directory whose name holds `[`, `]`
//               (also `*`, `?`) is not found, or -- worse -- the tool silently exports ANOTHER directory.
//               A directory name that is not valid UTF-8 makes the tool panic.
//
// Clause violated:
//   "For every HULC project directory the library can convert, running the export tool on it ... exits with
//    status 0 and writes ... one JSON document ...; that document loads as a model equal to the one the
//    library conversion yields for the same directory."
//   (The project file inside those directories converts without problem with
//    `Model::try_from(&hulc::ctehexml::parse_with_catalog_from_path(path)?)`. Note that
//    `hulc2model::collect_hulc_data` shares the defect of cases 1 and 2, because the defect is in the
//    file lookup it shares with the tool; if that function alone is taken as "the library conversion", cases
//    1 and 2 are a defect of both and only case 3 is specific to the tool.)
//
// Exact inputs:
//   1) ROOT/"proyecto [v2]"/  = copy of hulc_tests/tests/cubo  (no other directory in ROOT)
//        expected: exit 0 and the cubo model; actual: exit 1,
//        "Error: No se ha podido localizar el archivo .ctehexml del proyecto", nothing on stdout.
//   2) ROOT/"casa[1]"/ = copy of hulc_tests/tests/cubo   and   ROOT/"casa1"/ = copy of hulc_tests/tests/casoA
//        `hulc2model ROOT/casa[1]`
//        expected: the cubo model (meta.name "Cubo", 7 walls); actual: exit 0 and the model of the project in
//        ROOT/casa1 (casoA) -- the document does not describe the directory given.
//   3) ROOT/<bytes 61 F1 6F = "año" in latin1>/ = copy of hulc_tests/tests/cubo
//        expected: exit 0 and the cubo model (or a clean error); actual: panic in std::env::args(), exit 101.
//
// Cause:
//   1,2) hulc/src/utils/file.rs:25-31 (find_file_in_basedir) joins the directory and "*.ctehexml" into ONE
//        string and hands it to glob::glob(), so the metacharacters of the directory part are interpreted:
//        "casa[1]/*.ctehexml" matches "casa1/x.ctehexml" and never "casa[1]/x.ctehexml". Same lookup for
//        KyGananciasSolares.txt and NewBDL_O.tbl (kyg.rs:20, tbl.rs:37), so with --use-extra the result
//        files of the sibling directory are mixed in as well.
//   3)   hulc2model/src/bin/cli/mod.rs:43 `std::env::args()` panics on an argument that is not valid Unicode.
//
// Minimal fix:
//   1,2) escape the directory part: `let pattern = Path::new(&glob::Pattern::escape(dir)).join(pat)`
//        (or list the directory with std::fs::read_dir and match only the file name against the pattern).
//   3)   use `std::env::args_os()` and `to_str()` with an error message and exit(1) (or carry PathBuf through
//        collect_hulc_data / find_file_in_basedir, which would also remove the `AsRef<str>` restriction).
//
// Goes to: hulc2model/tests/demo_4.rs
// Run:     cd /tmp/seed-h01 && cargo test -p hulc2model --offline -j 4 --test demo_4

use std::convert::TryFrom;
use std::ffi::OsStr;
use std::os::unix::ffi::OsStrExt;
use std::path::{Path, PathBuf};
use std::process::{Command, Output};

fn shipped(p: &str) -> PathBuf {
    Path::new(env!("CARGO_MANIFEST_DIR")).join("../hulc_tests/tests").join(p)
}

fn copy_project(src: &Path, dst: &Path) {
    std::fs::create_dir_all(dst).unwrap();
    for e in std::fs::read_dir(src).unwrap() {
        let e = e.unwrap();
        if e.path().is_file() {
            std::fs::copy(e.path(), dst.join(e.file_name())).unwrap();
        }
    }
}

fn root(tag: &str) -> PathBuf {
    let r = std::env::temp_dir().join(format!("c01_demo4_{}_{}", tag, std::process::id()));
    let _ = std::fs::remove_dir_all(&r);
    std::fs::create_dir_all(&r).unwrap();
    r
}

fn tool(dir: &Path) -> Output {
    Command::new(env!("CARGO_BIN_EXE_hulc2model")).arg(dir).output().unwrap()
}

/// Model of the project file found in `dir`, read straight from the file (no glob involved)
fn model_of(dir: &Path) -> bemodel::Model {
    let file = std::fs::read_dir(dir)
        .unwrap()
        .filter_map(|e| e.ok())
        .map(|e| e.path())
        .find(|p| p.extension().map_or(false, |e| e == "ctehexml"))
        .unwrap();
    let mut m = bemodel::Model::try_from(&hulc::ctehexml::parse_with_catalog_from_path(&file).unwrap()).unwrap();
    hulc2model::fix_ecdata_from_extra::<PathBuf>(&mut m, &None, &None).unwrap();
    m
}

#[test]
fn case1_directory_with_brackets_is_not_found() {
    let r = root("1");
    let dir = r.join("proyecto [v2]");
    copy_project(&shipped("cubo"), &dir);
    let expected = model_of(&dir).as_json().unwrap();
    let out = tool(&dir);
    let _ = std::fs::remove_dir_all(&r);
    assert!(
        out.status.success(),
        "exit status {:?}: {}",
        out.status.code(),
        String::from_utf8_lossy(&out.stderr).lines().find(|l| l.starts_with("Error")).unwrap_or("")
    );
    assert_eq!(String::from_utf8(out.stdout).unwrap().trim_end(), expected);
}

#[test]
fn case2_tool_exports_the_sibling_directory() {
    let r = root("2");
    let dir = r.join("casa[1]");
    copy_project(&shipped("cubo"), &dir);
    copy_project(&shipped("casoA"), &r.join("casa1"));
    let expected = model_of(&dir);
    let out = tool(&dir);
    let _ = std::fs::remove_dir_all(&r);
    assert!(out.status.success());
    let printed = bemodel::Model::from_json(&String::from_utf8(out.stdout).unwrap()).unwrap();
    assert_eq!(
        (printed.meta.name.as_str(), printed.walls.len()),
        (expected.meta.name.as_str(), expected.walls.len()),
        "the document printed for .../casa[1] is the model of another directory (.../casa1)"
    );
}

#[test]
fn case3_directory_name_not_utf8_panics() {
    let r = root("3");
    let dir = r.join(OsStr::from_bytes(b"a\xf1o"));
    copy_project(&shipped("cubo"), &dir);
    let out = tool(&dir);
    let _ = std::fs::remove_dir_all(&r);
    assert_ne!(
        out.status.code(),
        Some(101),
        "the tool panicked: {}",
        String::from_utf8_lossy(&out.stderr).lines().find(|l| l.contains("panicked")).unwrap_or("")
    );
}
