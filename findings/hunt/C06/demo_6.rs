// C06 demo - several ground slabs in one space: B' from the first slab only, d_t averaged over all slabs
// Goes to bemodel/tests/. Run:
//   cd /tmp/seed-h06 && cp SEED/demo_6.rs bemodel/tests/ && cargo test -p bemodel --offline -j 4 --test demo_6
// The test FAILS on the unmodified code (that is the demonstration).
//
// FINDING 6 - clause: slab formula with the characteristic dimension and the equivalent thickness of the element
// Input: cond space 10x10, 4 EXTERIOR walls, ground floor R=0.1 entered a) as one 10x10 wall b) as two 10x5 walls c) as b) with the 2nd half insulated (R=2.6).
// Expected a)=b)=0.70; c) 0.70 and 0.24. Actual a) 0.70, b) 0.88 (B'=3.33 from the first slab only), c) 0.40 and 0.40 (space-average d_t for every slab).
// Cause: transmittance.rs:68-77,126 (first of spc_gnd_floors) and 148-176 + 352 (area-weighted d_t of the space).
// Fix: A and P from all ground slabs of the space; own d_t per slab.
#![allow(non_snake_case, dead_code)]

use bemodel::{
    point, BoundaryType, Layer, MatProps, Material, Model, Space, SpaceType, Uuid, Wall, WallCons,
    WallGeom,
};
use BoundaryType::*;

const TOP: f32 = 0.0;
const SIDE: f32 = 90.0;
const BOTTOM: f32 = 180.0;

fn uid(n: u128) -> Uuid {
    Uuid::from_u128(n)
}

fn mat(m: &mut Model, id: u128, conductivity: f32) -> Uuid {
    m.cons.materials.push(Material {
        id: uid(id),
        name: format!("mat{}", id),
        properties: MatProps::Detailed {
            conductivity,
            density: 1000.0,
            specific_heat: 1000.0,
            vapour_diff: None,
        },
    });
    uid(id)
}

fn rmat(m: &mut Model, id: u128, resistance: f32) -> Uuid {
    m.cons.materials.push(Material {
        id: uid(id),
        name: format!("rmat{}", id),
        properties: MatProps::Resistance {
            resistance,
            vapour_diff: None,
        },
    });
    uid(id)
}

fn cons(m: &mut Model, id: u128, layers: &[(Uuid, f32)]) -> Uuid {
    m.cons.wallcons.push(WallCons {
        id: uid(id),
        name: format!("cons{}", id),
        layers: layers
            .iter()
            .map(|(material, e)| Layer {
                material: *material,
                e: *e,
            })
            .collect(),
        absorptance: 0.6,
    });
    uid(id)
}

fn space(m: &mut Model, id: u128, kind: SpaceType, height: f32, z: f32, n_v: Option<f32>) -> Uuid {
    m.spaces.push(Space {
        id: uid(id),
        name: format!("space{}", id),
        multiplier: 1.0,
        kind,
        inside_tenv: true,
        height,
        z,
        loads: None,
        thermostat: None,
        n_v,
        illuminance: None,
    });
    uid(id)
}

#[allow(clippy::too_many_arguments)]
fn wall(
    m: &mut Model,
    id: u128,
    bounds: BoundaryType,
    cons: Uuid,
    space: Uuid,
    next_to: Option<Uuid>,
    tilt: f32,
    w: f32,
    h: f32,
) -> Uuid {
    m.walls.push(Wall {
        id: uid(id),
        name: format!("wall{}", id),
        bounds,
        cons,
        space,
        next_to,
        geometry: WallGeom {
            tilt,
            azimuth: 0.0,
            position: None,
            polygon: vec![point![0.0, 0.0], point![w, 0.0], point![w, h], point![0.0, h]],
        },
    });
    uid(id)
}

fn u(m: &Model, id: Uuid) -> Option<f32> {
    m.get_wall(id).unwrap().u_value(m)
}

fn r2(x: f64) -> f64 {
    (x * 100.0).round() / 100.0
}


fn slab_u_13370(A: f64, P: f64, R_f: f64, z: f64) -> f64 {
    let lambda = 2.0;
    let w = 0.3;
    let d_t = w + lambda * (0.17 + R_f + 0.04);
    let B = A / (0.5 * P);
    let dz = d_t + 0.5 * z;
    if dz < B {
        2.0 * lambda / (std::f64::consts::PI * B + dz) * (std::f64::consts::PI * B / dz + 1.0).ln()
    } else {
        lambda / (0.457 * B + dz)
    }
}

fn model_slabs(split: bool, second_insulated: bool) -> (Model, Vec<Uuid>) {
    let mut m = Model::default();
    let conc = mat(&mut m, 1, 2.0);
    let ins = mat(&mut m, 2, 0.04);
    let c = cons(&mut m, 10, &[(conc, 0.2)]); // R = 0.1
    let ci = cons(&mut m, 11, &[(conc, 0.2), (ins, 0.1)]); // R = 2.6
    let sp = space(&mut m, 100, SpaceType::CONDITIONED, 3.0, 0.0, None);
    let mut ids = vec![];
    if split {
        ids.push(wall(&mut m, 1000, GROUND, c, sp, None, BOTTOM, 10.0, 5.0));
        ids.push(wall(&mut m, 1001, GROUND, if second_insulated { ci } else { c }, sp, None, BOTTOM, 10.0, 5.0));
    } else {
        ids.push(wall(&mut m, 1000, GROUND, c, sp, None, BOTTOM, 10.0, 10.0));
    }
    wall(&mut m, 1002, EXTERIOR, c, sp, None, SIDE, 40.0, 3.0);
    wall(&mut m, 1003, EXTERIOR, c, sp, None, TOP, 10.0, 10.0);
    (m, ids)
}

#[test]
fn slab_subdivision_and_own_construction() {
    // 10x10 slab on ground, whole perimeter (40 m) exposed, R_f = 0.1
    let expected = r2(slab_u_13370(100.0, 40.0, 0.1, 0.0));
    let (m, ids) = model_slabs(false, false);
    assert!((u(&m, ids[0]).unwrap() as f64 - expected).abs() < 0.0051); // passes: 0.70

    // same floor drawn as two 10x5 polygons with the same construction: same building, same U expected
    let (m2, ids2) = model_slabs(true, false);
    let got2 = u(&m2, ids2[0]).unwrap() as f64;
    println!("split: got {} expected {}, B'={:?} (should be 5.0)", got2, expected, m2.spaces[0].slab_char_dim(&m2.walls, &m2.spaces));

    // second half insulated (R_f = 2.6): each slab should use its own equivalent thickness
    let (m3, ids3) = model_slabs(true, true);
    let exp_ins = r2(slab_u_13370(100.0, 40.0, 2.6, 0.0));
    let g0 = u(&m3, ids3[0]).unwrap() as f64;
    let g1 = u(&m3, ids3[1]).unwrap() as f64;
    println!("uninsulated half: got {} expected {}; insulated half: got {} expected {}", g0, expected, g1, exp_ins);

    assert!((got2 - expected).abs() < 0.0051, "split slab: got {} expected {}", got2, expected);
    assert!((g0 - expected).abs() < 0.0051 && (g1 - exp_ins).abs() < 0.0051);
}
