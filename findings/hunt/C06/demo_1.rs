// C06 demo - partition U depends on how the partition is subdivided (A_i is the single wall, not the whole separating area)
// Goes to bemodel/tests/. Run:
//   cd /tmp/seed-h06 && cp SEED/demo_1.rs bemodel/tests/ && cargo test -p bemodel --offline -j 4 --test demo_1
// The test FAILS on the unmodified code (that is the demonstration).
//
// FINDING 1 - clause: partition cond/uncond U = 1/(Rf + Ai/(sum(Ae*Ue) + 0.33*n*V)); Ai = whole area separating both spaces (EN ISO 6946 5.4.3)
// Input: cond space 10x10x3 + uncond garage 10x10x3 (n_v=1; roof 100 m2 and one 30 m2 wall EXTERIOR), R=0.5 everywhere; the 10x3 partition entered as 1,2,3,6 equal Walls.
// Expected 1.16 for every piece; actual n=1 -> 1.16, n=2 -> 1.23 (grows with n). Real project: hulc_tests/tests/ejemplopmt_huecosok, 26 partitions off by 0.04..0.22 (demo_11).
// Cause: bemodel/src/energy/transmittance.rs:440 `let A_i = self.area();`
// Fix: A_i = sum of areas of all INTERIOR walls joining the same pair of spaces (either space/next_to order).
#![allow(non_snake_case, dead_code)]

use bemodel::{
    point, BoundaryType, Layer, MatProps, Material, Model, Space, SpaceType, Uuid, Wall, WallCons,
    WallGeom,
};
use BoundaryType::*;

const TOP: f32 = 0.0;
const SIDE: f32 = 90.0;
const BOTTOM: f32 = 180.0;

fn uid(n: u128) -> Uuid {
    Uuid::from_u128(n)
}

fn mat(m: &mut Model, id: u128, conductivity: f32) -> Uuid {
    m.cons.materials.push(Material {
        id: uid(id),
        name: format!("mat{}", id),
        properties: MatProps::Detailed {
            conductivity,
            density: 1000.0,
            specific_heat: 1000.0,
            vapour_diff: None,
        },
    });
    uid(id)
}

fn rmat(m: &mut Model, id: u128, resistance: f32) -> Uuid {
    m.cons.materials.push(Material {
        id: uid(id),
        name: format!("rmat{}", id),
        properties: MatProps::Resistance {
            resistance,
            vapour_diff: None,
        },
    });
    uid(id)
}

fn cons(m: &mut Model, id: u128, layers: &[(Uuid, f32)]) -> Uuid {
    m.cons.wallcons.push(WallCons {
        id: uid(id),
        name: format!("cons{}", id),
        layers: layers
            .iter()
            .map(|(material, e)| Layer {
                material: *material,
                e: *e,
            })
            .collect(),
        absorptance: 0.6,
    });
    uid(id)
}

fn space(m: &mut Model, id: u128, kind: SpaceType, height: f32, z: f32, n_v: Option<f32>) -> Uuid {
    m.spaces.push(Space {
        id: uid(id),
        name: format!("space{}", id),
        multiplier: 1.0,
        kind,
        inside_tenv: true,
        height,
        z,
        loads: None,
        thermostat: None,
        n_v,
        illuminance: None,
    });
    uid(id)
}

#[allow(clippy::too_many_arguments)]
fn wall(
    m: &mut Model,
    id: u128,
    bounds: BoundaryType,
    cons: Uuid,
    space: Uuid,
    next_to: Option<Uuid>,
    tilt: f32,
    w: f32,
    h: f32,
) -> Uuid {
    m.walls.push(Wall {
        id: uid(id),
        name: format!("wall{}", id),
        bounds,
        cons,
        space,
        next_to,
        geometry: WallGeom {
            tilt,
            azimuth: 0.0,
            position: None,
            polygon: vec![point![0.0, 0.0], point![w, 0.0], point![w, h], point![0.0, h]],
        },
    });
    uid(id)
}

fn u(m: &Model, id: Uuid) -> Option<f32> {
    m.get_wall(id).unwrap().u_value(m)
}

fn r2(x: f64) -> f64 {
    (x * 100.0).round() / 100.0
}



/// builds a conditioned space (10x10) next to an unconditioned garage (10x10x3) through a
/// 10 x 3 partition split in `n` equal pieces
fn model_partition(n: usize) -> (Model, Vec<Uuid>) {
    let mut m = Model::default();
    let brick = mat(&mut m, 1, 0.5);
    let c = cons(&mut m, 10, &[(brick, 0.25)]); // R = 0.5
    let cond = space(&mut m, 100, SpaceType::CONDITIONED, 3.0, 0.0, None);
    let unc = space(&mut m, 101, SpaceType::UNCONDITIONED, 3.0, 0.0, Some(1.0));
    // conditioned space
    wall(&mut m, 1000, ADIABATIC, c, cond, None, BOTTOM, 10.0, 10.0);
    wall(&mut m, 1001, EXTERIOR, c, cond, None, TOP, 10.0, 10.0);
    // garage
    wall(&mut m, 1100, ADIABATIC, c, unc, None, BOTTOM, 10.0, 10.0);
    wall(&mut m, 1101, EXTERIOR, c, unc, None, TOP, 10.0, 10.0);
    wall(&mut m, 1102, EXTERIOR, c, unc, None, SIDE, 10.0, 3.0);
    let mut ids = vec![];
    for i in 0..n {
        ids.push(wall(
            &mut m,
            2000 + i as u128,
            INTERIOR,
            c,
            cond,
            Some(unc),
            SIDE,
            10.0 / n as f32,
            3.0,
        ));
    }
    (m, ids)
}

#[test]
fn a1_partition_split() {
    // independent expected value
    let R = 0.25 / 0.5;
    let U_roof = r2(1.0 / (0.10 + R + 0.04));
    let U_wall = r2(1.0 / (0.13 + R + 0.04));
    let thickness = 0.25;
    let V = 100.0 * (3.0 - thickness);
    let H_ue = 100.0 * U_roof + 30.0 * U_wall + 0.33 * 1.0 * V;
    let A_i = 30.0; // total area between the conditioned and the unconditioned space
    let expected = r2(1.0 / (R + 0.26 + A_i / H_ue));
    for n in [1, 2, 3, 6] {
        let (m, ids) = model_partition(n);
        for id in ids {
            let got = u(&m, id).unwrap() as f64;
            println!("n={} got={} expected={}", n, got, expected);
            assert!(
                (got - expected).abs() < 0.0051,
                "n={} got={} expected={}",
                n,
                got,
                expected
            );
        }
    }
}
