// C06 demo - ground-contact wall and buried roof get no U-value when their space has no ground slab
// Goes to bemodel/tests/. Run:
//   cd /tmp/seed-h06 && cp SEED/demo_5.rs bemodel/tests/ && cargo test -p bemodel --offline -j 4 --test demo_5
// The test FAILS on the unmodified code (that is the demonstration).
//
// FINDING 5 - clause: every element whose construction and spaces resolve has the standard's U-value (only missing construction/material -> None)
// Input: two-level basement; upper level (z=-3) has its floor INTERIOR to the lower level, a 40x3 GROUND wall and a 10x10 GROUND roof; R=0.1.
// Expected: buried roof 1/(0.10+0.1+0.04)=4.17 and Some(..) for the wall; actual None for both.
// Cause: transmittance.rs:337 `space.slab_d_t(..)?` returns None when the space has no GROUND floor, before the tilt dispatch (350-354).
// Fix: TOP -> U_w directly; SIDE -> without slab use d_t = d_w instead of returning None.
#![allow(non_snake_case, dead_code)]

use bemodel::{
    point, BoundaryType, Layer, MatProps, Material, Model, Space, SpaceType, Uuid, Wall, WallCons,
    WallGeom,
};
use BoundaryType::*;

const TOP: f32 = 0.0;
const SIDE: f32 = 90.0;
const BOTTOM: f32 = 180.0;

fn uid(n: u128) -> Uuid {
    Uuid::from_u128(n)
}

fn mat(m: &mut Model, id: u128, conductivity: f32) -> Uuid {
    m.cons.materials.push(Material {
        id: uid(id),
        name: format!("mat{}", id),
        properties: MatProps::Detailed {
            conductivity,
            density: 1000.0,
            specific_heat: 1000.0,
            vapour_diff: None,
        },
    });
    uid(id)
}

fn rmat(m: &mut Model, id: u128, resistance: f32) -> Uuid {
    m.cons.materials.push(Material {
        id: uid(id),
        name: format!("rmat{}", id),
        properties: MatProps::Resistance {
            resistance,
            vapour_diff: None,
        },
    });
    uid(id)
}

fn cons(m: &mut Model, id: u128, layers: &[(Uuid, f32)]) -> Uuid {
    m.cons.wallcons.push(WallCons {
        id: uid(id),
        name: format!("cons{}", id),
        layers: layers
            .iter()
            .map(|(material, e)| Layer {
                material: *material,
                e: *e,
            })
            .collect(),
        absorptance: 0.6,
    });
    uid(id)
}

fn space(m: &mut Model, id: u128, kind: SpaceType, height: f32, z: f32, n_v: Option<f32>) -> Uuid {
    m.spaces.push(Space {
        id: uid(id),
        name: format!("space{}", id),
        multiplier: 1.0,
        kind,
        inside_tenv: true,
        height,
        z,
        loads: None,
        thermostat: None,
        n_v,
        illuminance: None,
    });
    uid(id)
}

#[allow(clippy::too_many_arguments)]
fn wall(
    m: &mut Model,
    id: u128,
    bounds: BoundaryType,
    cons: Uuid,
    space: Uuid,
    next_to: Option<Uuid>,
    tilt: f32,
    w: f32,
    h: f32,
) -> Uuid {
    m.walls.push(Wall {
        id: uid(id),
        name: format!("wall{}", id),
        bounds,
        cons,
        space,
        next_to,
        geometry: WallGeom {
            tilt,
            azimuth: 0.0,
            position: None,
            polygon: vec![point![0.0, 0.0], point![w, 0.0], point![w, h], point![0.0, h]],
        },
    });
    uid(id)
}

fn u(m: &Model, id: Uuid) -> Option<f32> {
    m.get_wall(id).unwrap().u_value(m)
}

fn r2(x: f64) -> f64 {
    (x * 100.0).round() / 100.0
}


#[test]
fn a5_ground_wall_without_slab() {
    let mut m = Model::default();
    let conc = mat(&mut m, 1, 2.0);
    let c = cons(&mut m, 10, &[(conc, 0.2)]); // R = 0.1
    // two level basement: lower -6, upper -3
    let lower = space(&mut m, 100, SpaceType::CONDITIONED, 3.0, -6.0, None);
    let upper = space(&mut m, 101, SpaceType::CONDITIONED, 3.0, -3.0, None);
    wall(&mut m, 1000, GROUND, c, lower, None, BOTTOM, 10.0, 10.0);
    let wl = wall(&mut m, 1001, GROUND, c, lower, None, SIDE, 40.0, 3.0);
    wall(&mut m, 1002, INTERIOR, c, upper, Some(lower), BOTTOM, 10.0, 10.0);
    let wu = wall(&mut m, 1003, GROUND, c, upper, None, SIDE, 40.0, 3.0);
    let ru = wall(&mut m, 1004, GROUND, c, upper, None, TOP, 10.0, 10.0);
    println!("lower wall {:?}, upper wall {:?}, upper buried roof {:?}", u(&m, wl), u(&m, wu), u(&m, ru));
    // buried roof: U = 1/(Rsi_up + R + Rse)
    let exp_roof = r2(1.0 / (0.10 + 0.1 + 0.04));
    assert_eq!(u(&m, ru).map(|v| r2(v as f64)), Some(exp_roof));
    assert!(u(&m, wu).is_some());
}
