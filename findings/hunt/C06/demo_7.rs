// C06 demo - partition U depends on the ORDER of model.walls (net height taken from the first ceiling found)
// Goes to bemodel/tests/. Run:
//   cd /tmp/seed-h06 && cp SEED/demo_7.rs bemodel/tests/ && cargo test -p bemodel --offline -j 4 --test demo_7
// The test FAILS on the unmodified code (that is the demonstration).
//
// FINDING 7 - clause: V in 0.33*n*V must not depend on the order of model.walls
// Input: uncond space 10x10x3 (n_v=3) with two roofs 5x10 (0.25 m and 1.0 m thick) and a 10x3 partition to a cond space; second model = walls.reverse().
// Expected identical U; actual 1.19 vs 1.16.
// Cause: bemodel/src/types/space.rs:62-73 `walls.iter().find(..)` uses the first ceiling found. Fix: area-weighted mean thickness.
#![allow(non_snake_case, dead_code)]

use bemodel::{
    point, BoundaryType, Layer, MatProps, Material, Model, Space, SpaceType, Uuid, Wall, WallCons,
    WallGeom,
};
use BoundaryType::*;

const TOP: f32 = 0.0;
const SIDE: f32 = 90.0;
const BOTTOM: f32 = 180.0;

fn uid(n: u128) -> Uuid {
    Uuid::from_u128(n)
}

fn mat(m: &mut Model, id: u128, conductivity: f32) -> Uuid {
    m.cons.materials.push(Material {
        id: uid(id),
        name: format!("mat{}", id),
        properties: MatProps::Detailed {
            conductivity,
            density: 1000.0,
            specific_heat: 1000.0,
            vapour_diff: None,
        },
    });
    uid(id)
}

fn rmat(m: &mut Model, id: u128, resistance: f32) -> Uuid {
    m.cons.materials.push(Material {
        id: uid(id),
        name: format!("rmat{}", id),
        properties: MatProps::Resistance {
            resistance,
            vapour_diff: None,
        },
    });
    uid(id)
}

fn cons(m: &mut Model, id: u128, layers: &[(Uuid, f32)]) -> Uuid {
    m.cons.wallcons.push(WallCons {
        id: uid(id),
        name: format!("cons{}", id),
        layers: layers
            .iter()
            .map(|(material, e)| Layer {
                material: *material,
                e: *e,
            })
            .collect(),
        absorptance: 0.6,
    });
    uid(id)
}

fn space(m: &mut Model, id: u128, kind: SpaceType, height: f32, z: f32, n_v: Option<f32>) -> Uuid {
    m.spaces.push(Space {
        id: uid(id),
        name: format!("space{}", id),
        multiplier: 1.0,
        kind,
        inside_tenv: true,
        height,
        z,
        loads: None,
        thermostat: None,
        n_v,
        illuminance: None,
    });
    uid(id)
}

#[allow(clippy::too_many_arguments)]
fn wall(
    m: &mut Model,
    id: u128,
    bounds: BoundaryType,
    cons: Uuid,
    space: Uuid,
    next_to: Option<Uuid>,
    tilt: f32,
    w: f32,
    h: f32,
) -> Uuid {
    m.walls.push(Wall {
        id: uid(id),
        name: format!("wall{}", id),
        bounds,
        cons,
        space,
        next_to,
        geometry: WallGeom {
            tilt,
            azimuth: 0.0,
            position: None,
            polygon: vec![point![0.0, 0.0], point![w, 0.0], point![w, h], point![0.0, h]],
        },
    });
    uid(id)
}

fn u(m: &Model, id: Uuid) -> Option<f32> {
    m.get_wall(id).unwrap().u_value(m)
}

fn r2(x: f64) -> f64 {
    (x * 100.0).round() / 100.0
}


#[test]
fn a11_order_invariance() {
    let mut m = Model::default();
    let brick = mat(&mut m, 1, 0.5);
    let c = cons(&mut m, 10, &[(brick, 0.25)]);
    let cthick = cons(&mut m, 11, &[(brick, 1.0)]);
    let cond = space(&mut m, 100, SpaceType::CONDITIONED, 3.0, 0.0, None);
    let unc = space(&mut m, 101, SpaceType::UNCONDITIONED, 3.0, 0.0, Some(3.0));
    wall(&mut m, 1000, ADIABATIC, c, cond, None, BOTTOM, 10.0, 10.0);
    wall(&mut m, 1001, EXTERIOR, c, cond, None, TOP, 10.0, 10.0);
    wall(&mut m, 1100, ADIABATIC, c, unc, None, BOTTOM, 10.0, 10.0);
    wall(&mut m, 1101, EXTERIOR, c, unc, None, TOP, 5.0, 10.0);
    wall(&mut m, 1102, EXTERIOR, cthick, unc, None, TOP, 5.0, 10.0);
    let p = wall(&mut m, 2000, INTERIOR, c, cond, Some(unc), SIDE, 10.0, 3.0);
    let u1 = u(&m, p);
    let mut m2 = m.clone();
    m2.walls.reverse();
    let u2 = u(&m2, p);
    println!("order: {:?} vs reversed {:?}", u1, u2);
    assert_eq!(u1, u2);
}
