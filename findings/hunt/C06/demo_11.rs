// C06 demo - independent recomputation of every wall U-value of the real models (findings 1 and 3 on real projects)
// Goes to hulc_tests/tests/. Run:
//   cd /tmp/seed-h06 && cp SEED/demo_11.rs hulc_tests/tests/ && cargo test -p hulc_tests --offline -j 4 --test demo_11 -- --nocapture
// The test FAILS on the unmodified code: 26 partitions of tests/ejemplopmt_huecosok (finding 1) and
// P03_E01_FI001 of tests/casoC (finding 3); every other wall of every sample model agrees with the oracle.
#![allow(non_snake_case, dead_code)]

use bemodel::{BoundaryType, MatProps, Model, Space, SpaceType, Uuid, Wall};
use std::f64::consts::PI;

#[derive(Debug, Clone, Copy, PartialEq)]
enum Pos {
    Top,
    Side,
    Bottom,
}

fn pos(w: &Wall) -> Pos {
    // angle between the normal and the vertical
    let t = (w.geometry.tilt as f64).to_radians().cos();
    let c60 = 0.5;
    if t >= c60 - 1e-9 {
        Pos::Top
    } else if t <= -c60 + 1e-9 {
        Pos::Bottom
    } else {
        Pos::Side
    }
}

fn r2(x: f64) -> f64 {
    (x * 100.0).round() / 100.0
}

fn resistance(m: &Model, cons: Uuid) -> Option<f64> {
    let c = m.cons.wallcons.iter().find(|c| c.id == cons)?;
    let mut r = 0.0f64;
    for l in &c.layers {
        let mat = m.cons.materials.iter().find(|x| x.id == l.material)?;
        match mat.properties {
            MatProps::Detailed { conductivity, .. } => {
                if !(conductivity > 0.0) {
                    return None;
                }
                r += l.e as f64 / conductivity as f64
            }
            MatProps::Resistance { resistance, .. } => r += resistance as f64,
        }
    }
    Some(r)
}

fn thickness(m: &Model, cons: Uuid) -> f64 {
    m.cons
        .wallcons
        .iter()
        .find(|c| c.id == cons)
        .map_or(0.0, |c| c.layers.iter().map(|l| l.e as f64).sum())
}

fn rsi(p: Pos) -> f64 {
    match p {
        Pos::Top => 0.10,
        Pos::Side => 0.13,
        Pos::Bottom => 0.17,
    }
}

fn space<'a>(m: &'a Model, id: Uuid) -> Option<&'a Space> {
    m.spaces.iter().find(|s| s.id == id)
}

/// floor area of a space: own floors, or else ceilings of other spaces that are declared next to it
fn floor_area(m: &Model, s: &Space) -> f64 {
    let own: f64 = m
        .walls
        .iter()
        .filter(|w| w.space == s.id && pos(w) == Pos::Bottom)
        .map(|w| w.area() as f64)
        .sum();
    let other: f64 = m
        .walls
        .iter()
        .filter(|w| w.next_to == Some(s.id) && w.space != s.id && pos(w) == Pos::Top)
        .map(|w| w.area() as f64)
        .sum();
    if own > 0.0 { own } else { other }
}

/// mean thickness of the elements covering the space (area weighted)
fn net_height(m: &Model, s: &Space) -> (f64, f64, f64) {
    let tops: Vec<(f64, f64)> = m
        .walls
        .iter()
        .filter(|w| {
            (w.space == s.id && pos(w) == Pos::Top)
                || (w.next_to == Some(s.id) && pos(w) == Pos::Bottom)
        })
        .map(|w| (w.area() as f64, thickness(m, w.cons)))
        .collect();
    if tops.is_empty() {
        return (s.height as f64, s.height as f64, s.height as f64);
    }
    let a: f64 = tops.iter().map(|t| t.0).sum();
    let mean = if a > 0.0 {
        tops.iter().map(|t| t.0 * t.1).sum::<f64>() / a
    } else {
        tops[0].1
    };
    let mn = tops.iter().map(|t| t.1).fold(f64::INFINITY, f64::min);
    let mx = tops.iter().map(|t| t.1).fold(0.0, f64::max);
    (s.height as f64 - mean, s.height as f64 - mx, s.height as f64 - mn)
}

fn global_n(m: &Model) -> f64 {
    let v: f64 = m
        .spaces
        .iter()
        .filter(|s| s.inside_tenv && s.kind != SpaceType::UNINHABITED)
        .map(|s| floor_area(m, s) * net_height(m, s).0 * s.multiplier as f64)
        .sum();
    m.meta
        .global_ventilation_l_s
        .map_or(0.0, |l| 3.6 * l as f64 / v)
}

fn ground_slabs<'a>(m: &'a Model, s: &Space) -> Vec<&'a Wall> {
    m.walls
        .iter()
        .filter(|w| w.space == s.id && w.bounds == BoundaryType::GROUND && pos(w) == Pos::Bottom)
        .collect()
}

/// exposed perimeter by the ratio of exposed side wall area, with the right neighbour
fn exposed_perimeter(m: &Model, s: &Space, perimeter: f64) -> f64 {
    let mut tot = 0.0;
    let mut ext = 0.0;
    for w in m
        .walls
        .iter()
        .filter(|w| (w.space == s.id || w.next_to == Some(s.id)) && pos(w) == Pos::Side)
    {
        let a = w.area() as f64;
        tot += a;
        match w.bounds {
            BoundaryType::EXTERIOR | BoundaryType::GROUND => ext += a,
            BoundaryType::ADIABATIC => {}
            BoundaryType::INTERIOR => {
                let other = if w.space == s.id { w.next_to } else { Some(w.space) };
                if let Some(o) = other.and_then(|o| space(m, o)) {
                    if s.kind == SpaceType::CONDITIONED && o.kind != SpaceType::CONDITIONED {
                        ext += a
                    }
                }
            }
        }
    }
    if tot <= 0.0 {
        0.0
    } else {
        perimeter * ext / tot
    }
}

#[derive(Debug)]
struct Exp {
    u: Option<f64>,
    note: String,
}

fn expected(m: &Model, w: &Wall) -> Exp {
    use BoundaryType::*;
    let p = pos(w);
    let R = match resistance(m, w.cons) {
        Some(r) => r,
        None => {
            return Exp {
                u: None,
                note: "no cons".into(),
            }
        }
    };
    let U_w = 1.0 / (rsi(p) + R + 0.04);
    match w.bounds {
        EXTERIOR | ADIABATIC => Exp {
            u: Some(U_w),
            note: "air".into(),
        },
        GROUND => {
            let s = match space(m, w.space) {
                Some(s) => s,
                None => {
                    return Exp {
                        u: None,
                        note: "no space".into(),
                    }
                }
            };
            let z = (-(s.z as f64)).max(0.0);
            let slabs = ground_slabs(m, s);
            let lambda = 2.0;
            match p {
                Pos::Top => Exp {
                    u: Some(U_w),
                    note: "buried roof".into(),
                },
                Pos::Bottom => {
                    let A: f64 = slabs.iter().map(|x| x.area() as f64).sum();
                    // perimeter only known for single slabs
                    let per = if slabs.len() == 1 {
                        w.geometry.polygon_perimeter()
                    } else {
                        f64::NAN
                    };
                    let P = exposed_perimeter(m, s, per).max(0.01);
                    let B = A / (0.5 * P);
                    let d_t = 0.3 + lambda * (0.17 + R + 0.04);
                    let dz = d_t + 0.5 * z;
                    let U0 = if dz < B {
                        2.0 * lambda / (PI * B + dz) * (PI * B / dz + 1.0).ln()
                    } else {
                        lambda / (0.457 * B + dz)
                    };
                    let D = m.meta.d_perim_insulation as f64;
                    let Rn = m.meta.rn_perim_insulation as f64;
                    let d1 = Rn * (lambda - 0.035);
                    let psi = -lambda / PI * ((D / d_t + 1.0).ln() - (D / (d_t + d1) + 1.0).ln());
                    Exp {
                        u: Some(U0 + 2.0 * psi / B),
                        note: format!("slab n={} B'={:.2} d_t={:.2} z={}", slabs.len(), B, d_t, z),
                    }
                }
                Pos::Side => {
                    if z <= 0.0 {
                        return Exp {
                            u: Some(U_w),
                            note: "gnd wall z=0".into(),
                        };
                    }
                    if slabs.is_empty() {
                        return Exp {
                            u: Some(f64::NAN),
                            note: "gnd wall no slab".into(),
                        };
                    }
                    let A: f64 = slabs.iter().map(|x| x.area() as f64).sum();
                    let mut d_t = slabs
                        .iter()
                        .map(|x| {
                            x.area() as f64
                                * (0.3 + lambda * (0.17 + resistance(m, x.cons).unwrap_or(0.0) + 0.04))
                        })
                        .sum::<f64>()
                        / A;
                    let d_w = lambda * (0.13 + R + 0.04);
                    if d_w < d_t {
                        d_t = d_w
                    }
                    let U_bw = 2.0 * lambda / (PI * z)
                        * (1.0 + 0.5 * d_t / (d_t + z))
                        * (z / d_w + 1.0).ln();
                    let h = net_height(m, s).0;
                    let u = if h > z { (z * U_bw + (h - z) * U_w) / h } else { U_bw };
                    Exp {
                        u: Some(u),
                        note: format!("gnd wall z={} h={}", z, h),
                    }
                }
            }
        }
        INTERIOR => {
            let s = match space(m, w.space) {
                Some(s) => s,
                None => {
                    return Exp {
                        u: None,
                        note: "no space".into(),
                    }
                }
            };
            let nxt = match w.next_to {
                None => {
                    return Exp {
                        u: Some(1.0 / (R + 2.0 * rsi(p))),
                        note: "interior no next".into(),
                    }
                }
                Some(n) => match space(m, n) {
                    Some(n) => n,
                    None => {
                        return Exp {
                            u: None,
                            note: "no next space".into(),
                        }
                    }
                },
            };
            let tc = s.kind == SpaceType::CONDITIONED;
            let nc = nxt.kind == SpaceType::CONDITIONED;
            if tc == nc {
                return Exp {
                    u: Some(1.0 / (R + 0.26)),
                    note: "interior same level".into(),
                };
            }
            let unc = if tc { nxt } else { s };
            // heat flows from conditioned to unconditioned
            let rs = match (tc, p) {
                (_, Pos::Side) => 0.13,
                (true, Pos::Bottom) | (false, Pos::Top) => 0.17,
                (true, Pos::Top) | (false, Pos::Bottom) => 0.10,
            };
            let R_f = R + 2.0 * rs;
            // A_i : all elements between both spaces
            let A_i: f64 = m
                .walls
                .iter()
                .filter(|x| {
                    x.bounds == INTERIOR
                        && ((x.space == s.id && x.next_to == Some(nxt.id))
                            || (x.space == nxt.id && x.next_to == Some(s.id)))
                })
                .map(|x| x.area() as f64)
                .sum();
            let mut UA = 0.0;
            for x in m.walls.iter().filter(|x| {
                x.space == unc.id && (x.bounds == EXTERIOR || x.bounds == GROUND)
            }) {
                let e = expected(m, x);
                if let Some(ux) = e.u {
                    let wins: Vec<_> = m.windows.iter().filter(|wi| wi.wall == x.id).collect();
                    let wa: f64 = wins.iter().map(|wi| wi.area() as f64).sum();
                    UA += (x.area() as f64 - wa) * r2(ux);
                    for wi in wins {
                        if let Some(uw) = m
                            .cons
                            .wincons
                            .iter()
                            .find(|c| c.id == wi.cons)
                            .and_then(|c| c.u_value(&m.cons))
                        {
                            UA += wi.area() as f64 * uw as f64;
                        }
                    }
                }
            }
            let (hn, hmin, hmax) = net_height(m, unc);
            let V = floor_area(m, unc) * hn;
            let n = unc.n_v.map(|v| v as f64).unwrap_or_else(|| global_n(m));
            let H = UA + 0.33 * n * V;
            Exp {
                u: Some(1.0 / (R_f + A_i / H)),
                note: format!(
                    "partition A_i={:.2} (own {:.2}) UA={:.2} V={:.2} n={:.3} hnet=[{:.2},{:.2}] own floor area={:.2}",
                    A_i,
                    w.area(),
                    UA,
                    V,
                    n,
                    hmin,
                    hmax,
                    unc.area(&m.walls)
                ),
            }
        }
    }
}

trait PolyPer {
    fn polygon_perimeter(&self) -> f64;
}
impl PolyPer for bemodel::WallGeom {
    fn polygon_perimeter(&self) -> f64 {
        let n = self.polygon.len();
        (0..n)
            .map(|i| {
                let a = self.polygon[i];
                let b = self.polygon[(i + 1) % n];
                (((a.x - b.x) as f64).powi(2) + ((a.y - b.y) as f64).powi(2)).sqrt()
            })
            .sum()
    }
}

fn check_model(name: &str, m: &Model) -> usize {
    let mut bad = 0;
    for w in &m.walls {
        let got = w.u_value(m);
        let e = expected(m, w);
        let ok = match (got, e.u) {
            (None, None) => true,
            (Some(g), Some(x)) => (g as f64 - x).abs() <= 0.0101,
            _ => false,
        };
        if !ok {
            bad += 1;
            println!(
                "MISMATCH {} wall {} {:?} tilt={} got={:?} expected={:?} [{}]",
                name, w.name, w.bounds, w.geometry.tilt, got, e.u, e.note
            );
        }
    }
    println!("{}: {} walls, {} mismatches", name, m.walls.len(), bad);
    bad
}

#[test]
fn real_models() {
    let mut bad = 0;
    for f in std::fs::read_dir("../bemodel/tests/data").unwrap() {
        let p = f.unwrap().path();
        if p.extension().map_or(false, |e| e == "json") {
            let m = Model::from_json(&std::fs::read_to_string(&p).unwrap()).unwrap();
            bad += check_model(&p.display().to_string(), &m);
        }
    }
    for d in std::fs::read_dir("tests").unwrap() {
        let p = d.unwrap().path();
        if p.is_dir() {
            match hulc2model::collect_hulc_data(p.to_str().unwrap(), false, false) {
                Ok(m) => bad += check_model(&p.display().to_string(), &m),
                Err(e) => println!("{}: cannot convert: {}", p.display(), e),
            }
        }
    }
    assert_eq!(bad, 0);
}
