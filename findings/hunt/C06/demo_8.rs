// C06 demo - tilt classes are not mirror-symmetric: tilt 120 is a floor (Rsi 0.17) but tilt 240 (= -120, same slope) is a wall (Rsi 0.13)
// Goes to bemodel/tests/. Run:
//   cd /tmp/seed-h06 && cp SEED/demo_8.rs bemodel/tests/ && cargo test -p bemodel --offline -j 4 --test demo_8
// The test FAILS on the unmodified code (that is the demonstration).
//
// FINDING 8 - clause: Rsi chosen by heat-flow direction; threshold angles 60/120/240/300
// Input: EXTERIOR wall R=0.1 with tilt t and 360-t / -t (same slope).
// Expected same U; actual tilt 120 -> 3.23 (Rsi 0.17) but tilt 240 and -120 -> 3.70 (Rsi 0.13); 60/300 agree.
// Cause: bemodel/src/types/common.rs:81-91 (`< 240.0` should be `<= 240.0`, mirror of `tilt < 120` being SIDE).
#![allow(non_snake_case, dead_code)]

use bemodel::{
    point, BoundaryType, Layer, MatProps, Material, Model, Space, SpaceType, Uuid, Wall, WallCons,
    WallGeom,
};
use BoundaryType::*;

const TOP: f32 = 0.0;
const SIDE: f32 = 90.0;
const BOTTOM: f32 = 180.0;

fn uid(n: u128) -> Uuid {
    Uuid::from_u128(n)
}

fn mat(m: &mut Model, id: u128, conductivity: f32) -> Uuid {
    m.cons.materials.push(Material {
        id: uid(id),
        name: format!("mat{}", id),
        properties: MatProps::Detailed {
            conductivity,
            density: 1000.0,
            specific_heat: 1000.0,
            vapour_diff: None,
        },
    });
    uid(id)
}

fn rmat(m: &mut Model, id: u128, resistance: f32) -> Uuid {
    m.cons.materials.push(Material {
        id: uid(id),
        name: format!("rmat{}", id),
        properties: MatProps::Resistance {
            resistance,
            vapour_diff: None,
        },
    });
    uid(id)
}

fn cons(m: &mut Model, id: u128, layers: &[(Uuid, f32)]) -> Uuid {
    m.cons.wallcons.push(WallCons {
        id: uid(id),
        name: format!("cons{}", id),
        layers: layers
            .iter()
            .map(|(material, e)| Layer {
                material: *material,
                e: *e,
            })
            .collect(),
        absorptance: 0.6,
    });
    uid(id)
}

fn space(m: &mut Model, id: u128, kind: SpaceType, height: f32, z: f32, n_v: Option<f32>) -> Uuid {
    m.spaces.push(Space {
        id: uid(id),
        name: format!("space{}", id),
        multiplier: 1.0,
        kind,
        inside_tenv: true,
        height,
        z,
        loads: None,
        thermostat: None,
        n_v,
        illuminance: None,
    });
    uid(id)
}

#[allow(clippy::too_many_arguments)]
fn wall(
    m: &mut Model,
    id: u128,
    bounds: BoundaryType,
    cons: Uuid,
    space: Uuid,
    next_to: Option<Uuid>,
    tilt: f32,
    w: f32,
    h: f32,
) -> Uuid {
    m.walls.push(Wall {
        id: uid(id),
        name: format!("wall{}", id),
        bounds,
        cons,
        space,
        next_to,
        geometry: WallGeom {
            tilt,
            azimuth: 0.0,
            position: None,
            polygon: vec![point![0.0, 0.0], point![w, 0.0], point![w, h], point![0.0, h]],
        },
    });
    uid(id)
}

fn u(m: &Model, id: Uuid) -> Option<f32> {
    m.get_wall(id).unwrap().u_value(m)
}

fn r2(x: f64) -> f64 {
    (x * 100.0).round() / 100.0
}


#[test]
fn tilt_mirror_symmetry() {
    let mut m = Model::default();
    let conc = mat(&mut m, 1, 2.0);
    let c = cons(&mut m, 10, &[(conc, 0.2)]); // R = 0.1
    let sp = space(&mut m, 100, SpaceType::CONDITIONED, 3.0, 0.0, None);
    // A surface tilted t or -t (= 360 - t) has the same slope and so the same heat flow direction
    let mut bad = vec![];
    for t in [0.0f32, 30.0, 60.0, 90.0, 120.0, 150.0, 180.0] {
        let a = wall(&mut m, 5000 + t as u128, EXTERIOR, c, sp, None, t, 3.0, 3.0);
        let b = wall(&mut m, 6000 + t as u128, EXTERIOR, c, sp, None, 360.0 - t, 3.0, 3.0);
        let bn = wall(&mut m, 7000 + t as u128, EXTERIOR, c, sp, None, -t, 3.0, 3.0);
        println!("tilt {:>5}: U={:?}   tilt {:>5}: U={:?}   tilt {:>5}: U={:?}", t, u(&m, a), 360.0 - t, u(&m, b), -t, u(&m, bn));
        if u(&m, a) != u(&m, b) || u(&m, a) != u(&m, bn) {
            bad.push(t);
        }
    }
    // expected by the statement: 1/(Rsi + 0.1 + 0.04) with the same Rsi on both
    assert!(bad.is_empty(), "different U for tilt t and -t at t = {:?}", bad);
}
