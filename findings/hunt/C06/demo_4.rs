// C06 demo - thickening a layer of a partition INCREASES its U (building-wide ventilation / net volume coupling)
// Goes to bemodel/tests/. Run:
//   cd /tmp/seed-h06 && cp SEED/demo_4.rs bemodel/tests/ && cargo test -p bemodel --offline -j 4 --test demo_4
// The test FAILS on the unmodified code (that is the demonstration).
//
// FINDING 4 - clause: thickening a layer never increases the U-value of a partition (ventilation given building-wide)
// Input: cond space 10x10x3, meta.global_ventilation_l_s=200; its ceiling is the partition to an UNINHABITED attic without n_v; partition = 0.25 m brick + resistance-only layer (R=0.15) of thickness 0.02+e.
// Expected: U non-increasing in e; actual e=0 -> 0.88, 0.2 -> 0.89, 0.4 -> 0.90 ... 1.8 -> 1.01.
// Cause: thicker ceiling -> smaller Space::height_net (space.rs:58-75) -> smaller net volume -> larger Model::global_ventilation_rate (energy/mod.rs:54-57) -> larger q_ue of the uncond space (transmittance.rs:455-463); a resistance-only layer adds no R (transmittance.rs:248).
// Fix: do not derive n of the unconditioned space from a volume that depends on the evaluated element (use gross volumes / flow share, or require n_v).
#![allow(non_snake_case, dead_code)]

use bemodel::{
    point, BoundaryType, Layer, MatProps, Material, Model, Space, SpaceType, Uuid, Wall, WallCons,
    WallGeom,
};
use BoundaryType::*;

const TOP: f32 = 0.0;
const SIDE: f32 = 90.0;
const BOTTOM: f32 = 180.0;

fn uid(n: u128) -> Uuid {
    Uuid::from_u128(n)
}

fn mat(m: &mut Model, id: u128, conductivity: f32) -> Uuid {
    m.cons.materials.push(Material {
        id: uid(id),
        name: format!("mat{}", id),
        properties: MatProps::Detailed {
            conductivity,
            density: 1000.0,
            specific_heat: 1000.0,
            vapour_diff: None,
        },
    });
    uid(id)
}

fn rmat(m: &mut Model, id: u128, resistance: f32) -> Uuid {
    m.cons.materials.push(Material {
        id: uid(id),
        name: format!("rmat{}", id),
        properties: MatProps::Resistance {
            resistance,
            vapour_diff: None,
        },
    });
    uid(id)
}

fn cons(m: &mut Model, id: u128, layers: &[(Uuid, f32)]) -> Uuid {
    m.cons.wallcons.push(WallCons {
        id: uid(id),
        name: format!("cons{}", id),
        layers: layers
            .iter()
            .map(|(material, e)| Layer {
                material: *material,
                e: *e,
            })
            .collect(),
        absorptance: 0.6,
    });
    uid(id)
}

fn space(m: &mut Model, id: u128, kind: SpaceType, height: f32, z: f32, n_v: Option<f32>) -> Uuid {
    m.spaces.push(Space {
        id: uid(id),
        name: format!("space{}", id),
        multiplier: 1.0,
        kind,
        inside_tenv: true,
        height,
        z,
        loads: None,
        thermostat: None,
        n_v,
        illuminance: None,
    });
    uid(id)
}

#[allow(clippy::too_many_arguments)]
fn wall(
    m: &mut Model,
    id: u128,
    bounds: BoundaryType,
    cons: Uuid,
    space: Uuid,
    next_to: Option<Uuid>,
    tilt: f32,
    w: f32,
    h: f32,
) -> Uuid {
    m.walls.push(Wall {
        id: uid(id),
        name: format!("wall{}", id),
        bounds,
        cons,
        space,
        next_to,
        geometry: WallGeom {
            tilt,
            azimuth: 0.0,
            position: None,
            polygon: vec![point![0.0, 0.0], point![w, 0.0], point![w, h], point![0.0, h]],
        },
    });
    uid(id)
}

fn u(m: &Model, id: Uuid) -> Option<f32> {
    m.get_wall(id).unwrap().u_value(m)
}

fn r2(x: f64) -> f64 {
    (x * 100.0).round() / 100.0
}



/// Conditioned space whose ceiling is a partition towards an unconditioned (uninhabited) attic.
/// Ventilation given building-wide (l/s).
fn model_mono(e_extra: f32, resistance_only: bool) -> (Model, Uuid) {
    let mut m = Model::default();
    m.meta.global_ventilation_l_s = Some(200.0);
    let brick = mat(&mut m, 1, 0.5);
    let extra = if resistance_only {
        rmat(&mut m, 2, 0.15)
    } else {
        mat(&mut m, 2, 2.3)
    };
    let c = cons(&mut m, 10, &[(brick, 0.25)]);
    let cp = cons(&mut m, 11, &[(brick, 0.25), (extra, 0.02 + e_extra)]);
    let cond = space(&mut m, 100, SpaceType::CONDITIONED, 3.0, 0.0, None);
    let unc = space(&mut m, 101, SpaceType::UNINHABITED, 2.5, 3.0, None);
    wall(&mut m, 1000, ADIABATIC, c, cond, None, BOTTOM, 10.0, 10.0);
    wall(&mut m, 1002, EXTERIOR, c, cond, None, SIDE, 10.0, 3.0);
    let p = wall(&mut m, 2000, INTERIOR, cp, cond, Some(unc), TOP, 10.0, 10.0);
    // attic
    wall(&mut m, 1100, ADIABATIC, c, unc, None, BOTTOM, 10.0, 10.0);
    wall(&mut m, 1101, EXTERIOR, c, unc, None, TOP, 10.0, 10.0);
    (m, p)
}

#[test]
fn a4_monotonicity_partition_thickening() {
    for resistance_only in [true, false] {
        let mut prev: Option<f32> = None;
        let mut bad = vec![];
        for i in 0..10 {
            let e = 0.2 * i as f32;
            let (m, p) = model_mono(e, resistance_only);
            let got = u(&m, p).unwrap();
            println!("resistance_only={} e_extra={} U={} n_v={}", resistance_only, e, got, m.global_ventilation_rate());
            if let Some(pv) = prev {
                if got > pv + 0.001 {
                    bad.push((e, pv, got));
                }
            }
            prev = Some(got);
        }
        assert!(bad.is_empty(), "thickening increased U: {:?}", bad);
    }
}
