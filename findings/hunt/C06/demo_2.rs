// C06 demo - slab B' (exposed perimeter) ignores partitions to unheated spaces when they are declared from the other space
// Goes to bemodel/tests/. Run:
//   cd /tmp/seed-h06 && cp SEED/demo_2.rs bemodel/tests/ && cargo test -p bemodel --offline -j 4 --test demo_2
// The test FAILS on the unmodified code (that is the demonstration).
//
// FINDING 2 - clause: EN ISO 13370 slab formula, B' = A/(0.5 P) with P exposed to outside or unheated spaces; interior walls declared from either side
// Input: cond space 10x10 with ground slab (R=0.1), two EXTERIOR 10x3 walls and two 10x3 partitions to an UNCONDITIONED garage, declared a) space=cond,next_to=garage b) space=garage,next_to=cond.
// Expected P=40, B'=5, U=0.70 in both; actual a) 0.70, b) B'=10, U=0.44.
// Cause: transmittance.rs:97-111 looks the neighbour up with w.next_to, but Space::walls (space.rs:89-93) also yields walls with next_to == self.id, for which w.next_to is the space itself.
// Fix: other = if w.space == self.id { w.next_to } else { Some(w.space) }.
#![allow(non_snake_case, dead_code)]

use bemodel::{
    point, BoundaryType, Layer, MatProps, Material, Model, Space, SpaceType, Uuid, Wall, WallCons,
    WallGeom,
};
use BoundaryType::*;

const TOP: f32 = 0.0;
const SIDE: f32 = 90.0;
const BOTTOM: f32 = 180.0;

fn uid(n: u128) -> Uuid {
    Uuid::from_u128(n)
}

fn mat(m: &mut Model, id: u128, conductivity: f32) -> Uuid {
    m.cons.materials.push(Material {
        id: uid(id),
        name: format!("mat{}", id),
        properties: MatProps::Detailed {
            conductivity,
            density: 1000.0,
            specific_heat: 1000.0,
            vapour_diff: None,
        },
    });
    uid(id)
}

fn rmat(m: &mut Model, id: u128, resistance: f32) -> Uuid {
    m.cons.materials.push(Material {
        id: uid(id),
        name: format!("rmat{}", id),
        properties: MatProps::Resistance {
            resistance,
            vapour_diff: None,
        },
    });
    uid(id)
}

fn cons(m: &mut Model, id: u128, layers: &[(Uuid, f32)]) -> Uuid {
    m.cons.wallcons.push(WallCons {
        id: uid(id),
        name: format!("cons{}", id),
        layers: layers
            .iter()
            .map(|(material, e)| Layer {
                material: *material,
                e: *e,
            })
            .collect(),
        absorptance: 0.6,
    });
    uid(id)
}

fn space(m: &mut Model, id: u128, kind: SpaceType, height: f32, z: f32, n_v: Option<f32>) -> Uuid {
    m.spaces.push(Space {
        id: uid(id),
        name: format!("space{}", id),
        multiplier: 1.0,
        kind,
        inside_tenv: true,
        height,
        z,
        loads: None,
        thermostat: None,
        n_v,
        illuminance: None,
    });
    uid(id)
}

#[allow(clippy::too_many_arguments)]
fn wall(
    m: &mut Model,
    id: u128,
    bounds: BoundaryType,
    cons: Uuid,
    space: Uuid,
    next_to: Option<Uuid>,
    tilt: f32,
    w: f32,
    h: f32,
) -> Uuid {
    m.walls.push(Wall {
        id: uid(id),
        name: format!("wall{}", id),
        bounds,
        cons,
        space,
        next_to,
        geometry: WallGeom {
            tilt,
            azimuth: 0.0,
            position: None,
            polygon: vec![point![0.0, 0.0], point![w, 0.0], point![w, h], point![0.0, h]],
        },
    });
    uid(id)
}

fn u(m: &Model, id: Uuid) -> Option<f32> {
    m.get_wall(id).unwrap().u_value(m)
}

fn r2(x: f64) -> f64 {
    (x * 100.0).round() / 100.0
}



/// Conditioned space 10x10 with slab on ground, 2 exterior walls and 2 walls to unconditioned garage.
/// `from_cond`: partitions declared as walls of the conditioned space (next_to garage) or the other way
fn model_slab_sides(from_cond: bool) -> (Model, Uuid) {
    let mut m = Model::default();
    let conc = mat(&mut m, 1, 2.0);
    let c = cons(&mut m, 10, &[(conc, 0.2)]); // R = 0.1
    let cond = space(&mut m, 100, SpaceType::CONDITIONED, 3.0, 0.0, None);
    let unc = space(&mut m, 101, SpaceType::UNCONDITIONED, 3.0, 0.0, Some(1.0));
    let slab = wall(&mut m, 1000, GROUND, c, cond, None, BOTTOM, 10.0, 10.0);
    wall(&mut m, 1001, EXTERIOR, c, cond, None, TOP, 10.0, 10.0);
    wall(&mut m, 1002, EXTERIOR, c, cond, None, SIDE, 10.0, 3.0);
    wall(&mut m, 1003, EXTERIOR, c, cond, None, SIDE, 10.0, 3.0);
    // garage
    wall(&mut m, 1100, ADIABATIC, c, unc, None, BOTTOM, 10.0, 10.0);
    wall(&mut m, 1101, EXTERIOR, c, unc, None, TOP, 10.0, 10.0);
    wall(&mut m, 1102, EXTERIOR, c, unc, None, SIDE, 10.0, 3.0);
    if from_cond {
        wall(&mut m, 2000, INTERIOR, c, cond, Some(unc), SIDE, 10.0, 3.0);
        wall(&mut m, 2001, INTERIOR, c, cond, Some(unc), SIDE, 10.0, 3.0);
    } else {
        wall(&mut m, 2000, INTERIOR, c, unc, Some(cond), SIDE, 10.0, 3.0);
        wall(&mut m, 2001, INTERIOR, c, unc, Some(cond), SIDE, 10.0, 3.0);
    }
    (m, slab)
}

fn slab_u_13370(A: f64, P: f64, R_f: f64, z: f64) -> f64 {
    let lambda = 2.0;
    let w = 0.3;
    let d_t = w + lambda * (0.17 + R_f + 0.04);
    let B = A / (0.5 * P);
    let dz = d_t + 0.5 * z;
    if dz < B {
        2.0 * lambda / (std::f64::consts::PI * B + dz) * (std::f64::consts::PI * B / dz + 1.0).ln()
    } else {
        lambda / (0.457 * B + dz)
    }
}

#[test]
fn a2_slab_exposed_perimeter_declared_either_side() {
    // Whole perimeter is exposed (exterior or unheated space): P = 40
    let expected = r2(slab_u_13370(100.0, 40.0, 0.1, 0.0));
    for from_cond in [true, false] {
        let (m, slab) = model_slab_sides(from_cond);
        let got = u(&m, slab).unwrap() as f64;
        let bp = m.spaces[0].slab_char_dim(&m.walls, &m.spaces);
        println!("from_cond={} got={} expected={} B'={:?}", from_cond, got, expected, bp);
    }
    for from_cond in [true, false] {
        let (m, slab) = model_slab_sides(from_cond);
        let got = u(&m, slab).unwrap() as f64;
        assert!((got - expected).abs() < 0.0051, "from_cond={} got={} expected={}", from_cond, got, expected);
    }
}
