// C06 demo - a ground slab of zero area reports U = NaN (B' = 0 -> 0/0)
// Goes to bemodel/tests/. Run:
//   cd /tmp/seed-h06 && cp SEED/demo_10.rs bemodel/tests/ && cargo test -p bemodel --offline -j 4 --test demo_10
// The test FAILS on the unmodified code (that is the demonstration).
//
// FINDING 10 (degenerate, low importance) - ground slab with zero area reports Some(NaN)
// Cause: slab_char_dim returns Some(0.0) (transmittance.rs:79-85) and line 576 computes 2*psi/0 = 0/0. Fix: return None.
#![allow(non_snake_case, dead_code)]

use bemodel::{
    point, BoundaryType, Layer, MatProps, Material, Model, Space, SpaceType, Uuid, Wall, WallCons,
    WallGeom,
};
use BoundaryType::*;

const TOP: f32 = 0.0;
const SIDE: f32 = 90.0;
const BOTTOM: f32 = 180.0;

fn uid(n: u128) -> Uuid {
    Uuid::from_u128(n)
}

fn mat(m: &mut Model, id: u128, conductivity: f32) -> Uuid {
    m.cons.materials.push(Material {
        id: uid(id),
        name: format!("mat{}", id),
        properties: MatProps::Detailed {
            conductivity,
            density: 1000.0,
            specific_heat: 1000.0,
            vapour_diff: None,
        },
    });
    uid(id)
}

fn rmat(m: &mut Model, id: u128, resistance: f32) -> Uuid {
    m.cons.materials.push(Material {
        id: uid(id),
        name: format!("rmat{}", id),
        properties: MatProps::Resistance {
            resistance,
            vapour_diff: None,
        },
    });
    uid(id)
}

fn cons(m: &mut Model, id: u128, layers: &[(Uuid, f32)]) -> Uuid {
    m.cons.wallcons.push(WallCons {
        id: uid(id),
        name: format!("cons{}", id),
        layers: layers
            .iter()
            .map(|(material, e)| Layer {
                material: *material,
                e: *e,
            })
            .collect(),
        absorptance: 0.6,
    });
    uid(id)
}

fn space(m: &mut Model, id: u128, kind: SpaceType, height: f32, z: f32, n_v: Option<f32>) -> Uuid {
    m.spaces.push(Space {
        id: uid(id),
        name: format!("space{}", id),
        multiplier: 1.0,
        kind,
        inside_tenv: true,
        height,
        z,
        loads: None,
        thermostat: None,
        n_v,
        illuminance: None,
    });
    uid(id)
}

#[allow(clippy::too_many_arguments)]
fn wall(
    m: &mut Model,
    id: u128,
    bounds: BoundaryType,
    cons: Uuid,
    space: Uuid,
    next_to: Option<Uuid>,
    tilt: f32,
    w: f32,
    h: f32,
) -> Uuid {
    m.walls.push(Wall {
        id: uid(id),
        name: format!("wall{}", id),
        bounds,
        cons,
        space,
        next_to,
        geometry: WallGeom {
            tilt,
            azimuth: 0.0,
            position: None,
            polygon: vec![point![0.0, 0.0], point![w, 0.0], point![w, h], point![0.0, h]],
        },
    });
    uid(id)
}

fn u(m: &Model, id: Uuid) -> Option<f32> {
    m.get_wall(id).unwrap().u_value(m)
}

fn r2(x: f64) -> f64 {
    (x * 100.0).round() / 100.0
}


#[test]
fn a8_zero_area_slab() {
    let mut m = Model::default();
    let conc = mat(&mut m, 1, 2.0);
    let c = cons(&mut m, 10, &[(conc, 0.2)]);
    let sp = space(&mut m, 100, SpaceType::CONDITIONED, 3.0, 0.0, None);
    let slab = wall(&mut m, 1000, GROUND, c, sp, None, BOTTOM, 0.0, 0.0);
    let w = wall(&mut m, 1001, GROUND, c, sp, None, SIDE, 40.0, 3.0);
    println!("slab {:?} wall {:?}", u(&m, slab), u(&m, w));
    assert!(u(&m, slab).map_or(true, |v| v.is_finite()));
    assert!(u(&m, w).map_or(true, |v| v.is_finite()));
}
