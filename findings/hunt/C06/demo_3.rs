// C06 demo - volume of the unconditioned space is 0 when its floor is declared as ceiling of the space below
// Goes to bemodel/tests/. Run:
//   cd /tmp/seed-h06 && cp SEED/demo_3.rs bemodel/tests/ && cargo test -p bemodel --offline -j 4 --test demo_3
// The test FAILS on the unmodified code (that is the demonstration).
//
// FINDING 3 - clause: 0.33*n*V term, V = volume of the unconditioned space; interior walls declared from either side
// Input: cond space 10x10x3, uncond attic 10x10x2 above (n_v=2, roof EXTERIOR), R=0.5; horizontal partition declared a) space=cond,next_to=attic,tilt 0 b) space=attic,next_to=cond,tilt 180.
// Expected V=175, U=0.94 in both; actual b) 0.94, a) 0.75 (V=0). Real project: hulc_tests/tests/casoC wall P03_E01_FI001: 0.47 reported, 0.51 expected (demo_11).
// Cause: bemodel/src/types/space.rs:78-86 Space::area only adds BOTTOM walls with w.space == self.id (used at transmittance.rs:453-454 and energy/mod.rs:37-52).
// Fix: also add TOP walls with w.next_to == Some(self.id).
#![allow(non_snake_case, dead_code)]

use bemodel::{
    point, BoundaryType, Layer, MatProps, Material, Model, Space, SpaceType, Uuid, Wall, WallCons,
    WallGeom,
};
use BoundaryType::*;

const TOP: f32 = 0.0;
const SIDE: f32 = 90.0;
const BOTTOM: f32 = 180.0;

fn uid(n: u128) -> Uuid {
    Uuid::from_u128(n)
}

fn mat(m: &mut Model, id: u128, conductivity: f32) -> Uuid {
    m.cons.materials.push(Material {
        id: uid(id),
        name: format!("mat{}", id),
        properties: MatProps::Detailed {
            conductivity,
            density: 1000.0,
            specific_heat: 1000.0,
            vapour_diff: None,
        },
    });
    uid(id)
}

fn rmat(m: &mut Model, id: u128, resistance: f32) -> Uuid {
    m.cons.materials.push(Material {
        id: uid(id),
        name: format!("rmat{}", id),
        properties: MatProps::Resistance {
            resistance,
            vapour_diff: None,
        },
    });
    uid(id)
}

fn cons(m: &mut Model, id: u128, layers: &[(Uuid, f32)]) -> Uuid {
    m.cons.wallcons.push(WallCons {
        id: uid(id),
        name: format!("cons{}", id),
        layers: layers
            .iter()
            .map(|(material, e)| Layer {
                material: *material,
                e: *e,
            })
            .collect(),
        absorptance: 0.6,
    });
    uid(id)
}

fn space(m: &mut Model, id: u128, kind: SpaceType, height: f32, z: f32, n_v: Option<f32>) -> Uuid {
    m.spaces.push(Space {
        id: uid(id),
        name: format!("space{}", id),
        multiplier: 1.0,
        kind,
        inside_tenv: true,
        height,
        z,
        loads: None,
        thermostat: None,
        n_v,
        illuminance: None,
    });
    uid(id)
}

#[allow(clippy::too_many_arguments)]
fn wall(
    m: &mut Model,
    id: u128,
    bounds: BoundaryType,
    cons: Uuid,
    space: Uuid,
    next_to: Option<Uuid>,
    tilt: f32,
    w: f32,
    h: f32,
) -> Uuid {
    m.walls.push(Wall {
        id: uid(id),
        name: format!("wall{}", id),
        bounds,
        cons,
        space,
        next_to,
        geometry: WallGeom {
            tilt,
            azimuth: 0.0,
            position: None,
            polygon: vec![point![0.0, 0.0], point![w, 0.0], point![w, h], point![0.0, h]],
        },
    });
    uid(id)
}

fn u(m: &Model, id: Uuid) -> Option<f32> {
    m.get_wall(id).unwrap().u_value(m)
}

fn r2(x: f64) -> f64 {
    (x * 100.0).round() / 100.0
}



/// Conditioned space 10x10x3 and an unconditioned attic 10x10x2 above it.
/// The horizontal partition is declared either as ceiling of the conditioned space (TOP, next_to attic)
/// or as floor of the attic (BOTTOM, next_to conditioned)
fn model_attic(from_cond: bool) -> (Model, Uuid) {
    let mut m = Model::default();
    let brick = mat(&mut m, 1, 0.5);
    let c = cons(&mut m, 10, &[(brick, 0.25)]); // R = 0.5
    let cond = space(&mut m, 100, SpaceType::CONDITIONED, 3.0, 0.0, None);
    let unc = space(&mut m, 101, SpaceType::UNCONDITIONED, 2.0, 3.0, Some(2.0));
    wall(&mut m, 1000, ADIABATIC, c, cond, None, BOTTOM, 10.0, 10.0);
    wall(&mut m, 1002, EXTERIOR, c, cond, None, SIDE, 10.0, 3.0);
    // attic
    wall(&mut m, 1101, EXTERIOR, c, unc, None, TOP, 10.0, 10.0);
    let p = if from_cond {
        wall(&mut m, 2000, INTERIOR, c, cond, Some(unc), TOP, 10.0, 10.0)
    } else {
        wall(&mut m, 2000, INTERIOR, c, unc, Some(cond), BOTTOM, 10.0, 10.0)
    };
    (m, p)
}

#[test]
fn a3_attic_volume_declared_either_side() {
    let R = 0.5;
    let U_roof = r2(1.0 / (0.10 + R + 0.04));
    let V = 100.0 * (2.0 - 0.25);
    let H_ue = 100.0 * U_roof + 0.33 * 2.0 * V;
    // upwards heat flow: 2 * 0.10
    let expected = r2(1.0 / (R + 0.20 + 100.0 / H_ue));
    let mut res = vec![];
    for from_cond in [true, false] {
        let (m, p) = model_attic(from_cond);
        let got = u(&m, p).unwrap() as f64;
        println!("from_cond={} got={} expected={}", from_cond, got, expected);
        res.push(got);
    }
    for got in res {
        assert!((got - expected).abs() < 0.0051, "got={} expected={}", got, expected);
    }
}
