//! Finding 2 (C09): the net volume V used by n50 takes, for every space, the thickness of the
//! FIRST horizontal element found in `model.walls` that covers the space, so n50 depends on the
//! order of the wall list and is wrong when a space is covered by elements of different thickness.
//!
//! Goes to: bemodel/tests/demo_2.rs
//! Run:     cd /tmp/seed-h09 && cargo test -p bemodel --offline -j 4 --test demo_2
//!
//! Input: the real sample model bemodel/tests/data/caso_a.json (unmodified), and the same model
//! with its wall list reversed (same building, same elements, other order).

use bemodel::{BoundaryType, Model, Point2, Uuid};

fn poly_area(p: &[Point2]) -> f64 {
    let n = p.len();
    if n < 3 {
        return 0.0;
    }
    let mut s = 0.0f64;
    for i in 0..n {
        let (a, b) = (p[i], p[(i + 1) % n]);
        s += a.x as f64 * b.y as f64 - a.y as f64 * b.x as f64;
    }
    (s / 2.0).abs()
}

/// tilt = angle of the outward normal with the vertical (0 roof, 90 wall, 180 floor)
fn is_floor(t: f32) -> bool {
    (120.0..240.0).contains(&(t as f64).rem_euclid(360.0))
}
fn is_roof(t: f32) -> bool {
    let t = (t as f64).rem_euclid(360.0);
    t <= 60.0 || t >= 300.0
}

/// Reference n50 written from the statement:
/// 0.629 * (Co*Ao + sum Ch*Ah) / V, V = sum over envelope spaces of floor area * net height * multiplier
/// `pick` chooses how the slab thickness above a space is obtained from the thicknesses (area, e)
/// of ALL horizontal elements that cover it.
fn n50_ref(m: &Model, pick: fn(&[(f64, f64)]) -> f64) -> f64 {
    let thick = |id: Uuid| -> f64 {
        m.cons
            .wallcons
            .iter()
            .find(|c| c.id == id)
            .map_or(0.0, |c| c.layers.iter().map(|l| l.e as f64).sum())
    };
    let mut v = 0.0;
    for s in m.spaces.iter().filter(|s| s.inside_tenv) {
        let floor: f64 = m
            .walls
            .iter()
            .filter(|w| w.space == s.id && is_floor(w.geometry.tilt))
            .map(|w| poly_area(&w.geometry.polygon))
            .sum();
        // roofs / ceilings owned by the space and floors of the spaces above
        let tops: Vec<(f64, f64)> = m
            .walls
            .iter()
            .filter(|w| {
                (w.space == s.id && is_roof(w.geometry.tilt))
                    || (w.next_to == Some(s.id) && w.space != s.id && is_floor(w.geometry.tilt))
            })
            .map(|w| (poly_area(&w.geometry.polygon), thick(w.cons)))
            .collect();
        v += floor * (s.height as f64 - pick(&tops)) * s.multiplier as f64;
    }
    let (mut ao, mut ahch) = (0.0, 0.0);
    for w in m.walls.iter().filter(|w| w.bounds == BoundaryType::EXTERIOR) {
        let mult = match m.spaces.iter().find(|s| s.id == w.space) {
            Some(s) if s.inside_tenv => s.multiplier as f64,
            _ => continue,
        };
        let mut ah = 0.0;
        for win in m.windows.iter().filter(|win| win.wall == w.id) {
            let a = win.geometry.width as f64 * win.geometry.height as f64;
            let ch = m.cons.wincons.iter().find(|c| c.id == win.cons).map_or(100.0, |c| c.c_100 as f64);
            ah += a;
            ahch += a * ch * mult;
        }
        ao += (poly_area(&w.geometry.polygon) - ah) * mult;
    }
    let co = if m.meta.is_new_building { 16.0 } else { 29.0 };
    if v == 0.0 {
        0.0
    } else {
        0.629 * (co * ao + ahch) / v
    }
}

fn mean(t: &[(f64, f64)]) -> f64 {
    let a: f64 = t.iter().map(|x| x.0).sum();
    if a > 0.0 {
        t.iter().map(|x| x.0 * x.1).sum::<f64>() / a
    } else {
        0.0
    }
}

fn load() -> Model {
    Model::from_json(&std::fs::read_to_string("tests/data/caso_a.json").unwrap()).unwrap()
}

/// Same building, two orders of the wall list -> n50_ref must be the same
#[test]
fn n50_ref_does_not_depend_on_wall_order() {
    let m = load();
    let mut r = m.clone();
    r.walls.reverse();
    let a = m.energy_indicators().n50_data;
    let b = r.energy_indicators().n50_data;
    println!("original order: n50_ref={} vol={} walls_c={}", a.n50_ref, a.vol, a.walls_c);
    println!("reversed order: n50_ref={} vol={} walls_c={}", b.n50_ref, b.vol, b.walls_c);
    assert!((a.walls_a - b.walls_a).abs() < 0.001 && (a.windows_c_a - b.windows_c_a).abs() < 0.001);
    assert!(
        (a.n50_ref - b.n50_ref).abs() <= 0.01,
        "n50_ref depends on the order of the walls: {} vs {}",
        a.n50_ref,
        b.n50_ref
    );
}

/// The building has a blower door test (n50 = 5.32): the reported wall permeability also moves
#[test]
fn walls_c_does_not_depend_on_wall_order() {
    let m = load();
    let mut r = m.clone();
    r.walls.reverse();
    let a = m.energy_indicators().n50_data;
    let b = r.energy_indicators().n50_data;
    assert!(
        (a.walls_c - b.walls_c).abs() <= 0.01,
        "walls_c depends on the order of the walls: {} vs {}",
        a.walls_c,
        b.walls_c
    );
}

/// Space P03_E01 (150 m2) is covered by a 0.482 m roof (50 m2), a 0.35 m ceiling (50 m2) and the
/// 0.35 m floor of P04_E01 (50 m2): its net height is 3 - 0.394 = 2.606, not 3 - 0.482 = 2.518
#[test]
fn n50_ref_uses_net_volume_of_all_covering_slabs() {
    let m = load();
    let exp = n50_ref(&m, mean);
    let got = m.energy_indicators().n50_data.n50_ref as f64;
    println!("expected n50_ref={exp:.4} got={got:.4}");
    assert!((got - exp).abs() <= 0.01, "n50_ref expected {exp:.4}, got {got:.4}");
}
