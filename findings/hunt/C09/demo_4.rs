//! Finding 4 (C09): V is rounded to 0.01 m3 before use and n50_ref is only computed when the
//! rounded V exceeds 0.001, so a non zero V below 0.005 m3 gives n50 = 0 (the statement gives 0
//! only for V = 0), and small volumes carry the rounding error of V into n50.
//!
//! Goes to: bemodel/tests/demo_4.rs
//! Run:     cd /tmp/seed-h09 && cargo test -p bemodel --offline -j 4 --test demo_4

use bemodel::{point, BoundaryType, Layer, Model, Point2, Space, Uuid, Wall, WallCons, WallGeom, WinCons, WinGeom, Window};

fn uid(n: u128) -> Uuid {
    Uuid::from_u128(n)
}

fn rect(w: f32, h: f32) -> Vec<Point2> {
    vec![point![0.0, 0.0], point![w, 0.0], point![w, h], point![0.0, h]]
}

/// Rectangular element w x h of space `space`; tilt 0 = roof, 90 = wall, 180 = floor
fn wall(id: u128, space: u128, bounds: BoundaryType, tilt: f32, azimuth: f32, w: f32, h: f32, cons: u128) -> Wall {
    Wall {
        id: uid(id),
        name: format!("W{id}"),
        bounds,
        cons: uid(cons),
        space: uid(space),
        next_to: None,
        geometry: WallGeom { tilt, azimuth, position: None, polygon: rect(w, h) },
    }
}

#[allow(dead_code)]
fn win(id: u128, wall: u128, cons: u128, w: f32, h: f32) -> Window {
    Window {
        id: uid(id),
        name: format!("H{id}"),
        cons: uid(cons),
        wall: uid(wall),
        geometry: WinGeom { position: None, width: w, height: h, setback: 0.0 },
    }
}

fn space(id: u128, height: f32, multiplier: f32, inside_tenv: bool) -> Space {
    Space { id: uid(id), name: format!("S{id}"), multiplier, inside_tenv, height, ..Default::default() }
}

/// Empty new building with a 0.30 m wall construction (900), a 0.10 m one (901) and a window
/// construction with C_100 = 27 (800)
fn base() -> Model {
    let mut m = Model::default();
    m.meta.is_new_building = true;
    m.meta.n50_test_ach = None;
    m.cons.wallcons.push(WallCons { id: uid(900), name: "c30".into(), layers: vec![Layer { material: uid(950), e: 0.3 }], absorptance: 0.6 });
    m.cons.wallcons.push(WallCons { id: uid(901), name: "c10".into(), layers: vec![Layer { material: uid(950), e: 0.1 }], absorptance: 0.6 });
    m.cons.wincons.push(WinCons { id: uid(800), name: "w27".into(), glass: uid(1), frame: uid(2), f_f: 0.2, delta_u: 0.0, g_glshwi: None, c_100: 27.0 });
    m
}


/// 1 x 1 m space of gross height `h` with ground floor and exterior 0.30 m roof
fn tiny(h: f32) -> Model {
    let mut m = base();
    m.spaces.push(space(1, h, 1.0, true));
    m.walls.push(wall(10, 1, BoundaryType::GROUND, 180.0, 0.0, 1.0, 1.0, 900));
    m.walls.push(wall(11, 1, BoundaryType::EXTERIOR, 0.0, 0.0, 1.0, 1.0, 900));
    m
}

#[test]
fn non_zero_volume_below_half_a_hundredth() {
    // V = 1 x (0.304 - 0.30) = 0.004 m3, Ao = 1 m2 -> n50 = 0.629 x 16 / 0.004 = 2516
    let d = tiny(0.304).energy_indicators().n50_data;
    println!("vol={} n50={}", d.vol, d.n50);
    assert!(d.n50 > 2000.0, "n50 expected about 2516 (V = 0.004 m3 is not 0), got {}", d.n50);
}

#[test]
fn small_volume_rounding() {
    // V = 1 x (0.554 - 0.30) = 0.254 m3, Ao = 1 m2 -> n50 = 0.629 x 16 / 0.254 = 39.62
    let exp = 0.629 * 16.0 / 0.254;
    let d = tiny(0.554).energy_indicators().n50_data;
    println!("vol={} n50={} expected {exp}", d.vol, d.n50);
    assert!((d.n50 - exp).abs() <= 0.01, "n50 expected {exp}, got {}", d.n50);
}
