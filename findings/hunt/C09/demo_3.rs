//! Finding 3 (C09): Ao is accumulated from per-element net areas that have been rounded to
//! 0.01 m2 (Wall::area_net), so with small elements the error does not stay below two decimals.
//!
//! Goes to: bemodel/tests/demo_3.rs
//! Run:     cd /tmp/seed-h09 && cargo test -p bemodel --offline -j 4 --test demo_3
//!
//! Input (generated): one 5 x 4 x 3 m space on the ground, adiabatic roof, whose only elements in
//! contact with outside air are 300 spandrel panels of 0.55 x 0.35 m (0.1925 m2 each).

use bemodel::{point, BoundaryType, Layer, Model, Point2, Space, Uuid, Wall, WallCons, WallGeom, WinCons, WinGeom, Window};

fn uid(n: u128) -> Uuid {
    Uuid::from_u128(n)
}

fn rect(w: f32, h: f32) -> Vec<Point2> {
    vec![point![0.0, 0.0], point![w, 0.0], point![w, h], point![0.0, h]]
}

/// Rectangular element w x h of space `space`; tilt 0 = roof, 90 = wall, 180 = floor
fn wall(id: u128, space: u128, bounds: BoundaryType, tilt: f32, azimuth: f32, w: f32, h: f32, cons: u128) -> Wall {
    Wall {
        id: uid(id),
        name: format!("W{id}"),
        bounds,
        cons: uid(cons),
        space: uid(space),
        next_to: None,
        geometry: WallGeom { tilt, azimuth, position: None, polygon: rect(w, h) },
    }
}

#[allow(dead_code)]
fn win(id: u128, wall: u128, cons: u128, w: f32, h: f32) -> Window {
    Window {
        id: uid(id),
        name: format!("H{id}"),
        cons: uid(cons),
        wall: uid(wall),
        geometry: WinGeom { position: None, width: w, height: h, setback: 0.0 },
    }
}

fn space(id: u128, height: f32, multiplier: f32, inside_tenv: bool) -> Space {
    Space { id: uid(id), name: format!("S{id}"), multiplier, inside_tenv, height, ..Default::default() }
}

/// Empty new building with a 0.30 m wall construction (900), a 0.10 m one (901) and a window
/// construction with C_100 = 27 (800)
fn base() -> Model {
    let mut m = Model::default();
    m.meta.is_new_building = true;
    m.meta.n50_test_ach = None;
    m.cons.wallcons.push(WallCons { id: uid(900), name: "c30".into(), layers: vec![Layer { material: uid(950), e: 0.3 }], absorptance: 0.6 });
    m.cons.wallcons.push(WallCons { id: uid(901), name: "c10".into(), layers: vec![Layer { material: uid(950), e: 0.1 }], absorptance: 0.6 });
    m.cons.wincons.push(WinCons { id: uid(800), name: "w27".into(), glass: uid(1), frame: uid(2), f_f: 0.2, delta_u: 0.0, g_glshwi: None, c_100: 27.0 });
    m
}


#[test]
fn small_elements() {
    let mut m = base();
    m.spaces.push(space(1, 3.0, 1.0, true));
    m.walls.push(wall(10, 1, BoundaryType::GROUND, 180.0, 0.0, 5.0, 4.0, 900));
    m.walls.push(wall(11, 1, BoundaryType::ADIABATIC, 0.0, 0.0, 5.0, 4.0, 900));
    for i in 0..300 {
        m.walls.push(wall(1000 + i, 1, BoundaryType::EXTERIOR, 90.0, 0.0, 0.55, 0.35, 901));
    }
    // Ao = 300 x 0.1925 = 57.75 m2; V = 20 x (3 - 0.3) = 54 m3
    let ao = 300.0 * 0.55 * 0.35;
    let exp = 0.629 * 16.0 * ao / 54.0; // 10.763
    let d = m.energy_indicators().n50_data;
    println!("expected Ao={ao} n50={exp}; got Ao={} vol={} n50={}", d.walls_a, d.vol, d.n50);
    assert!((d.vol - 54.0).abs() < 0.001);
    assert!((d.n50 - exp).abs() <= 0.01, "n50 expected {exp}, got {}", d.n50);
}
