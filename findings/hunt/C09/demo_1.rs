//! Finding 1 (C09): a space of the thermal envelope whose floor slab is declared from the space
//! below (as its ceiling, `next_to` = this space) gets floor area 0, so its volume is left out
//! of V and n50_ref / the wall permeability deduced from the blower-door test are wrong.
//!
//! Goes to: hulc_tests/tests/demo_1.rs
//! Run:     cd /tmp/seed-h09 && cargo test -p hulc_tests --offline -j 4 --test demo_1
//!
//! Input: the real HULC project hulc_tests/tests/casoC (unmodified). Its space P04_E02 is inside
//! the thermal envelope (50 m2 x 3 m); its floor is the element P03_E01_FI001, owned by P03_E01.

use bemodel::{BoundaryType, Model, Point2};

fn poly_area(p: &[Point2]) -> f64 {
    let n = p.len();
    if n < 3 {
        return 0.0;
    }
    let mut s = 0.0f64;
    for i in 0..n {
        let (a, b) = (p[i], p[(i + 1) % n]);
        s += a.x as f64 * b.y as f64 - a.y as f64 * b.x as f64;
    }
    (s / 2.0).abs()
}

#[test]
fn caso_c_n50_counts_the_volume_of_every_envelope_space() {
    let data =
        hulc::ctehexml::parse_with_catalog_from_path("tests/casoC/casoc.ctehexml").unwrap();
    let m = Model::try_from(&data).unwrap();

    // Blower door test of the project
    assert_eq!(m.meta.n50_test_ach, Some(5.32));
    assert!(m.meta.is_new_building);
    let co = 16.0;

    // Ao, sum(Ah*Ch): exterior elements of envelope spaces, straight from the model elements
    let (mut ao, mut ahch) = (0.0f64, 0.0f64);
    for w in m.walls.iter().filter(|w| w.bounds == BoundaryType::EXTERIOR) {
        let mult = match m.get_space(w.space) {
            Some(s) if s.inside_tenv => s.multiplier as f64,
            _ => continue,
        };
        let mut ah = 0.0;
        for win in m.windows.iter().filter(|win| win.wall == w.id) {
            let a = win.geometry.width as f64 * win.geometry.height as f64;
            let ch = m.cons.get_wincons(win.cons).map_or(100.0, |c| c.c_100 as f64);
            ah += a;
            ahch += a * ch * mult;
        }
        ao += (poly_area(&w.geometry.polygon) - ah) * mult;
    }

    // V: independent source = the plan polygons of the spaces in the HULC file.
    // The slab to discount above each space is bounded by 0 and by the thickest construction of
    // the model, so V is within [v_min, v_max] whatever slab is chosen for each space.
    let e_max = m.cons.wallcons.iter().map(|c| c.layers.iter().map(|l| l.e as f64).sum::<f64>()).fold(0.0, f64::max);
    let (mut v_min, mut v_max) = (0.0f64, 0.0f64);
    for s in data.bdldata.spaces.iter().filter(|s| s.insidete) {
        let a = s.polygon.area() as f64 * (s.multiplier * s.floor_multiplier) as f64;
        v_min += a * (s.height as f64 - e_max);
        v_max += a * s.height as f64;
    }
    let ref_lo = 0.629 * (co * ao + ahch) / v_max;
    let ref_hi = 0.629 * (co * ao + ahch) / v_min;
    let c_lo = (5.32 * v_min / 0.629 - ahch) / ao;
    let c_hi = (5.32 * v_max / 0.629 - ahch) / ao;

    let d = m.energy_indicators().n50_data;
    println!("Ao={ao:.2} sum(AhCh)={ahch:.2} V in [{v_min:.2}, {v_max:.2}]");
    println!("expected n50_ref in [{ref_lo:.3}, {ref_hi:.3}], walls_c in [{c_lo:.3}, {c_hi:.3}]");
    println!("got vol={} n50_ref={} n50={} walls_c={}", d.vol, d.n50_ref, d.n50, d.walls_c);

    assert!((d.walls_a as f64 - ao).abs() < 0.05);
    assert!((d.windows_c_a as f64 - ahch).abs() < 0.05);
    assert!((d.n50 - 5.32).abs() < 0.001);
    assert!(
        d.vol as f64 >= v_min - 0.01 && d.vol as f64 <= v_max + 0.01,
        "V = {} outside [{v_min:.2}, {v_max:.2}]",
        d.vol
    );
    assert!(
        d.n50_ref as f64 >= ref_lo - 0.01 && d.n50_ref as f64 <= ref_hi + 0.01,
        "n50_ref = {} outside [{ref_lo:.3}, {ref_hi:.3}]",
        d.n50_ref
    );
    assert!(
        d.walls_c as f64 >= c_lo - 0.01 && d.walls_c as f64 <= c_hi + 0.01,
        "walls_c = {} outside [{c_lo:.3}, {c_hi:.3}]",
        d.walls_c
    );
}
