//! Finding 1, generated variant (C09): two stacked 5 x 4 x 3 m spaces, both inside the thermal
//! envelope. The slab between them is declared once, from the lower space (its ceiling, tilt 0,
//! INTERIOR, next_to = upper space). The upper space gets area 0 and its volume is not counted.
//!
//! Goes to: bemodel/tests/demo_1b.rs
//! Run:     cd /tmp/seed-h09 && cargo test -p bemodel --offline -j 4 --test demo_1b

use bemodel::{point, BoundaryType, Layer, Model, Point2, Space, Uuid, Wall, WallCons, WallGeom, WinCons, WinGeom, Window};

fn uid(n: u128) -> Uuid {
    Uuid::from_u128(n)
}

fn rect(w: f32, h: f32) -> Vec<Point2> {
    vec![point![0.0, 0.0], point![w, 0.0], point![w, h], point![0.0, h]]
}

/// Rectangular element w x h of space `space`; tilt 0 = roof, 90 = wall, 180 = floor
fn wall(id: u128, space: u128, bounds: BoundaryType, tilt: f32, azimuth: f32, w: f32, h: f32, cons: u128) -> Wall {
    Wall {
        id: uid(id),
        name: format!("W{id}"),
        bounds,
        cons: uid(cons),
        space: uid(space),
        next_to: None,
        geometry: WallGeom { tilt, azimuth, position: None, polygon: rect(w, h) },
    }
}

#[allow(dead_code)]
fn win(id: u128, wall: u128, cons: u128, w: f32, h: f32) -> Window {
    Window {
        id: uid(id),
        name: format!("H{id}"),
        cons: uid(cons),
        wall: uid(wall),
        geometry: WinGeom { position: None, width: w, height: h, setback: 0.0 },
    }
}

fn space(id: u128, height: f32, multiplier: f32, inside_tenv: bool) -> Space {
    Space { id: uid(id), name: format!("S{id}"), multiplier, inside_tenv, height, ..Default::default() }
}

/// Empty new building with a 0.30 m wall construction (900), a 0.10 m one (901) and a window
/// construction with C_100 = 27 (800)
fn base() -> Model {
    let mut m = Model::default();
    m.meta.is_new_building = true;
    m.meta.n50_test_ach = None;
    m.cons.wallcons.push(WallCons { id: uid(900), name: "c30".into(), layers: vec![Layer { material: uid(950), e: 0.3 }], absorptance: 0.6 });
    m.cons.wallcons.push(WallCons { id: uid(901), name: "c10".into(), layers: vec![Layer { material: uid(950), e: 0.1 }], absorptance: 0.6 });
    m.cons.wincons.push(WinCons { id: uid(800), name: "w27".into(), glass: uid(1), frame: uid(2), f_f: 0.2, delta_u: 0.0, g_glshwi: None, c_100: 27.0 });
    m
}


fn two_storeys(slab_owner_is_lower_space: bool) -> Model {
    let mut m = base();
    m.spaces.push(space(1, 3.0, 1.0, true));
    m.spaces.push(space(2, 3.0, 1.0, true));
    // lower space: ground floor + 4 exterior walls
    m.walls.push(wall(10, 1, BoundaryType::GROUND, 180.0, 0.0, 5.0, 4.0, 900));
    m.walls.push(wall(12, 1, BoundaryType::EXTERIOR, 90.0, 0.0, 5.0, 3.0, 900));
    m.walls.push(wall(13, 1, BoundaryType::EXTERIOR, 90.0, 90.0, 4.0, 3.0, 900));
    m.walls.push(wall(14, 1, BoundaryType::EXTERIOR, 90.0, 180.0, 5.0, 3.0, 900));
    m.walls.push(wall(15, 1, BoundaryType::EXTERIOR, 90.0, -90.0, 4.0, 3.0, 900));
    // slab between both spaces (0.30 m), declared once
    let mut slab = if slab_owner_is_lower_space {
        wall(11, 1, BoundaryType::INTERIOR, 0.0, 0.0, 5.0, 4.0, 900)
    } else {
        wall(11, 2, BoundaryType::INTERIOR, 180.0, 0.0, 5.0, 4.0, 900)
    };
    slab.next_to = Some(uid(if slab_owner_is_lower_space { 2 } else { 1 }));
    m.walls.push(slab);
    // upper space: roof (0.30 m) + 4 exterior walls
    m.walls.push(wall(21, 2, BoundaryType::EXTERIOR, 0.0, 0.0, 5.0, 4.0, 900));
    m.walls.push(wall(22, 2, BoundaryType::EXTERIOR, 90.0, 0.0, 5.0, 3.0, 900));
    m.walls.push(wall(23, 2, BoundaryType::EXTERIOR, 90.0, 90.0, 4.0, 3.0, 900));
    m.walls.push(wall(24, 2, BoundaryType::EXTERIOR, 90.0, 180.0, 5.0, 3.0, 900));
    m.walls.push(wall(25, 2, BoundaryType::EXTERIOR, 90.0, -90.0, 4.0, 3.0, 900));
    m
}

// Ao = roof 20 + 8 walls (2 x (15 + 12 + 15 + 12)) = 128 m2, no windows
// V = 2 spaces x 20 m2 x (3 - 0.30) = 108 m3
// n50_ref = 0.629 x 16 x 128 / 108 = 11.928
const EXPECTED: f32 = 0.629 * 16.0 * 128.0 / 108.0;

#[test]
fn slab_declared_from_upper_space() {
    let d = two_storeys(false).energy_indicators().n50_data;
    println!("slab owned by upper space: vol={} n50_ref={}", d.vol, d.n50_ref);
    assert!((d.n50_ref - EXPECTED).abs() <= 0.01, "expected {EXPECTED}, got {}", d.n50_ref);
}

#[test]
fn slab_declared_from_lower_space() {
    let d = two_storeys(true).energy_indicators().n50_data;
    println!("slab owned by lower space: vol={} n50_ref={}", d.vol, d.n50_ref);
    assert!((d.walls_a - 128.0).abs() < 0.001);
    assert!((d.vol - 108.0).abs() <= 0.01, "V expected 108, got {}", d.vol);
    assert!((d.n50_ref - EXPECTED).abs() <= 0.01, "expected {EXPECTED}, got {}", d.n50_ref);
    assert!((d.n50 - EXPECTED).abs() <= 0.01, "expected {EXPECTED}, got {}", d.n50);
}
