// C20 finding 1 -- embedded MONTHLYRADDATA tables are mirrored east <-> west
//
// Clause: "for every climate zone and orientation class the embedded ... monthly tables exist, are
//   non-negative and - for the zone whose weather file is shipped - equal what the radiation model
//   computes from that file to table precision."
//
// Input: zone D3 (the zone of the shipped climate/src/zonaD3.met), albedo 0.2, the 9 orientation
//   classes. The model's azimuth convention (climate/src/solar.rs:285 "deviation from south, E+, W-",
//   bemodel WallGeom::azimuth "S=0, E=+90, W=-90", bemodel `Orientation::from(f32)`: +90 -> E) gives the
//   class azimuths HZ=(0,0) S=0 SE=+45 E=+90 NE=+135 N=180 NW=-135 W=-90 SW=-45 (tilt 90).
//
// Expected: table entry (D3, E).dir == monthly sums of radiation_for_surface(tilt 90, azimuth +90)
//   over the 8760 hours of zonaD3.met, to 0.01 kWh/m2 (same for the other classes).
// Actual: the entries labelled E, NE, SE hold the sums of the W, NW, SW facing surfaces and vice versa:
//     D3/E  dir (table)   = [16.97, 29.11, 43.32, 48.05, 67.80, 68.29, 79.24, 75.13, 59.75, 36.49, 21.78, 17.53]
//     model az=+90 (east) = [21.32, 29.67, 42.33, 51.67, 58.72, 68.65, 79.70, 74.22, 57.53, 40.44, 22.97, 15.30]
//   max |table - model| = 9.08 kWh/m2 (E, May), 6.9 (SE/SW), 5.9 (NE/NW); HZ, S and N agree to 0.005.
//   The table stores gamma = -90 for E and +90 for W, and bemodel's own `Orientation::from(entry.gamma)`
//   returns W for the entry labelled E (same mirror for the 6 non-symmetric classes in all 32 zones).
//   An independent beam-only computation that uses the sun azimuth/zenith columns of the .met file
//   (no library geometry) confirms which side is physically east: in May the east facade gets LESS
//   beam than the west one in this file, while the table says E (67.80) > W (58.72).
//
// Cause: climate/src/lib.rs:14-25 ORIENTATIONS pairs the name "E" with azimuth -90.0 and "W" with +90.0
//   (NE -135, SE -45, SW +45, NW +135), but radiation_for_surface / angle_sol_surf
//   (climate/src/solar.rs:321-344) take the surface azimuth east-positive; met_monthly_data
//   (climate/src/met.rs:268-295) therefore computes the west facade for the name "E", and the generated
//   table bemodel/src/climatedata/monthlyraddata.rs (gamma fields, e.g. lines 5672-5674 and 5756-5758
//   for D3) carries the mirrored data. Consumers look the table up by `Orientation` obtained from the
//   wall azimuth (+90 -> E), e.g. total_radiation_in_july_by_orientation (climatedata/mod.rs:26-34).
//
// Minimal fix: flip the sign of the azimuths in climate::ORIENTATIONS (E=+90, SE=+45, NE=+135, W=-90,
//   SW=-45, NW=-135) and regenerate the table, or, equivalently, swap the `orientation` labels
//   E<->W, NE<->NW, SE<->SW (and negate gamma) in monthlyraddata.rs; fix the gamma doc comment.
//
// Goes to: bemodel/tests/demo_1.rs
// Run:     cd /tmp/seed-h20 && cargo test -p bemodel --offline -j 4 --test demo_1

use bemodel::climatedata::{ClimateZone, MONTHLYRADDATA};
use bemodel::Orientation;
use climate::met::{parsemet, period_radiation_for_surface, MetData};

const MET: &str = include_str!("../../climate/src/zonaD3.met");

/// Monthly sums (kWh/m2) of the radiation model for a surface, accumulated here in f64
fn monthly(met: &MetData, tilt: f32, azimuth: f32) -> (Vec<f64>, Vec<f64>) {
    let r = period_radiation_for_surface(&met.data, met.meta.latitude, tilt, azimuth, 0.2);
    assert_eq!(r.len(), 8760);
    let mut dir = vec![0.0f64; 12];
    let mut dif = vec![0.0f64; 12];
    for d in r {
        dir[(d.month - 1) as usize] += d.dir as f64 / 1000.0;
        dif[(d.month - 1) as usize] += d.dif as f64 / 1000.0;
    }
    (dir, dif)
}

/// Class azimuth in the model's convention (S=0, E=+90, W=-90), tilt
fn class_surface(o: Orientation) -> (f32, f32) {
    match o {
        Orientation::HZ => (0.0, 0.0),
        Orientation::S => (90.0, 0.0),
        Orientation::SE => (90.0, 45.0),
        Orientation::E => (90.0, 90.0),
        Orientation::NE => (90.0, 135.0),
        Orientation::N => (90.0, 180.0),
        Orientation::NW => (90.0, -135.0),
        Orientation::W => (90.0, -90.0),
        Orientation::SW => (90.0, -45.0),
    }
}

#[test]
fn monthly_tables_match_model_for_shipped_zone() {
    let met = parsemet(MET).unwrap();
    assert_eq!(met.meta.zc, "D3");

    // The convention used above is the one of the code base itself: bemodel classifies +90 as E ...
    for o in [
        Orientation::S,
        Orientation::SE,
        Orientation::E,
        Orientation::NE,
        Orientation::N,
        Orientation::NW,
        Orientation::W,
        Orientation::SW,
    ] {
        assert_eq!(Orientation::from(class_surface(o).1), o);
    }
    // ... and the .met file itself (sun azimuth column, already sign-flipped to E+ by the parser) has
    // the sun at positive azimuth in the morning, i.e. positive azimuth == east.
    assert!(met
        .data
        .iter()
        .filter(|d| d.zenith < 85.0 && d.hour <= 11.0)
        .all(|d| d.azimuth > 0.0));

    // Independent physical cross-check (beam only, sun position taken from the .met columns):
    // beam on a vertical facade = (dir_hor / cos(zenith)) * sin(zenith) * cos(sun_az - facade_az)
    let beam_may = |facade_az: f64| -> f64 {
        met.data
            .iter()
            .filter(|d| d.month == 5 && d.zenith < 85.0)
            .map(|d| {
                let z = (d.zenith as f64).to_radians();
                let rel = (d.azimuth as f64 - facade_az).to_radians();
                (d.rdirhor as f64 / z.cos() * z.sin() * rel.cos()).max(0.0) / 1000.0
            })
            .sum()
    };
    let (beam_e, beam_w) = (beam_may(90.0), beam_may(-90.0));
    println!("May beam-only, from .met sun columns: east {:.2} west {:.2} kWh/m2", beam_e, beam_w);

    let table = MONTHLYRADDATA.lock().unwrap().clone();
    let d3: Vec<_> = table.iter().filter(|e| e.zone == ClimateZone::D3).collect();
    assert_eq!(d3.len(), 9);

    let e_tab = d3.iter().find(|e| e.orientation == Orientation::E).unwrap();
    let w_tab = d3.iter().find(|e| e.orientation == Orientation::W).unwrap();
    println!("May table dir: E {} W {}", e_tab.dir[4], w_tab.dir[4]);

    let mut failures = vec![];
    for e in &d3 {
        let (tilt, az) = class_surface(e.orientation);
        let (dir, dif) = monthly(&met, tilt, az);
        for m in 0..12 {
            // table precision is 0.01 kWh/m2; allow half a unit plus f32 accumulation slack
            if (dir[m] - e.dir[m] as f64).abs() > 0.011 {
                failures.push(format!(
                    "D3 {:?} month {} dir: table {} model {:.2}",
                    e.orientation,
                    m + 1,
                    e.dir[m],
                    dir[m]
                ));
            }
            if (dif[m] - e.dif[m] as f64).abs() > 0.011 {
                failures.push(format!(
                    "D3 {:?} month {} dif: table {} model {:.2}",
                    e.orientation,
                    m + 1,
                    e.dif[m],
                    dif[m]
                ));
            }
        }
    }
    // ordering check against the independent beam-only figure
    if (beam_e < beam_w) != (e_tab.dir[4] < w_tab.dir[4]) {
        failures.push(format!(
            "May: .met sun columns give beam east {:.2} vs west {:.2}, table says E {} vs W {}",
            beam_e, beam_w, e_tab.dir[4], w_tab.dir[4]
        ));
    }
    assert!(
        failures.is_empty(),
        "{} table cells differ from the radiation model:\n{}",
        failures.len(),
        failures.join("\n")
    );
}
