// C20 finding 3 -- incidence angle is NaN (and the beam is dropped) for a surface that faces the sun
//
// Clause: "the incidence angle on a surface is the angle between the sun direction and the surface's
//   outward normal under the model's tilt/azimuth convention" (all tilts/azimuths); consequence on
//   the radiation model: the beam term on the surface that faces the sun squarely is 0.
//
// Input: latitude 40.68333 (zone D3), nday 1, solar hour 10 (declination -23.067087, hour angle 37.5);
//   sun altitude 17.343887, sun azimuth 35.92797; surface tilt = 90 - altitude = 72.65611,
//   surface azimuth = 35.92797 (normal pointing at the sun). Horizontal input dir 500, dif 100 W/m2.
//   119 of the (nday 1..365, hour 5..20) combinations at this latitude behave the same way, as do
//   ~8% of the points of the 0.5 degree (lat, dec, hour angle) grid.
//
// Expected: incidence angle 0 degrees (within 0.1 degree); direct irradiance on the surface
//   >= beam normal irradiance = 500 / sin(17.34 deg) = 1677 W/m2 (the neighbouring tilt 73.66 gives 1772).
// Actual: angle_sol_surf(...) = NaN; radiation_for_surface(...).dir = 0.0
//
// Cause: climate/src/solar.rs:338-343: the dot product of the two unit vectors is summed in f32 and can be
//   1.0000001 (or -1.0000001 for the opposite surface); acosd() of that is NaN. I_dir (solar.rs:447-449)
//   turns it into f32::max(0.0, NaN) = 0.0 and get_diffuse_params (solar.rs:621) into a = 0, so both the beam
//   and the circumsolar terms vanish silently.
//
// Minimal fix: `acosd((...).clamp(-1.0, 1.0))` in angle_sol_surf.
//
// Goes to: climate/tests/demo_3.rs
// Run:     cd /tmp/seed-h20 && cargo test -p climate --offline -j 4 --test demo_3

use climate::solar::*;

/// unit vector (east, north, up) of the sun, f64, hour angle positive in the morning (sun in the east)
fn sun_vec(dec: f64, w: f64, lat: f64) -> [f64; 3] {
    let (d, h, l) = (dec.to_radians(), w.to_radians(), lat.to_radians());
    [
        d.cos() * h.sin(),
        l.cos() * d.sin() - l.sin() * d.cos() * h.cos(),
        l.sin() * d.sin() + l.cos() * d.cos() * h.cos(),
    ]
}

/// outward normal (east, north, up) for tilt (0 up, 90 vertical, 180 down) and azimuth (S=0, E=+90)
fn normal_vec(tilt: f64, az: f64) -> [f64; 3] {
    let (t, a) = (tilt.to_radians(), az.to_radians());
    [t.sin() * a.sin(), -t.sin() * a.cos(), t.cos()]
}

fn incidence_ref(dec: f32, w: f32, lat: f32, tilt: f32, az: f32) -> f64 {
    let s = sun_vec(dec as f64, w as f64, lat as f64);
    let n = normal_vec(tilt as f64, az as f64);
    (s[0] * n[0] + s[1] * n[1] + s[2] * n[2]).clamp(-1.0, 1.0).acos().to_degrees()
}

#[test]
fn incidence_angle_of_sun_facing_surface() {
    let lat = 40.68333_f32;
    let nday = 1;
    let hour = 10.0;
    let dec = declination_from_nday(nday);
    let w = hourangle_from_tsol(hour);
    // sun position computed independently in f64
    let s = sun_vec(dec as f64, w as f64, lat as f64);
    let alt = s[2].asin().to_degrees();
    let saz = s[0].atan2(-s[1]).to_degrees();
    // the surface used in the header (values as produced by the f32 library functions)
    let tilt = 72.65611_f32;
    let az = 35.92797_f32;
    assert!((90.0 - alt - tilt as f64).abs() < 0.01 && (saz - az as f64).abs() < 0.01);

    let expected = incidence_ref(dec, w, lat, tilt, az);
    let actual = angle_sol_surf(dec, w, lat, tilt, az);
    println!("expected incidence {:.5}, actual {}", expected, actual);

    let g = SolarRadiation { dir: 500.0, dif: 100.0 };
    let r = radiation_for_surface(nday, hour, g, lat, tilt, az, 0.2);
    let beam_normal = 500.0 / (alt.to_radians().sin());
    println!("beam normal {:.1} W/m2, model dir on the sun-facing surface {:?}", beam_normal, r);

    let mut failures = vec![];
    if !((actual as f64 - expected).abs() < 0.1) {
        failures.push(format!("incidence angle: expected {:.4}, got {}", expected, actual));
    }
    if !((r.dir as f64) >= 0.99 * beam_normal) {
        failures.push(format!("direct irradiance: expected >= {:.1}, got {}", beam_normal, r.dir));
    }
    assert!(failures.is_empty(), "{}", failures.join("\n"));
}

#[test]
fn incidence_angle_on_grid_for_sun_tracking_and_opposite_surfaces() {
    // 0.5 degree grid of the statement (coarsened to 2.5 degrees to keep the test quick);
    // surfaces: the one whose normal points to the sun and the opposite one
    let mut n_bad = 0usize;
    let mut n = 0usize;
    let mut first = vec![];
    for i in (-130..=130).step_by(5) {
        let lat = i as f32 * 0.5;
        for j in (-45..=45).step_by(5) {
            let dec = j as f32 * 0.5;
            for k in (-355..=355).step_by(5) {
                let w = k as f32 * 0.5;
                let s = sun_vec(dec as f64, w as f64, lat as f64);
                let alt = s[2].asin().to_degrees();
                if alt < 1.0 || alt > 89.0 {
                    continue;
                }
                let saz = s[0].atan2(-s[1]).to_degrees();
                for (tilt, az) in [
                    ((90.0 - alt) as f32, saz as f32),
                    ((90.0 + alt) as f32, (if saz > 0.0 { saz - 180.0 } else { saz + 180.0 }) as f32),
                ] {
                    n += 1;
                    let expected = incidence_ref(dec, w, lat, tilt, az);
                    let actual = angle_sol_surf(dec, w, lat, tilt, az);
                    if !((actual as f64 - expected).abs() < 0.1) {
                        n_bad += 1;
                        if first.len() < 10 {
                            first.push(format!(
                                "lat {} dec {} w {} tilt {} az {}: expected {:.4}, got {}",
                                lat, dec, w, tilt, az, expected, actual
                            ));
                        }
                    }
                }
            }
        }
    }
    assert!(n_bad == 0, "{} of {} incidence angles wrong, e.g.\n{}", n_bad, n, first.join("\n"));
}
