// C20 finding 2 -- sun altitude collapses to 0 (instead of 90) when the sun is at the zenith
//
// Clause: "sun altitude ... agree with spherical astronomy for every latitude, declination and hour with
//   the sun above the horizon" (0.5 degree grid over lat [-66,66] x dec [-23.45,23.45] x hour angle
//   (-180,180)); consequences also break "Radiation on a horizontal surface equals the horizontal
//   input", "a downward-facing surface receives exactly albedo times global horizontal radiation".
//
// Input (grid points): latitude = declination = 4.0 (also -4.0, +-9.5, +-12.0), hour angle 0.
//   Radiation consequence: nday = 83, solar hour 12.5 (hour angle 0), latitude = declination_from_nday(83)
//   (= 1.1659135), horizontal input dir 800 W/m2 + dif 100 W/m2, albedo 0.2
//   (same for nday 1, 23, 29, 53, 112, 135, 159, 223, 233, 234, 241, 252, 269, 276, 317, 323).
//
// Expected: altitude = asin(sin(d)sin(lat)+cos(d)cos(lat)cos(w)) = 90 degrees.
//   horizontal surface: dir+dif = 900 W/m2; downward surface: 0.2*900 = 180 W/m2.
// Actual: altitude_sol_from_data(4.0, 0.0, 4.0) = 0.0  (sun reported ON the horizon at the zenith).
//   radiation_for_surface(83, 12.5, {800,100}, lat, tilt 0, ..) = {dir: 0, dif: 100}  (total 100, not 900)
//   radiation_for_surface(.., tilt 180, ..) = {dir 0, dif 20.00003} (not 180)
//   radiation_for_surface(.., tilt 90, az 0) = {dir 0, dif -250.2} (negative diffuse)
//
// Cause: climate/src/solar.rs:228-235. sin(d)*sin(lat)+cos(d)*cos(lat)*cos(w) is evaluated in f32 and can be
//   1.0000001 when lat == d and w == 0; asin() then returns NaN, and the `match` arm
//   `a_sol if a_sol >= 0.0001 => a_sol, _ => 0.0` maps the NaN to 0.0 (night). Downstream
//   G_sol_b (solar.rs:437-440) then divides the horizontal beam by sin(0.01 deg) and angle_sol_surf
//   (solar.rs:338-343) returns NaN for the same reason, so I_dir = max(0, NaN) = 0.
//
// Minimal fix: clamp the argument before the inverse function:
//   asind((sd*sw + cd*cw*ch).clamp(-1.0, 1.0))   (and the same clamp in angle_sol_surf's acosd).
//
// Goes to: climate/tests/demo_2.rs
// Run:     cd /tmp/seed-h20 && cargo test -p climate --offline -j 4 --test demo_2

use climate::solar::*;

fn altitude_ref(dec: f64, w: f64, lat: f64) -> f64 {
    let (d, h, l) = (dec.to_radians(), w.to_radians(), lat.to_radians());
    (l.sin() * d.sin() + l.cos() * d.cos() * h.cos())
        .clamp(-1.0, 1.0)
        .asin()
        .to_degrees()
}

#[test]
fn altitude_on_half_degree_grid() {
    // whole 0.5 degree grid of the statement; tolerance 0.05 degrees (f32 asin near 90 degrees is
    // only good to ~0.02 degrees, which is not reported here)
    let mut failures = vec![];
    for i in -132..=132 {
        let lat = i as f32 * 0.5;
        for j in -46..=46 {
            let dec = j as f32 * 0.5;
            for k in -359..=359 {
                let w = k as f32 * 0.5;
                let expected = altitude_ref(dec as f64, w as f64, lat as f64);
                if expected <= 0.0 {
                    continue;
                }
                let actual = altitude_sol_from_data(dec, w, lat) as f64;
                if (actual - expected).abs() > 0.05 {
                    failures.push(format!(
                        "lat {} dec {} hour angle {}: expected altitude {:.4}, got {}",
                        lat, dec, w, expected, actual
                    ));
                }
            }
        }
    }
    assert!(failures.is_empty(), "{} grid points wrong:\n{}", failures.len(), failures.join("\n"));
}

#[test]
fn radiation_with_sun_at_zenith() {
    let nday = 83;
    let lat = declination_from_nday(nday); // sun passes through the zenith at solar noon
    let g = SolarRadiation { dir: 800.0, dif: 100.0 };
    let albedo = 0.2;
    // solar noon: hour angle 0  <=> hour 12.5 in this model (hourangle_from_tsol)
    assert_eq!(hourangle_from_tsol(12.5), 0.0);

    let hor = radiation_for_surface(nday, 12.5, g, lat, 0.0, 0.0, albedo);
    let down = radiation_for_surface(nday, 12.5, g, lat, 180.0, 0.0, albedo);
    let vert = radiation_for_surface(nday, 12.5, g, lat, 90.0, 0.0, albedo);
    println!("horizontal {:?}\ndownward {:?}\nvertical south {:?}", hor, down, vert);

    let mut failures = vec![];
    if (hor.dir + hor.dif - 900.0).abs() > 0.5 {
        failures.push(format!("horizontal: expected 900 W/m2, got {}", hor.dir + hor.dif));
    }
    if (down.dir + down.dif - 180.0).abs() > 0.5 {
        failures.push(format!("downward: expected 0.2*900 = 180 W/m2, got {}", down.dir + down.dif));
    }
    if vert.dif < 0.0 || vert.dir < 0.0 {
        failures.push(format!("vertical: negative irradiance {:?}", vert));
    }
    assert!(failures.is_empty(), "{}", failures.join("\n"));
}
