// C20 finding 4 (minor) -- sun azimuth -270 instead of +90 on the equator at the equinox (morning)
//
// Clause: "sun altitude and azimuth agree with spherical astronomy for every latitude, declination and
//   hour with the sun above the horizon" (0.5 degree grid); documented range of the result is
//   [-180, +180], S=0, E+, W- (climate/src/solar.rs:59-61, 252-254).
//
// Input (grid points): latitude 0, declination 0, every hour angle in (0, 90) (morning), e.g. w = 45.
// Expected: azimuth = +90 (sun due east all morning).
// Actual: azimuth_sol_from_data(0, 45, 45, 0) = -270 (outside the documented range; 360 degrees off).
//   The afternoon (w < 0) correctly gives -90. 170 grid points (every w = 5 .. 89.5 at lat = dec = 0; |w| < 5 skipped as ill-conditioned).
//   Equivalent modulo 360, so trigonometric consumers (ray_dir_to_sun) are not affected, but any
//   comparison / classification on the raw value (e.g. |azimuth - surface azimuth|, morning/afternoon
//   tests by sign) is.
//
// Cause: climate/src/solar.rs:268-274. cos_azimaux1 is exactly 0.0 there, so neither
//   `sin >= 0 && cos > 0` nor `cos < 0` matches and the final `else` branch, written for the
//   north-west quadrant (sin < 0), is applied to sin = +1: -(180 + 90) = -270.
//
// Minimal fix: make the first test `cos_azimaux1 >= 0.0` (or compute the azimuth with atan2).
//
// Goes to: climate/tests/demo_4.rs
// Run:     cd /tmp/seed-h20 && cargo test -p climate --offline -j 4 --test demo_4

use climate::solar::*;

#[test]
fn azimuth_on_the_equator_at_equinox() {
    let mut failures = vec![];
    for k in -179..=179 {
        let w = k as f32 * 0.5; // |w| < 90: sun above the horizon
        if w.abs() < 5.0 {
            continue; // within 5 degrees of the zenith the azimuth is ill-conditioned in f32: not reported
        }
        let (d, h, l) = (0.0f64, (w as f64).to_radians(), 0.0f64);
        let east = d.cos() * h.sin();
        let north = l.cos() * d.sin() - l.sin() * d.cos() * h.cos();
        let expected = east.atan2(-north).to_degrees(); // from south, east positive: +90 or -90
        let alt = altitude_sol_from_data(0.0, w, 0.0);
        assert!(alt > 0.0);
        let actual = azimuth_sol_from_data(0.0, w, alt, 0.0);
        if (actual as f64 - expected).abs() > 0.3 {
            failures.push(format!("w {}: expected azimuth {}, got {}", w, expected, actual));
        }
    }
    assert!(failures.is_empty(), "{} grid points wrong:\n{}", failures.len(), failures.join("\n"));
}
