// C07 demo 2 -- the solar factors of a window construction are computed from the catalogue glazing
// instead of the glazing the project declares under the same name.
//
// Clauses violated:
//   "the solar factor without shading is 0.90 times the glazing's normal-incidence factor"
//   "the factor with movable shading is ... the unshaded factor otherwise"
//
// Exact input: the unmodified sample project
//   hulc_tests/tests/00_plurif_s3_v0_d3/00_plurif_s3_v0_d3.ctehexml, which declares
//     "Doble baja emisividad argon" = GLASS-TYPE
//         SHADING-COEF = 0.7411764  (g_gl;n = 0.86 * 0.7411764 = 0.6374; HULC's own
//                                    KyGananciasSolares.txt lists 0.63 for every window)
//         GLASS-CONDUCTANCE = 1.2
//     "ventana tipo" = GAP   GLASS-TYPE = "Doble baja emisividad argon", no TransmisividadJulio
//   converted with hulc2model::collect_hulc_data("tests/00_plurif_s3_v0_d3", false, false).
//
// Expected (from the statement): g_gl;wi = 0.90 * 0.6374 = 0.57; g_gl;sh;wi = g_gl;wi = 0.57
//   (no user value); q_sol;jul gglshwi_mean = 0.57.
// Actual: the model's glass has g_gln = 0.80 (catalogue SHADING-COEF 0.930232558 * 0.86), so
//   g_gl;wi = g_gl;sh;wi = 0.72 and q_soljul_data.gglshwi_mean = 0.72 (q_sol;jul is 26 % too high).
//
// Cause: hulc/src/ctehexml/mod.rs:62-66 (parse_with_catalog): `db.glasses.extend(catdb.glasses)`
//   (HashMap::extend) overwrites the project's glass with the catalogue glass of the same name
//   (same for materials, wallcons, wincons and frames; see demo_1 for the wincons case).
//   bemodel/src/energy/radiation.rs:304-313 then applies 0.90 to the wrong g_gl;n.
//
// Minimal fix: keep the project's definition when both exist:
//       for (k, v) in catdb.glasses { db.glasses.entry(k).or_insert(v); }
//   (same for the other four maps).
//
// Goes to: hulc_tests/tests/demo_2.rs
// Run:     cd /tmp/seed-h07 && cargo test -p hulc_tests --offline -j 4 --test demo_2

use hulc2model::collect_hulc_data;

/// Reads the float attribute `attr` of the BDL block `"name" = kind` straight from the project text
/// (independent of the hulc parser)
fn bdl_attr(text: &str, name: &str, kind: &str, attr: &str) -> Option<f64> {
    let header = format!("\"{}\" = {}", name, kind);
    let mut inside = false;
    for line in text.lines() {
        let l = line.trim();
        if !inside {
            if l == header {
                inside = true;
            }
            continue;
        }
        if l == ".." {
            return None;
        }
        if let Some((k, v)) = l.split_once('=') {
            if k.trim() == attr {
                return v.trim().parse::<f64>().ok();
            }
        }
    }
    None
}

#[test]
fn c07_solar_factor_uses_the_project_glazing() {
    let dir = "tests/00_plurif_s3_v0_d3";
    let bytes = std::fs::read(format!("{}/00_plurif_s3_v0_d3.ctehexml", dir)).unwrap();
    let text = String::from_utf8_lossy(&bytes);
    let gap = "ventana tipo";
    let glass = "Doble baja emisividad argon";

    // Declared by the project file
    let sc = bdl_attr(&text, glass, "GLASS-TYPE", "SHADING-COEF").unwrap();
    assert!((sc - 0.7411764).abs() < 1e-7);
    assert!(bdl_attr(&text, gap, "GAP", "TransmisividadJulio").is_none());
    // g_gl;n = SHADING-COEF * 0.86 (reference clear glass); HULC lists 0.63 in KyGananciasSolares.txt
    let g_gln = sc * 0.86;
    let kyg = std::fs::read(format!("{}/KyGananciasSolares.txt", dir)).unwrap();
    let kyg = String::from_utf8_lossy(&kyg);
    let kyg_ggln: f64 = kyg
        .lines()
        .find(|l| l.starts_with("Ventana;P01_E01_PE001_V;"))
        .and_then(|l| l.split(';').nth(6))
        .and_then(|v| v.trim().parse().ok())
        .unwrap();
    assert!((g_gln - kyg_ggln).abs() < 0.01);

    // Statement
    let g_glwi_expected = 0.90 * g_gln; // 0.5737
    let g_glshwi_expected = g_glwi_expected; // no user value

    // Code under test
    let model = collect_hulc_data(dir, false, false).unwrap();
    let wc = model.cons.wincons.iter().find(|c| c.name == gap).unwrap();
    let g_glwi = wc.g_glwi(&model.cons).expect("glass resolves") as f64;
    let g_glshwi = wc.g_glshwi(&model.cons).unwrap() as f64;
    let ind = model.energy_indicators();
    let q_gsh = ind.q_soljul_data.gglshwi_mean as f64;

    let mut errors = vec![];
    if (g_glwi - g_glwi_expected).abs() > 0.0051 {
        errors.push(format!(
            "g_gl;wi of '{}': expected {:.2} (= 0.90 * {:.4}), got {:.2} (model glass g_gln = {:?})",
            gap,
            g_glwi_expected,
            g_gln,
            g_glwi,
            model.cons.get_glass(wc.glass).map(|g| g.g_gln)
        ));
    }
    if (g_glshwi - g_glshwi_expected).abs() > 0.0051 {
        errors.push(format!(
            "g_gl;sh;wi of '{}': expected {:.2}, got {:.2}",
            gap, g_glshwi_expected, g_glshwi
        ));
    }
    if (q_gsh - g_glshwi_expected).abs() > 0.0051 {
        errors.push(format!(
            "q_sol;jul gglshwi_mean: expected {:.2}, got {:.2}",
            g_glshwi_expected, q_gsh
        ));
    }
    assert!(errors.is_empty(), "\n{}", errors.join("\n"));
}
