// C07 demo 1 -- the U-value and the shaded solar factor of a project-declared window construction
// ignore the project's own dU and movable-shading value when the construction has the name of a
// LIDER catalogue entry.
//
// Clauses violated:
//   "For every window construction whose glazing and frame resolve, the U-value is
//    (1 + dU/100) * (Ff*Uframe + (1-Ff)*Uglass) to two decimals"
//   "the factor with movable shading is the user value when given"
//
// Exact input: the unmodified sample project hulc_tests/tests/cubo/cubo.ctehexml, which declares
//     "Doble -- Mrpt - Gris claro" = GAP
//         GLASS-TYPE = "Doble"  (GLASS-CONDUCTANCE = 3.3, SHADING-COEF = 0.9302326)
//         NAME-FRAME = "Mrpt - Gris claro"  (FRAME-CONDUCT = 3.2)
//         PORCENTAGE = 10  (Ff = 0.10)
//         porcentajeIncrementoU = 10  (dU = 10 %)
//         TransmisividadJulio = 1.0  (user g_gl;sh;wi = 1.0)
//   converted with hulc2model::collect_hulc_data("tests/cubo", false, false)
//   (same result with bemodel::Model::try_from(&hulc::ctehexml::parse_with_catalog_from_path(..)?)).
//
// Expected (from the statement): U = 1.10 * (0.1*3.2 + 0.9*3.3) = 1.10 * 3.29 = 3.619 -> 3.62 W/m2K
//   (HULC's own KyGananciasSolares.txt of that project also lists 3.62 for the window);
//   g_gl;sh;wi = 1.00 (user value); K windows u_mean = 3.62.
// Actual: WinCons.delta_u = 0, g_glshwi = None -> U = 3.29 W/m2K, g_gl;sh;wi = 0.72 (= g_gl;wi),
//   K_data.windows.u_mean = 3.29, q_soljul_data.gglshwi_mean = 0.72.
//
// Cause: hulc/src/ctehexml/mod.rs:62-66 (parse_with_catalog):
//       db.wincons.extend(catdb.wincons);   (and likewise materials, wallcons, glasses, frames)
//   HashMap::extend overwrites the project's entries with the catalogue entries of the same name.
//   The catalogue GAP blocks carry neither porcentajeIncrementoU nor TransmisividadJulio, so the
//   project's values are replaced by dU = 0 (hulc/src/bdl/db/windowcons.rs:125-127, unwrap_or_default)
//   and gglshwi = None (windowcons.rs:128). The formula code itself
//   (bemodel/src/energy/transmittance.rs:273-279, radiation.rs:304-313) is applied to the wrong data.
//
// Minimal fix: let the project win over the catalogue, i.e. only add catalogue entries whose name
//   the project does not declare:
//       for (k, v) in catdb.wincons { db.wincons.entry(k).or_insert(v); }
//   (same for materials, wallcons, glasses and frames).
//
// Goes to: hulc_tests/tests/demo_1.rs
// Run:     cd /tmp/seed-h07 && cargo test -p hulc_tests --offline -j 4 --test demo_1

use hulc2model::collect_hulc_data;

/// Reads the float attribute `attr` of the BDL block `"name" = kind` straight from the project text
/// (independent of the hulc parser)
fn bdl_attr(text: &str, name: &str, kind: &str, attr: &str) -> Option<f64> {
    let header = format!("\"{}\" = {}", name, kind);
    let mut inside = false;
    for line in text.lines() {
        let l = line.trim();
        if !inside {
            if l == header {
                inside = true;
            }
            continue;
        }
        if l == ".." {
            return None;
        }
        if let Some((k, v)) = l.split_once('=') {
            if k.trim() == attr {
                return v.trim().parse::<f64>().ok();
            }
        }
    }
    None
}

fn round2(v: f64) -> f64 {
    (v * 100.0).round() / 100.0
}

#[test]
fn c07_project_du_and_shading_value_are_used() {
    let bytes = std::fs::read("tests/cubo/cubo.ctehexml").unwrap();
    let text = String::from_utf8_lossy(&bytes);
    let gap = "Doble -- Mrpt - Gris claro";

    // Declared by the project file
    let ff = bdl_attr(&text, gap, "GAP", "PORCENTAGE").unwrap() / 100.0;
    let du = bdl_attr(&text, gap, "GAP", "porcentajeIncrementoU").unwrap();
    let g_user = bdl_attr(&text, gap, "GAP", "TransmisividadJulio").unwrap();
    let u_glass = bdl_attr(&text, "Doble", "GLASS-TYPE", "GLASS-CONDUCTANCE").unwrap();
    let u_frame = bdl_attr(&text, "Mrpt - Gris claro", "NAME-FRAME", "FRAME-CONDUCT").unwrap();
    assert_eq!((ff, du, g_user, u_glass, u_frame), (0.1, 10.0, 1.0, 3.3, 3.2));

    // Statement
    let u_expected = round2((1.0 + du / 100.0) * (ff * u_frame + (1.0 - ff) * u_glass));
    assert_eq!(u_expected, 3.62);
    let gsh_expected = g_user;

    // Code under test
    let model = collect_hulc_data("tests/cubo", false, false).unwrap();
    let wc = model.cons.wincons.iter().find(|c| c.name == gap).unwrap();
    let u = wc.u_value(&model.cons).expect("glass and frame resolve") as f64;
    let gsh = wc.g_glshwi(&model.cons).unwrap() as f64;
    let ind = model.energy_indicators();
    let k_win_u = ind.K_data.windows.u_mean.unwrap() as f64;
    let q_gsh = ind.q_soljul_data.gglshwi_mean as f64;

    let mut errors = vec![];
    if (u - u_expected).abs() > 0.0051 {
        errors.push(format!(
            "U of '{}': expected {:.2} (dU = {} %), got {:.2} (model delta_u = {})",
            gap, u_expected, du, u, wc.delta_u
        ));
    }
    if (gsh - gsh_expected).abs() > 0.0051 {
        errors.push(format!(
            "g_gl;sh;wi of '{}': expected user value {:.2}, got {:.2} (model g_glshwi = {:?})",
            gap, gsh_expected, gsh, wc.g_glshwi
        ));
    }
    if (k_win_u - u_expected).abs() > 0.0051 {
        errors.push(format!(
            "K windows u_mean: expected {:.2}, got {:.2}",
            u_expected, k_win_u
        ));
    }
    if (q_gsh - gsh_expected).abs() > 0.0051 {
        errors.push(format!(
            "q_sol;jul gglshwi_mean: expected {:.2}, got {:.2}",
            gsh_expected, q_gsh
        ));
    }
    assert!(errors.is_empty(), "\n{}", errors.join("\n"));
}
