// C03 finding 6: the AZIMUTH of a FLOOR is silently ignored
// Goes to: bemodel/tests/demo_6.rs   Run: cd /tmp/seed-h03 && cargo test -p bemodel --offline -j 4 --test demo_6
#![allow(dead_code)]
// ---- helpers (shared by all demos; copied verbatim into each file) ----
use bemodel::{point, Model, Point3, WallGeom};
use nalgebra::{Rotation3, Vector3};
use std::convert::TryFrom;

/// Text of the real project hulc_tests/tests/cubo/cubo.ctehexml (10 x 10 x 3 m box, one space)
fn cubo_text() -> String {
    let bytes = std::fs::read("../hulc_tests/tests/cubo/cubo.ctehexml").unwrap();
    match String::from_utf8(bytes.clone()) {
        Ok(s) => s,
        Err(_) => bytes.iter().map(|&b| b as char).collect(),
    }
}

fn convert(text: &str) -> Model {
    let data = hulc::ctehexml::parse_with_catalog(text).unwrap();
    Model::try_from(&data).unwrap()
}

/// Replace that must change the text (guards against silently not editing the project)
fn edit(text: &str, from: &str, to: &str) -> String {
    assert!(text.contains(from), "pattern not found: {}", from);
    text.replace(from, to)
}

/// Global corner points of an element: T(position) * Rz(azimuth) * Rx(tilt) * polygon
fn global_corners(g: &WallGeom) -> Vec<Point3> {
    let m = g.to_global_coords_matrix().unwrap();
    g.polygon.iter().map(|p| m * point![p.x, p.y, 0.0]).collect()
}

/// Counter-clockwise rotation about Z, degrees
fn rz(deg: f32) -> Rotation3<f32> {
    Rotation3::from_axis_angle(&Vector3::z_axis(), deg.to_radians())
}

/// Largest distance from an expected corner to the nearest actual corner (order independent)
fn max_corner_error(expected: &[Point3], actual: &[Point3]) -> f32 {
    expected
        .iter()
        .map(|e| actual.iter().map(|a| (a - e).norm()).fold(f32::MAX, f32::min))
        .fold(0.0, f32::max)
}

/// Sets AZIMUTH/X/Y of the only SPACE of cubo
fn with_space_placement(text: &str, x: f32, y: f32, azimuth: f32) -> String {
    edit(
        text,
        "            SHAPE             = POLYGON \n            POLYGON           = \"P01_E01_Pol2\"",
        &format!("            SHAPE             = POLYGON \n            X = {}\n            Y = {}\n            AZIMUTH = {}\n            POLYGON           = \"P01_E01_Pol2\"", x, y, azimuth),
    )
}

/// Sets the global deviation from north (BUILD-PARAMETERS AZIMUTH)
fn with_global_deviation(text: &str, gd: f32) -> String {
    edit(text, "AZIMUTH   = 0.000000", &format!("AZIMUTH   = {:.6}", gd))
}

/// Replaces the two polygon-defined roofs of cubo by one ROOF with LOCATION = TOP (taken from the space outline).
/// `children` is appended after the roof's CONSTRUCTION block (e.g. a WINDOW)
fn with_top_roof(text: &str, children: &str) -> String {
    let i = text.find("            \"P01_E01C001\" = ROOF").unwrap();
    let j = text.find("$ | CONDICIONES OPERACIONALES |").unwrap();
    let j = text[..j].rfind("$\n$ +").unwrap();
    let roof = format!(
        r#"            "P01_E01C001" = ROOF
                  ABSORPTANCE   =            0.6
                  CONSTRUCTION  = "PIV por defecto"  
                  LOCATION      = TOP
                        ..
                  "PIV por defecto" =  CONSTRUCTION
                        TYPE   = LAYERS  
                        LAYERS = "PIV por defecto" 
                        ..
{}"#,
        children
    );
    format!("{}{}{}", &text[..i], roof, &text[j..])
}
// ---- end helpers ----

/// FLOOR P01 with AZIMUTH = 30: in BDL the floor coordinate system is turned 30 deg clockwise within the building,
/// so everything in the floor turns with it (a FLOOR with X or Y is rejected by the parser; AZIMUTH is just dropped).
#[test]
fn floor_azimuth_turns_its_spaces() {
    let fa = 30.0;
    let t = edit(&cubo_text(), "      FLOOR-HEIGHT  =              3\n", "      FLOOR-HEIGHT  =              3\n      AZIMUTH = 30\n");
    let m = convert(&t);
    let w = m.get_wall_by_name("P01_E01_PE001").unwrap();
    let expected = vec![rz(-fa) * point![0.0, 0.0, 0.0], rz(-fa) * point![10.0, 0.0, 0.0], rz(-fa) * point![10.0, 0.0, 3.0], rz(-fa) * point![0.0, 0.0, 3.0]];
    let actual = global_corners(&w.geometry);
    println!("expected {:?}\nactual {:?}", expected, actual);
    let err = max_corner_error(&expected, &actual);
    assert!(err < 0.01, "wall is {} m away: the floor azimuth was ignored (wall azimuth {} instead of -30)", err, w.geometry.azimuth);
}
