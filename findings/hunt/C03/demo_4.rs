// C03 finding 4: side fins of a window in a non-vertical wall are not perpendicular to the wall (they lean sideways)
// Goes to: bemodel/tests/demo_4.rs   Run: cd /tmp/seed-h03 && cargo test -p bemodel --offline -j 4 --test demo_4
#![allow(dead_code)]
// ---- helpers (shared by all demos; copied verbatim into each file) ----
use bemodel::{point, Model, Point3, WallGeom};
use nalgebra::{Rotation3, Vector3};
use std::convert::TryFrom;

/// Text of the real project hulc_tests/tests/cubo/cubo.ctehexml (10 x 10 x 3 m box, one space)
fn cubo_text() -> String {
    let bytes = std::fs::read("../hulc_tests/tests/cubo/cubo.ctehexml").unwrap();
    match String::from_utf8(bytes.clone()) {
        Ok(s) => s,
        Err(_) => bytes.iter().map(|&b| b as char).collect(),
    }
}

fn convert(text: &str) -> Model {
    let data = hulc::ctehexml::parse_with_catalog(text).unwrap();
    Model::try_from(&data).unwrap()
}

/// Replace that must change the text (guards against silently not editing the project)
fn edit(text: &str, from: &str, to: &str) -> String {
    assert!(text.contains(from), "pattern not found: {}", from);
    text.replace(from, to)
}

/// Global corner points of an element: T(position) * Rz(azimuth) * Rx(tilt) * polygon
fn global_corners(g: &WallGeom) -> Vec<Point3> {
    let m = g.to_global_coords_matrix().unwrap();
    g.polygon.iter().map(|p| m * point![p.x, p.y, 0.0]).collect()
}

/// Counter-clockwise rotation about Z, degrees
fn rz(deg: f32) -> Rotation3<f32> {
    Rotation3::from_axis_angle(&Vector3::z_axis(), deg.to_radians())
}

/// Largest distance from an expected corner to the nearest actual corner (order independent)
fn max_corner_error(expected: &[Point3], actual: &[Point3]) -> f32 {
    expected
        .iter()
        .map(|e| actual.iter().map(|a| (a - e).norm()).fold(f32::MAX, f32::min))
        .fold(0.0, f32::max)
}

/// Sets AZIMUTH/X/Y of the only SPACE of cubo
fn with_space_placement(text: &str, x: f32, y: f32, azimuth: f32) -> String {
    edit(
        text,
        "            SHAPE             = POLYGON \n            POLYGON           = \"P01_E01_Pol2\"",
        &format!("            SHAPE             = POLYGON \n            X = {}\n            Y = {}\n            AZIMUTH = {}\n            POLYGON           = \"P01_E01_Pol2\"", x, y, azimuth),
    )
}

/// Sets the global deviation from north (BUILD-PARAMETERS AZIMUTH)
fn with_global_deviation(text: &str, gd: f32) -> String {
    edit(text, "AZIMUTH   = 0.000000", &format!("AZIMUTH   = {:.6}", gd))
}

/// Replaces the two polygon-defined roofs of cubo by one ROOF with LOCATION = TOP (taken from the space outline).
/// `children` is appended after the roof's CONSTRUCTION block (e.g. a WINDOW)
fn with_top_roof(text: &str, children: &str) -> String {
    let i = text.find("            \"P01_E01C001\" = ROOF").unwrap();
    let j = text.find("$ | CONDICIONES OPERACIONALES |").unwrap();
    let j = text[..j].rfind("$\n$ +").unwrap();
    let roof = format!(
        r#"            "P01_E01C001" = ROOF
                  ABSORPTANCE   =            0.6
                  CONSTRUCTION  = "PIV por defecto"  
                  LOCATION      = TOP
                        ..
                  "PIV por defecto" =  CONSTRUCTION
                        TYPE   = LAYERS  
                        LAYERS = "PIV por defecto" 
                        ..
{}"#,
        children
    );
    format!("{}{}{}", &text[..i], roof, &text[j..])
}
// ---- end helpers ----

/// South wall of cubo redefined by polygon (10 x 3) with TILT = 60 (leaning back), AZIMUTH = 180 (BDL, south).
/// Its window (x=3, y=1, w=2, h=1) gets a left fin: A=0, B=0, height 1, depth 0.5.
/// BDL: the fin starts at the top-left corner of the window, runs 1 m down the left jamb (in the wall plane)
/// and sticks out 0.5 m along the outward normal of the wall.
#[test]
fn left_fin_on_tilted_wall() {
    let t = edit(
        &cubo_text(),
        "                  LOCATION      = SPACE-V1  \n",
        "                  X = 0\n                  Y = 0\n                  Z = 0\n                  AZIMUTH = 180\n                  TILT = 60\n                  POLYGON = \"PE001_pol\"\n",
    );
    let t = edit(
        &t,
        "\"P01_E01C002_Poligono1\" = POLYGON",
        "\"PE001_pol\" = POLYGON\n    V1   =( 0, 0 )\n    V2   =( 10, 0 )\n    V3   =( 10, 3 )\n    V4   =( 0, 3 )\n    ..\n\"P01_E01C002_Poligono1\" = POLYGON",
    );
    let t = edit(&t, "LEFT-FIN-H     =              0", "LEFT-FIN-H     =              1");
    let t = edit(&t, "LEFT-FIN-D     =              0", "LEFT-FIN-D     =              0.5");
    let m = convert(&t);

    // Independent geometry: wall faces south (outward horizontal direction -Y), leaning back 30 deg from vertical.
    // Unit vectors of the wall: ex along the wall (east), ey up the slope, n outward normal
    let tilt = 60.0f32.to_radians();
    let ex = Vector3::new(1.0, 0.0, 0.0);
    let ey = Vector3::new(0.0, tilt.cos(), tilt.sin());
    let n = Vector3::new(0.0, -tilt.sin(), tilt.cos());
    let origin = point![0.0, 0.0, 0.0];
    let top_left = origin + ex * 3.0 + ey * 2.0;
    let expected = vec![top_left, top_left - ey * 1.0, top_left - ey * 1.0 + n * 0.5, top_left + n * 0.5];

    // Sanity: the wall itself is where the oracle says
    let w = m.get_wall_by_name("P01_E01_PE001").unwrap();
    let wexp = vec![origin, origin + ex * 10.0, origin + ex * 10.0 + ey * 3.0, origin + ey * 3.0];
    assert!(max_corner_error(&wexp, &global_corners(&w.geometry)) < 0.01);

    let fin = m.shades.iter().find(|s| s.name == "P01_E01_PE001_V_left_fin").unwrap();
    let actual = global_corners(&fin.geometry);
    println!("expected {:?}\nactual {:?}", expected, actual);
    let err = max_corner_error(&expected, &actual);
    assert!(err < 0.01, "left fin corners are {} m away from their definition", err);
}

/// Control: with TILT = 90 the same oracle agrees with the conversion
#[test]
fn control_left_fin_on_vertical_wall() {
    let t = edit(&cubo_text(), "LEFT-FIN-H     =              0", "LEFT-FIN-H     =              1");
    let t = edit(&t, "LEFT-FIN-D     =              0", "LEFT-FIN-D     =              0.5");
    let m = convert(&t);
    let ex = Vector3::new(1.0, 0.0, 0.0);
    let ey = Vector3::new(0.0, 0.0, 1.0);
    let n = Vector3::new(0.0, -1.0, 0.0);
    let top_left = point![0.0, 0.0, 0.0] + ex * 3.0 + ey * 2.0;
    let expected = vec![top_left, top_left - ey * 1.0, top_left - ey * 1.0 + n * 0.5, top_left + n * 0.5];
    let fin = m.shades.iter().find(|s| s.name == "P01_E01_PE001_V_left_fin").unwrap();
    assert!(max_corner_error(&expected, &global_corners(&fin.geometry)) < 0.01);
}
