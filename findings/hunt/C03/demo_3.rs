// C03 finding 3: a vertex-defined shade whose first three vertices are collinear is dropped
// Goes to: bemodel/tests/demo_3.rs   Run: cd /tmp/seed-h03 && cargo test -p bemodel --offline -j 4 --test demo_3
#![allow(dead_code)]
// ---- helpers (shared by all demos; copied verbatim into each file) ----
use bemodel::{point, Model, Point3, WallGeom};
use nalgebra::{Rotation3, Vector3};
use std::convert::TryFrom;

/// Text of the real project hulc_tests/tests/cubo/cubo.ctehexml (10 x 10 x 3 m box, one space)
fn cubo_text() -> String {
    let bytes = std::fs::read("../hulc_tests/tests/cubo/cubo.ctehexml").unwrap();
    match String::from_utf8(bytes.clone()) {
        Ok(s) => s,
        Err(_) => bytes.iter().map(|&b| b as char).collect(),
    }
}

fn convert(text: &str) -> Model {
    let data = hulc::ctehexml::parse_with_catalog(text).unwrap();
    Model::try_from(&data).unwrap()
}

/// Replace that must change the text (guards against silently not editing the project)
fn edit(text: &str, from: &str, to: &str) -> String {
    assert!(text.contains(from), "pattern not found: {}", from);
    text.replace(from, to)
}

/// Global corner points of an element: T(position) * Rz(azimuth) * Rx(tilt) * polygon
fn global_corners(g: &WallGeom) -> Vec<Point3> {
    let m = g.to_global_coords_matrix().unwrap();
    g.polygon.iter().map(|p| m * point![p.x, p.y, 0.0]).collect()
}

/// Counter-clockwise rotation about Z, degrees
fn rz(deg: f32) -> Rotation3<f32> {
    Rotation3::from_axis_angle(&Vector3::z_axis(), deg.to_radians())
}

/// Largest distance from an expected corner to the nearest actual corner (order independent)
fn max_corner_error(expected: &[Point3], actual: &[Point3]) -> f32 {
    expected
        .iter()
        .map(|e| actual.iter().map(|a| (a - e).norm()).fold(f32::MAX, f32::min))
        .fold(0.0, f32::max)
}

/// Sets AZIMUTH/X/Y of the only SPACE of cubo
fn with_space_placement(text: &str, x: f32, y: f32, azimuth: f32) -> String {
    edit(
        text,
        "            SHAPE             = POLYGON \n            POLYGON           = \"P01_E01_Pol2\"",
        &format!("            SHAPE             = POLYGON \n            X = {}\n            Y = {}\n            AZIMUTH = {}\n            POLYGON           = \"P01_E01_Pol2\"", x, y, azimuth),
    )
}

/// Sets the global deviation from north (BUILD-PARAMETERS AZIMUTH)
fn with_global_deviation(text: &str, gd: f32) -> String {
    edit(text, "AZIMUTH   = 0.000000", &format!("AZIMUTH   = {:.6}", gd))
}

/// Replaces the two polygon-defined roofs of cubo by one ROOF with LOCATION = TOP (taken from the space outline).
/// `children` is appended after the roof's CONSTRUCTION block (e.g. a WINDOW)
fn with_top_roof(text: &str, children: &str) -> String {
    let i = text.find("            \"P01_E01C001\" = ROOF").unwrap();
    let j = text.find("$ | CONDICIONES OPERACIONALES |").unwrap();
    let j = text[..j].rfind("$\n$ +").unwrap();
    let roof = format!(
        r#"            "P01_E01C001" = ROOF
                  ABSORPTANCE   =            0.6
                  CONSTRUCTION  = "PIV por defecto"  
                  LOCATION      = TOP
                        ..
                  "PIV por defecto" =  CONSTRUCTION
                        TYPE   = LAYERS  
                        LAYERS = "PIV por defecto" 
                        ..
{}"#,
        children
    );
    format!("{}{}{}", &text[..i], roof, &text[j..])
}
// ---- end helpers ----

/// Shade of cubo (rectangle (2,-1,2) (2,0,2) (5.5,0,2) (5.5,-1,2)) with one extra vertex in the middle of its first side.
/// Same surface, same corner points, area 3.5 m2.
#[test]
fn shade_with_collinear_first_vertices_is_kept() {
    let t = edit(
        &cubo_text(),
        "      V1       =( 2, -1, 2 )\n      V2       =( 2, 0, 2 )\n      V3       =( 5.5, -4.173708e-08, 2 )\n      V4       =( 5.5, -1, 2 )",
        "      V1       =( 2, -1, 2 )\n      V2       =( 2, -0.5, 2 )\n      V3       =( 2, 0, 2 )\n      V4       =( 5.5, 0, 2 )\n      V5       =( 5.5, -1, 2 )",
    );
    let m = convert(&t);
    let shade = m.shades.iter().find(|s| s.name == "Sombra007");
    assert!(shade.is_some(), "shade Sombra007 (3.5 m2) has disappeared from the converted model ({} shades)", m.shades.len());
    let shade = shade.unwrap();
    let expected = vec![point![2.0, -1.0, 2.0], point![2.0, -0.5, 2.0], point![2.0, 0.0, 2.0], point![5.5, 0.0, 2.0], point![5.5, -1.0, 2.0]];
    assert!(max_corner_error(&expected, &global_corners(&shade.geometry)) < 0.01);
    assert!((shade.area() - 3.5).abs() < 0.01);
}

/// Control: the same shade starting at another vertex is converted and keeps its corners
#[test]
fn control_same_shade_other_start_vertex() {
    let t = edit(
        &cubo_text(),
        "      V1       =( 2, -1, 2 )\n      V2       =( 2, 0, 2 )\n      V3       =( 5.5, -4.173708e-08, 2 )\n      V4       =( 5.5, -1, 2 )",
        "      V1       =( 2, 0, 2 )\n      V2       =( 5.5, 0, 2 )\n      V3       =( 5.5, -1, 2 )\n      V4       =( 2, -1, 2 )\n      V5       =( 2, -0.5, 2 )",
    );
    let m = convert(&t);
    let shade = m.shades.iter().find(|s| s.name == "Sombra007").unwrap();
    let expected = vec![point![2.0, -1.0, 2.0], point![2.0, -0.5, 2.0], point![2.0, 0.0, 2.0], point![5.5, 0.0, 2.0], point![5.5, -1.0, 2.0]];
    assert!(max_corner_error(&expected, &global_corners(&shade.geometry)) < 0.01);
    assert!((shade.area() - 3.5).abs() < 0.01);
}
