// C03 finding 5: the outward normal of a roof/floor flips when the 2nd vertex of its polygon is a concave corner
// Goes to: bemodel/tests/demo_5.rs   Run: cd /tmp/seed-h03 && cargo test -p bemodel --offline -j 4 --test demo_5
#![allow(dead_code)]
// ---- helpers (shared by all demos; copied verbatim into each file) ----
use bemodel::{point, Model, Point3, WallGeom};
use nalgebra::{Rotation3, Vector3};
use std::convert::TryFrom;

/// Text of the real project hulc_tests/tests/cubo/cubo.ctehexml (10 x 10 x 3 m box, one space)
fn cubo_text() -> String {
    let bytes = std::fs::read("../hulc_tests/tests/cubo/cubo.ctehexml").unwrap();
    match String::from_utf8(bytes.clone()) {
        Ok(s) => s,
        Err(_) => bytes.iter().map(|&b| b as char).collect(),
    }
}

fn convert(text: &str) -> Model {
    let data = hulc::ctehexml::parse_with_catalog(text).unwrap();
    Model::try_from(&data).unwrap()
}

/// Replace that must change the text (guards against silently not editing the project)
fn edit(text: &str, from: &str, to: &str) -> String {
    assert!(text.contains(from), "pattern not found: {}", from);
    text.replace(from, to)
}

/// Global corner points of an element: T(position) * Rz(azimuth) * Rx(tilt) * polygon
fn global_corners(g: &WallGeom) -> Vec<Point3> {
    let m = g.to_global_coords_matrix().unwrap();
    g.polygon.iter().map(|p| m * point![p.x, p.y, 0.0]).collect()
}

/// Counter-clockwise rotation about Z, degrees
fn rz(deg: f32) -> Rotation3<f32> {
    Rotation3::from_axis_angle(&Vector3::z_axis(), deg.to_radians())
}

/// Largest distance from an expected corner to the nearest actual corner (order independent)
fn max_corner_error(expected: &[Point3], actual: &[Point3]) -> f32 {
    expected
        .iter()
        .map(|e| actual.iter().map(|a| (a - e).norm()).fold(f32::MAX, f32::min))
        .fold(0.0, f32::max)
}

/// Sets AZIMUTH/X/Y of the only SPACE of cubo
fn with_space_placement(text: &str, x: f32, y: f32, azimuth: f32) -> String {
    edit(
        text,
        "            SHAPE             = POLYGON \n            POLYGON           = \"P01_E01_Pol2\"",
        &format!("            SHAPE             = POLYGON \n            X = {}\n            Y = {}\n            AZIMUTH = {}\n            POLYGON           = \"P01_E01_Pol2\"", x, y, azimuth),
    )
}

/// Sets the global deviation from north (BUILD-PARAMETERS AZIMUTH)
fn with_global_deviation(text: &str, gd: f32) -> String {
    edit(text, "AZIMUTH   = 0.000000", &format!("AZIMUTH   = {:.6}", gd))
}

/// Replaces the two polygon-defined roofs of cubo by one ROOF with LOCATION = TOP (taken from the space outline).
/// `children` is appended after the roof's CONSTRUCTION block (e.g. a WINDOW)
fn with_top_roof(text: &str, children: &str) -> String {
    let i = text.find("            \"P01_E01C001\" = ROOF").unwrap();
    let j = text.find("$ | CONDICIONES OPERACIONALES |").unwrap();
    let j = text[..j].rfind("$\n$ +").unwrap();
    let roof = format!(
        r#"            "P01_E01C001" = ROOF
                  ABSORPTANCE   =            0.6
                  CONSTRUCTION  = "PIV por defecto"  
                  LOCATION      = TOP
                        ..
                  "PIV por defecto" =  CONSTRUCTION
                        TYPE   = LAYERS  
                        LAYERS = "PIV por defecto" 
                        ..
{}"#,
        children
    );
    format!("{}{}{}", &text[..i], roof, &text[j..])
}
// ---- end helpers ----

const SKYLIGHT: &str = r#"                  "LUC1" = WINDOW
                        X              =              1
                        Y              =              1
                        SETBACK        =              0
                        HEIGHT         =              1
                        WIDTH          =              1
                        GAP            = "Doble -- Mrpt - Gris claro"
                        COEFF = ( 1.000000, 1.000000, 1.000000, 1.000000)
                        ..
"#;

/// L-shaped outline, counter-clockwise, concave corner at (5,5); `start` selects which corner is V1
fn lshape(start: usize) -> String {
    let pts = [(10.0, 5.0), (5.0, 5.0), (5.0, 10.0), (0.0, 10.0), (0.0, 0.0), (10.0, 0.0)];
    let mut s = String::from("\"P01_E01_Pol2\" = POLYGON\n");
    for i in 0..6 {
        let p = pts[(start + i) % 6];
        s.push_str(&format!("    V{}   =( {}, {} )\n", i + 1, p.0, p.1));
    }
    s
}

/// Fraction of a skylight (in the flat roof taken from the space outline) lit by a sun at 89 deg of altitude.
/// Nothing stands above the roof, and the outward normal of a roof points up, so the fraction must be 1
/// whatever the corner the outline starts at.
fn sunlit(start: usize) -> f32 {
    let t = with_top_roof(&cubo_text(), SKYLIGHT);
    let t = edit(&t, "\"P01_E01_Pol2\" = POLYGON\n    V1   =( 0, 0 )\n    V2   =( 10, 0 )\n    V3   =( 10, 10 )\n    V4   =( 0, 10 )\n", &lshape(start));
    let m = convert(&t);
    let roof = m.get_wall_by_name("P01_E01C001").unwrap();
    assert!((roof.area() - 75.0).abs() < 0.01);
    assert_eq!(roof.geometry.tilt, 0.0);
    let win = m.windows.iter().find(|w| w.name == "LUC1").unwrap();
    let origins = m.ray_origins_for_window(win);
    assert!(!origins.is_empty());
    let occluders = m.collect_occluders();
    let to_sun = bemodel::energy::ray_dir_to_sun(0.0, 89.0);
    m.sunlit_fraction(win, &origins, &to_sun, &occluders)
}

#[test]
fn roof_normal_points_up_when_v2_is_concave() {
    // V1 = (10,5), V2 = (5,5) (concave), V3 = (5,10)
    let f = sunlit(0);
    assert!((f - 1.0).abs() < 1e-6, "skylight lit fraction is {} (roof seen as facing down: back-face culled)", f);
}

/// Control: same outline starting at any other corner
#[test]
fn control_other_start_corners() {
    for start in 1..6 {
        assert!((sunlit(start) - 1.0).abs() < 1e-6, "start {}", start);
    }
}
