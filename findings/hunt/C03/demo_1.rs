// C03 finding 1: floors/ceilings taken from the outline of a ROTATED space are turned twice by the space azimuth
// Goes to: bemodel/tests/demo_1.rs   Run: cd /tmp/seed-h03 && cargo test -p bemodel --offline -j 4 --test demo_1
#![allow(dead_code)]
// ---- helpers (shared by all demos; copied verbatim into each file) ----
use bemodel::{point, Model, Point3, WallGeom};
use nalgebra::{Rotation3, Vector3};
use std::convert::TryFrom;

/// Text of the real project hulc_tests/tests/cubo/cubo.ctehexml (10 x 10 x 3 m box, one space)
fn cubo_text() -> String {
    let bytes = std::fs::read("../hulc_tests/tests/cubo/cubo.ctehexml").unwrap();
    match String::from_utf8(bytes.clone()) {
        Ok(s) => s,
        Err(_) => bytes.iter().map(|&b| b as char).collect(),
    }
}

fn convert(text: &str) -> Model {
    let data = hulc::ctehexml::parse_with_catalog(text).unwrap();
    Model::try_from(&data).unwrap()
}

/// Replace that must change the text (guards against silently not editing the project)
fn edit(text: &str, from: &str, to: &str) -> String {
    assert!(text.contains(from), "pattern not found: {}", from);
    text.replace(from, to)
}

/// Global corner points of an element: T(position) * Rz(azimuth) * Rx(tilt) * polygon
fn global_corners(g: &WallGeom) -> Vec<Point3> {
    let m = g.to_global_coords_matrix().unwrap();
    g.polygon.iter().map(|p| m * point![p.x, p.y, 0.0]).collect()
}

/// Counter-clockwise rotation about Z, degrees
fn rz(deg: f32) -> Rotation3<f32> {
    Rotation3::from_axis_angle(&Vector3::z_axis(), deg.to_radians())
}

/// Largest distance from an expected corner to the nearest actual corner (order independent)
fn max_corner_error(expected: &[Point3], actual: &[Point3]) -> f32 {
    expected
        .iter()
        .map(|e| actual.iter().map(|a| (a - e).norm()).fold(f32::MAX, f32::min))
        .fold(0.0, f32::max)
}

/// Sets AZIMUTH/X/Y of the only SPACE of cubo
fn with_space_placement(text: &str, x: f32, y: f32, azimuth: f32) -> String {
    edit(
        text,
        "            SHAPE             = POLYGON \n            POLYGON           = \"P01_E01_Pol2\"",
        &format!("            SHAPE             = POLYGON \n            X = {}\n            Y = {}\n            AZIMUTH = {}\n            POLYGON           = \"P01_E01_Pol2\"", x, y, azimuth),
    )
}

/// Sets the global deviation from north (BUILD-PARAMETERS AZIMUTH)
fn with_global_deviation(text: &str, gd: f32) -> String {
    edit(text, "AZIMUTH   = 0.000000", &format!("AZIMUTH   = {:.6}", gd))
}

/// Replaces the two polygon-defined roofs of cubo by one ROOF with LOCATION = TOP (taken from the space outline).
/// `children` is appended after the roof's CONSTRUCTION block (e.g. a WINDOW)
fn with_top_roof(text: &str, children: &str) -> String {
    let i = text.find("            \"P01_E01C001\" = ROOF").unwrap();
    let j = text.find("$ | CONDICIONES OPERACIONALES |").unwrap();
    let j = text[..j].rfind("$\n$ +").unwrap();
    let roof = format!(
        r#"            "P01_E01C001" = ROOF
                  ABSORPTANCE   =            0.6
                  CONSTRUCTION  = "PIV por defecto"  
                  LOCATION      = TOP
                        ..
                  "PIV por defecto" =  CONSTRUCTION
                        TYPE   = LAYERS  
                        LAYERS = "PIV por defecto" 
                        ..
{}"#,
        children
    );
    format!("{}{}{}", &text[..i], roof, &text[j..])
}
// ---- end helpers ----

/// Space outline 10 x 10 at the building origin (no offset), space AZIMUTH = 30 (clockwise, BDL), storey height 3.
/// Expected floor = outline turned by the space azimuth and by the global deviation, at z = 0; ceiling same at z = 3.
/// Angles in BDL are clockwise => mathematical rotation by -(angle).
fn check(gd: f32) {
    let sa = 30.0;
    let t = with_top_roof(&cubo_text(), "");
    let t = with_space_placement(&t, 0.0, 0.0, sa);
    let t = with_global_deviation(&t, gd);
    let m = convert(&t);

    let outline = [(0.0, 0.0), (10.0, 0.0), (10.0, 10.0), (0.0, 10.0)];
    let expected_at = |z: f32| -> Vec<Point3> {
        outline.iter().map(|(x, y)| rz(-gd) * (rz(-sa) * point![*x, *y, z])).collect()
    };

    // Sanity: the four vertex-located walls do follow the turned outline (bottom edges)
    for (name, i) in [("P01_E01_PE001", 0), ("P01_E01_PE002", 1), ("P01_E01_PE003", 2), ("P01_E01_PE004", 3)] {
        let w = m.get_wall_by_name(name).unwrap();
        let c = global_corners(&w.geometry);
        let e = expected_at(0.0);
        assert!((c[0] - e[i]).norm() < 0.01 && (c[1] - e[(i + 1) % 4]).norm() < 0.01, "wall {}", name);
    }

    let floor = m.get_wall_by_name("P01_E01_FTER001").unwrap();
    let err_floor = max_corner_error(&expected_at(0.0), &global_corners(&floor.geometry));
    let roof = m.get_wall_by_name("P01_E01C001").unwrap();
    let err_roof = max_corner_error(&expected_at(3.0), &global_corners(&roof.geometry));
    println!("gd={} floor corners {:?}", gd, global_corners(&floor.geometry));
    println!("gd={} roof corners {:?}", gd, global_corners(&roof.geometry));
    assert!(
        err_floor < 0.01 && err_roof < 0.01,
        "gd={}: floor (LOCATION=BOTTOM) is {} m and ceiling (LOCATION=TOP) is {} m away from the space outline",
        gd, err_floor, err_roof
    );
}

#[test]
fn floor_of_rotated_space_reproduces_outline_gd0() {
    check(0.0);
}

#[test]
fn floor_of_rotated_space_reproduces_outline_gd40() {
    check(40.0);
}

/// Control: same building, space not rotated -> passes (shows the oracle is right)
#[test]
fn control_unrotated_space() {
    let t = with_top_roof(&cubo_text(), "");
    let t = with_global_deviation(&t, 40.0);
    let m = convert(&t);
    let outline = [(0.0, 0.0), (10.0, 0.0), (10.0, 10.0), (0.0, 10.0)];
    let e0: Vec<Point3> = outline.iter().map(|(x, y)| rz(-40.0) * point![*x, *y, 0.0]).collect();
    let e3: Vec<Point3> = outline.iter().map(|(x, y)| rz(-40.0) * point![*x, *y, 3.0]).collect();
    assert!(max_corner_error(&e0, &global_corners(&m.get_wall_by_name("P01_E01_FTER001").unwrap().geometry)) < 0.01);
    assert!(max_corner_error(&e3, &global_corners(&m.get_wall_by_name("P01_E01C001").unwrap().geometry)) < 0.01);
}
