// demo_2 -- C19: an out-of-range MONTH (or DAY) in a year schedule is accepted and hangs / exhausts memory downstream
//
// Clause violated:  "... a number replaced by text or by an out-of-range value ... is either still converted
//                    or rejected with an error message. Parsing and conversion never crash or hang on it."
//
// Exact input:      hulc_tests/tests/cubo/cubo.ctehexml (shipped) with ONE number replaced: line 1623,
//                       "Ocupacion-Residencia" = SCHEDULE-PD ... MONTH = ( 12)   ->   MONTH = ( 99999999)
//                   (month 99999999 of the year).  Same for DAY = ( 31) -> DAY = ( 99999999), and for the
//                   year schedules of every other shipped .ctehexml that are used by a SPACE-CONDITIONS block.
//
// Expected:         Data::new / Model::try_from reject the file (month outside 1..=12, day outside 1..=31,
//                   periods not adding up to 365 days), or at least the conversion finishes.
// Actual:           the file is accepted; the year schedule becomes one period of 3_038_888_960 days
//                   (bemodel::Schedule.values = [(week, 3038888960)]).  Then hulc2model::collect_hulc_data ->
//                   fix_ecdata_from_extra -> Model::energy_indicators -> SchedulesDb::get_year_as_day_sch
//                   materialises one Uuid per day: a 48 GB Vec<Uuid> and several passes over it.  The process
//                   either runs for hours or dies with "memory allocation of .. bytes failed" (abort).
//                   Cost is linear in the typed number; measured on this machine (dev profile, cubo.ctehexml):
//                     MONTH=12 -> 3 ms, 12000 -> 0.7 s, 120000 -> 8.7 s, 1200000 -> 74 s (0.6 GB), 99999999 -> ~100 min and 48 GB (extrapolated; stopped after 40 s).
//                   With u32::MAX the day count saturates at 4_294_967_295 (64 GB).
//
// Cause:            bemodel/src/convert/from_ctehexml.rs:784-800 (schedules_from_bdl): end days are computed with
//                   day_of_year(day, month) (from_ctehexml.rs:833-844, `(...) as u32`) for any u32 month/day read by
//                   hulc/src/bdl/systems/schedules.rs:186-187 (extract_u32vec) with no range check; only
//                   non-increasing end days are rejected (line 796).  The unbounded count is then expanded by
//                   bemodel/src/types/schedules.rs:51-70 (get_year_as_day_sch, `.take(*count as usize)`), called from
//                   bemodel/src/energy/props.rs:98 and :388.
//
// Minimal fix:      in YearSchedule::try_from (hulc/src/bdl/systems/schedules.rs:186) or in schedules_from_bdl
//                   (from_ctehexml.rs:786) bail! unless 1 <= month <= 12 and 1 <= day <= 31, and bail! when the last
//                   end day is greater than 365 ("Horario anual {} con más de 365 días").
//
// Goes to:          hulc_tests/tests/demo_2.rs
// Run:              cd /tmp/seed-h19 && cargo test -p hulc_tests --offline -j 4 --test demo_2
//                   (the second test deliberately uses MONTH = 1200000, not 99999999, so that the runaway thread
//                    stays below ~1 GB; it is abandoned after 15 s and dies with the test process)

use std::convert::TryFrom;
use std::sync::mpsc;
use std::time::Duration;

use bemodel::Model;

const FILE: &str = "tests/cubo/cubo.ctehexml";

/// cubo.ctehexml with the MONTH of the year schedule "Ocupacion-Residencia" (line 1623) replaced
fn damaged(month: &str) -> String {
    let text = std::fs::read_to_string(FILE).unwrap();
    let pos = text
        .find("\"Ocupacion-Residencia\" = SCHEDULE-PD")
        .expect("schedule block at line 1620");
    let tail = text[pos..].replacen("MONTH = ( 12)", &format!("MONTH = ( {})", month), 1);
    assert_ne!(tail, &text[pos..]);
    format!("{}{}", &text[..pos], tail)
}

#[test]
fn out_of_range_month_is_rejected() {
    let text = damaged("99999999");
    let result = hulc::ctehexml::parse_with_catalog(&text).and_then(|d| Model::try_from(&d));
    if let Ok(model) = result {
        let longest: u64 = model
            .schedules
            .year
            .iter()
            .map(|s| s.values.iter().map(|(_, days)| *days as u64).sum())
            .max()
            .unwrap_or(0);
        assert!(
            longest <= 366,
            "MONTH = ( 99999999) was accepted: a year schedule now lasts {} days \
             (energy_indicators() expands it day by day: {} GB)",
            longest,
            longest * 16 / 1_000_000_000
        );
    }
}

#[test]
fn out_of_range_month_does_not_hang() {
    let text = damaged("1200000");
    let (tx, rx) = mpsc::channel();
    std::thread::spawn(move || {
        // Same steps as hulc2model::collect_hulc_data
        let r = hulc::ctehexml::parse_with_catalog(&text)
            .and_then(|d| Model::try_from(&d))
            .and_then(|mut m| {
                hulc2model::fix_ecdata_from_extra::<&str>(&mut m, &None, &None)?;
                Ok(m)
            });
        let _ = tx.send(r.is_ok());
    });
    match rx.recv_timeout(Duration::from_secs(15)) {
        Ok(converted) => println!("finished; converted = {}", converted),
        Err(_) => panic!(
            "converting {} with MONTH = ( 1200000) is still running after 15 s \
             (the undamaged file takes 0.1 s; the time grows linearly with the number typed)",
            FILE
        ),
    }
}
