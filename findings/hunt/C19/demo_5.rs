// demo_5 -- C19: a performance-curve reference that is emptied, or renamed, in a generator crashes the parser
//
// Clause violated:  "A project file damaged by any single edit - ... a renamed reference ... - is either still converted
//                    or rejected with an error message. Parsing and conversion never crash ..."
//
// Exact input:      hulc_tests/tests/casoA/casoa.ctehexml (EQ_Caldera of <SIS_Mixto>, lines 3182-3190) with
//                   (a) line 3186  <cap_T>"cap_T-EQ_Caldera-unidad"</cap_T>   ->   <cap_T></cap_T>
//                       (any of the 12 curve tags cap_T, ren_T, ren_FCP_Potencia, ren_FCP_Tiempo, con_FCP, capTotRef_T,
//                        capTotRef_FCP, capSenRef_T, conRef_T, conRef_FCP, conCal_T, conCal_FCP of any generator of
//                        any shipped file)                                                        -> vyp_sys.rs:343
//                   (b) line 3188  <ren_FCP_Potencia>"ren_FCP_Potencia-EQ_Caldera-Condensacion-Defecto"</ren_FCP_Potencia>
//                       -> ...        "ren_FCP_Potencia-EQ_Caldera-Condensacion2-Defecto"
//                       (the reference to the curve defined at <CurvaComportamiento nombre=..> renamed)  -> vyp_sys.rs:365
//
// Expected:         Ok (generic boiler / curve ignored) or Err("Tipo de equipo desconocido ..")
// Actual:           (a) panic "called `Option::unwrap()` on a `None` value" at hulc/src/ctehexml/systems/vyp_sys.rs:343
//                   (b) panic "ERROR: Tipo de equipo desconocido Condensacion2"     at hulc/src/ctehexml/systems/vyp_sys.rs:365
//
// Cause:            vyp_sys.rs:343  `n.text().unwrap()` - an empty element has no text node;
//                   vyp_sys.rs:348-366: the boiler kind is cut out of the NAME of the ren_FCP_Potencia curve and
//                   `.try_into().unwrap_or_else(|e| panic!("ERROR: {:?}", e))` turns the Err of
//                   EquipmentKind::try_from (line 43) into a panic.
//
// Minimal fix:      line 343: `n.text().unwrap_or("")`;  line 365: fall back to CalderaGenerica
//                   (`.unwrap_or(EquipmentKind::CalderaGenerica)`) or make build_generation_equipment return
//                   Result<GenerationEquipment, Error> and use `?`.
//
// Goes to:          hulc_tests/tests/demo_5.rs
// Run:              cd /tmp/seed-h19 && cargo test -p hulc_tests --offline -j 4 --test demo_5

use std::panic::catch_unwind;

fn parse_does_not_panic(text: &str) -> bool {
    catch_unwind(|| hulc::ctehexml::parse_with_catalog(text).map(|_| ())).is_ok()
}

#[test]
fn emptied_curve_reference() {
    let text = std::fs::read_to_string("tests/casoA/casoa.ctehexml").unwrap();
    let from = "<cap_T>\"cap_T-EQ_Caldera-unidad\"</cap_T>";
    assert_eq!(text.matches(from).count(), 1);
    let damaged = text.replacen(from, "<cap_T></cap_T>", 1);
    assert!(
        parse_does_not_panic(&damaged),
        "casoa.ctehexml with line 3186 changed to <cap_T></cap_T> panicked"
    );
}

#[test]
fn renamed_curve_reference() {
    let text = std::fs::read_to_string("tests/casoA/casoa.ctehexml").unwrap();
    let from = "<ren_FCP_Potencia>\"ren_FCP_Potencia-EQ_Caldera-Condensacion-Defecto\"";
    assert_eq!(text.matches(from).count(), 1);
    let damaged = text.replacen(
        from,
        "<ren_FCP_Potencia>\"ren_FCP_Potencia-EQ_Caldera-Condensacion2-Defecto\"",
        1,
    );
    assert!(
        parse_does_not_panic(&damaged),
        "casoa.ctehexml with the curve reference of line 3188 renamed panicked"
    );
}
