// demo_1 -- C19: a TRUNCATED .ctehexml (or one whose <demandas> block was removed) crashes the parser
//
// Clause violated:  "A project file damaged by any single edit - ... a removed block ..., a truncated
//                    file - is either still converted or rejected with an error message. Parsing and
//                    conversion never crash or hang on it."
//
// Exact input:      hulc_tests/tests/cubo/cubo.ctehexml (shipped, unmodified) cut off just before its line
//                   2004 `<demandas>` (the file then ends inside <SIS_Acs>, after `</equipos>`).
//                   roxmltree 0.15 accepts documents whose elements are left open at end of input, so a
//                   truncated .ctehexml is NOT rejected by the XML layer.
//                   Second input: the same file with only the 9-line block <demandas>...</demandas> removed
//                   (well-formed XML).
//                   Same crash for every truncation point between line 1986 and 2003 of that file, and for
//                   the SIS_Acs system of casoC, ejemploviv_unif, ejemplopmt_huecosok, e4h_medianeras and
//                   00_plurif_s3_v0_d3.
//
// Expected:         hulc::ctehexml::parse_with_catalog(..) returns Err(..) (or Ok with a DHW system without demands)
// Actual:           panic  "called `Option::unwrap()` on a `None` value"  at hulc/src/ctehexml/systems/vyp_sys.rs:144
//                   (the `hulc2model` binary, built with panic = "abort", dies with SIGABRT).
//
// Cause:            hulc/src/ctehexml/systems/vyp_sys.rs:144  `dhw_demand: dhw_demand.unwrap()` in build_system():
//                   dhw_demand is None when the SIS_Acs node has no <demandas> child.  build_system() returns a
//                   VypSystem, not a Result, and hulc::ctehexml::systems::parse_systems() has no error path.
//
// Minimal fix:      make build_system()/parse_systems() return Result<_, Error> and replace the unwrap by
//                   `dhw_demand.ok_or_else(|| format_err!("Sistema de ACS {} sin demandas", name))?`
//                   (propagated with `?` from hulc::ctehexml::parse, hulc/src/ctehexml/mod.rs:108);
//                   alternatively `dhw_demand.unwrap_or_default()`.
//
// Goes to:          hulc_tests/tests/demo_1.rs
// Run:              cd /tmp/seed-h19 && cargo test -p hulc_tests --offline -j 4 --test demo_1

use std::panic::catch_unwind;

const FILE: &str = "tests/cubo/cubo.ctehexml";

fn parse_does_not_panic(text: &str) -> bool {
    catch_unwind(|| hulc::ctehexml::parse_with_catalog(text).map(|_| ())).is_ok()
}

#[test]
fn truncated_ctehexml_is_rejected_not_crashed() {
    let text = std::fs::read_to_string(FILE).unwrap();
    assert!(parse_does_not_panic(&text), "the undamaged file converts");
    let cut = text.find("                    <demandas>").expect("line 2004 of cubo.ctehexml");
    let truncated = &text[..cut];
    assert!(
        parse_does_not_panic(truncated),
        "parsing {} truncated before its <demandas> line (byte {}) panicked instead of returning Ok/Err",
        FILE,
        cut
    );
}

#[test]
fn ctehexml_without_demandas_block_is_rejected_not_crashed() {
    let text = std::fs::read_to_string(FILE).unwrap();
    let start = text.find("                    <demandas>").unwrap();
    let end = text.find("</demandas>").unwrap() + "</demandas>".len();
    let damaged = format!("{}{}", &text[..start], &text[end..]);
    // still well-formed XML
    assert!(
        parse_does_not_panic(&damaged),
        "parsing {} without its <demandas>..</demandas> block panicked instead of returning Ok/Err",
        FILE
    );
}
