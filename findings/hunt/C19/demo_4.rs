// demo_4 -- C19: deleting the single line <recuperacionCalor> of an air system crashes the parser
//
// Clause violated:  "A project file damaged by any single edit - a deleted ... line ... - is either still converted or
//                    rejected with an error message. Parsing and conversion never crash ..."
//
// Exact input:      hulc_tests/tests/ejemploviv_unif/ejemploviv_unif.ctehexml with its line 3541
//                       `                    <recuperacionCalor>No tiene</recuperacionCalor>`
//                   deleted (the file stays well-formed XML).  Same for line deletion in ejemplopmt_huecosok.ctehexml
//                   (SIS_Autonomo2) and for the value emptied (`<recuperacionCalor></recuperacionCalor>`).
//
// Expected:         Ok (no heat recovery) or Err
// Actual:           panic "called `Option::unwrap()` on a `None` value" at hulc/src/ctehexml/systems/vyp_sys.rs:179
//
// Cause:            hulc/src/ctehexml/systems/vyp_sys.rs:176-180:
//                       ["Sí tiene", "Si", "Sí"].contains(&get_tag_text(&node, "recuperacionCalor").map(..).unwrap())
//                   get_tag_text() is None when the tag is absent or empty.  (The neighbouring optional tags,
//                   enfriamientoGratuito, eficienciaRecuperador, vVentilacion, all tolerate absence.)
//
// Minimal fix:      `.unwrap_or("")` instead of `.unwrap()` at line 179 (absent tag = no heat recovery).
//
// Goes to:          hulc_tests/tests/demo_4.rs
// Run:              cd /tmp/seed-h19 && cargo test -p hulc_tests --offline -j 4 --test demo_4

use std::panic::catch_unwind;

#[test]
fn deleted_recuperacioncalor_line() {
    let text = std::fs::read_to_string("tests/ejemploviv_unif/ejemploviv_unif.ctehexml").unwrap();
    let line = "                    <recuperacionCalor>No tiene</recuperacionCalor>\n";
    assert_eq!(text.matches(line).count(), 1);
    let damaged = text.replacen(line, "", 1);
    let r = catch_unwind(|| hulc::ctehexml::parse_with_catalog(&damaged).map(|_| ()));
    assert!(
        r.is_ok(),
        "ejemploviv_unif.ctehexml without its line 3541 <recuperacionCalor> panicked instead of returning Ok/Err"
    );
}
