// demo_6 -- C19: a damaged on-site production list (<valoresMensualesELE> / <valoresMensualesACS>) crashes the parser
//
// Clause violated:  "A project file damaged by any single edit - ... a renamed reference, ... a truncated file - is either
//                    still converted or rejected with an error message. Parsing and conversion never crash ..."
//
// Exact input:      hulc_tests/tests/ejemploviv_unif/ejemploviv_unif.ctehexml (line 97 <valMenELE>SI</valMenELE>,
//                   line 99 <valoresMensualesELE>Fotovoltaica insitu;Paneles Fotovoltaicos;223.0;...) with
//                   (a) the first field of line 99 renamed:  "Fotovoltaica insitu;" -> "Fotovoltaica;"    -> vyp_sys.rs:774
//                   (b) the file truncated in line 99 right after "<valoresMensualesELE>Fotovoltaica insitu"
//                       (roxmltree 0.15 accepts the open elements; the list then has a single field)       -> vyp_sys.rs:744
//                   (c) the content of line 99 emptied: <valoresMensualesELE></valoresMensualesELE>        -> vyp_sys.rs:744
//                   hulc_tests/tests/e4h_medianeras/e4h_medianeras.ctehexml (line 98 <valMenACS>SI</valMenACS>) with
//                   (d) the first field of line 100 renamed: "Solar T&#xE9;rmica ACS;" -> "Solar;"          -> vyp_sys.rs:801
//                   Same for ejemplo_gt_aerotermia, ejemplopmt_huecosok and 00_plurif_s3_v0_d3.
//
// Expected:         Ok (unknown producer ignored) or Err
// Actual:           (a) panic "XXX: Tipo desconocido: Fotovoltaica"                       vyp_sys.rs:774
//                   (b),(c) panic "index out of bounds: the len is 1 but the index is 1"  vyp_sys.rs:744
//                   (d) panic "XXX: Tipo desconocido: Solar"                              vyp_sys.rs:801
//                   (the thermal list has the same indexing at vyp_sys.rs:785)
//
// Cause:            hulc/src/ctehexml/systems/vyp_sys.rs:742-776 and :783-803 (build_onsite_prod): the `;` separated list
//                   is cut in chunks of 14 and `sysdata[1]` is read without checking the chunk length (a last chunk
//                   of one field, e.g. the single "" of an empty list); unknown kinds `panic!`.
//
// Minimal fix:      `let (Some(kind), Some(name)) = (sysdata.first(), sysdata.get(1)) else { continue }` and replace both
//                   `panic!("XXX: Tipo desconocido..")` by `log::warn!(..); continue` (or by an Err once parse_systems
//                   returns a Result).
//
// Goes to:          hulc_tests/tests/demo_6.rs
// Run:              cd /tmp/seed-h19 && cargo test -p hulc_tests --offline -j 4 --test demo_6

use std::panic::catch_unwind;

fn parse_does_not_panic(text: &str) -> bool {
    catch_unwind(|| hulc::ctehexml::parse_with_catalog(text).map(|_| ())).is_ok()
}

const VIV: &str = "tests/ejemploviv_unif/ejemploviv_unif.ctehexml";
const E4H: &str = "tests/e4h_medianeras/e4h_medianeras.ctehexml";
const ELE: &str = "<valoresMensualesELE>Fotovoltaica insitu";

#[test]
fn renamed_electricity_producer_kind() {
    let text = std::fs::read_to_string(VIV).unwrap();
    assert!(parse_does_not_panic(&text));
    assert_eq!(text.matches(ELE).count(), 1);
    let damaged = text.replacen(ELE, "<valoresMensualesELE>Fotovoltaica", 1);
    assert!(parse_does_not_panic(&damaged), "{} with the producer kind of line 99 renamed panicked", VIV);
}

#[test]
fn truncated_inside_production_list() {
    let text = std::fs::read_to_string(VIV).unwrap();
    let cut = text.find(ELE).unwrap() + ELE.len();
    assert!(parse_does_not_panic(&text[..cut]), "{} truncated in line 99 (byte {}) panicked", VIV, cut);
}

#[test]
fn emptied_production_list() {
    let text = std::fs::read_to_string(VIV).unwrap();
    let s = text.find(ELE).unwrap() + "<valoresMensualesELE>".len();
    let e = text.find("</valoresMensualesELE>").unwrap();
    let damaged = format!("{}{}", &text[..s], &text[e..]);
    assert!(parse_does_not_panic(&damaged), "{} with an empty <valoresMensualesELE> panicked", VIV);
}

#[test]
fn renamed_thermal_producer_kind() {
    let text = std::fs::read_to_string(E4H).unwrap();
    assert!(parse_does_not_panic(&text));
    let from = "<valoresMensualesACS>Solar T&#xE9;rmica ACS;";
    assert_eq!(text.matches(from).count(), 1);
    let damaged = text.replacen(from, "<valoresMensualesACS>Solar;", 1);
    assert!(parse_does_not_panic(&damaged), "{} with the producer kind of line 100 renamed panicked", E4H);
}
