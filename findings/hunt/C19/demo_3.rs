// demo_3 -- C19: a .ctehexml truncated before (or stripped of) the <unidades_terminales> block of a multizone
//           system crashes the parser
//
// Clause violated:  "A project file damaged by any single edit - ... a removed block ..., a truncated file - is either
//                    still converted or rejected with an error message. Parsing and conversion never crash ..."
//
// Exact input:      (a) hulc_tests/tests/casoA/casoa.ctehexml with its 22-line block <unidades_terminales> ..
//                       </unidades_terminales> (lines 3200-3221, inside <SIS_Mixto>) removed          -> vyp_sys.rs:161
//                   (b) the same file truncated just before line 3200 (any cut between lines 3175 and 3199 does it;
//                       roxmltree 0.15 accepts elements left open at end of input)                     -> vyp_sys.rs:161
//                   (c) hulc_tests/tests/ejemploviv_unif/ejemploviv_unif.ctehexml with the block
//                       <unidades_terminales> .. </unidades_terminales> (lines 3560-3638, inside <SIS_Autonomo>)
//                       removed                                                                        -> vyp_sys.rs:216
//                   Also e4h_medianeras (SIS_CalefaccionPorAgua) and ejemplopmt_huecosok (SIS_Autonomo2).
//
// Expected:         hulc::ctehexml::parse_with_catalog(..) returns Err(..) or a system without terminal units
// Actual:           panic "called `Option::unwrap()` on a `None` value" at hulc/src/ctehexml/systems/vyp_sys.rs:161
//                   (SIS_Mixto / SIS_CalefaccionPorAgua) and :216 (SIS_Conductos, SIS_Conductos2, SIS_Autonomo, SIS_Autonomo2)
//
// Cause:            hulc/src/ctehexml/systems/vyp_sys.rs:161 and :216  `zone_equipment: zone_equipment.unwrap()`;
//                   zone_equipment (lines 118-126) is None when the system node has no <unidades_terminales> child.
//
// Minimal fix:      `zone_equipment.unwrap_or_default()` at both lines, or return
//                   Err(format_err!("Sistema {} sin unidades terminales", name)) once build_system() returns a Result.
//
// Goes to:          hulc_tests/tests/demo_3.rs
// Run:              cd /tmp/seed-h19 && cargo test -p hulc_tests --offline -j 4 --test demo_3

use std::panic::catch_unwind;

fn parse_does_not_panic(text: &str) -> bool {
    catch_unwind(|| hulc::ctehexml::parse_with_catalog(text).map(|_| ())).is_ok()
}

fn without_block(text: &str, open: &str, close: &str) -> String {
    let s = text.find(open).unwrap();
    let e = s + text[s..].find(close).unwrap() + close.len();
    format!("{}{}", &text[..s], &text[e..])
}

#[test]
fn mixto_without_unidades_terminales() {
    let text = std::fs::read_to_string("tests/casoA/casoa.ctehexml").unwrap();
    assert!(parse_does_not_panic(&text));
    let damaged = without_block(&text, "<unidades_terminales>", "</unidades_terminales>");
    assert!(
        parse_does_not_panic(&damaged),
        "casoa.ctehexml without its <unidades_terminales> block (lines 3200-3221) panicked"
    );
}

#[test]
fn mixto_truncated_before_unidades_terminales() {
    let text = std::fs::read_to_string("tests/casoA/casoa.ctehexml").unwrap();
    let cut = text.find("                    <unidades_terminales>").unwrap();
    assert!(
        parse_does_not_panic(&text[..cut]),
        "casoa.ctehexml truncated before line 3200 panicked"
    );
}

#[test]
fn autonomo_without_unidades_terminales() {
    let text = std::fs::read_to_string("tests/ejemploviv_unif/ejemploviv_unif.ctehexml").unwrap();
    assert!(parse_does_not_panic(&text));
    let damaged = without_block(&text, "<unidades_terminales>", "</unidades_terminales>");
    assert!(
        parse_does_not_panic(&damaged),
        "ejemploviv_unif.ctehexml without its <unidades_terminales> block (lines 3560-3638) panicked"
    );
}
