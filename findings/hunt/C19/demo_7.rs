// demo_7 -- C19: a hot-water terminal unit that lost its `nombre` attribute crashes the parser
//
// Clause violated:  "A project file damaged by any single edit ... is either still converted or rejected with an error
//                    message. Parsing and conversion never crash ..."  (edit kind: a deleted attribute / a line whose
//                    tail was lost; the file stays well-formed XML)
//
// Exact input:      hulc_tests/tests/casoA/casoa.ctehexml with line 3201
//                       <UT_AguaCaliente nombre="SIS_UT4">     ->     <UT_AguaCaliente>
//                   (same for the attribute renamed, e.g. nombre -> name; any of the 4 UT_AguaCaliente of casoA and the
//                    16 of e4h_medianeras)
//
// Expected:         Ok (the unit keeps its <nombre_usuario>, as the other two kinds of terminal unit do) or Err
// Actual:           panic "called `Option::unwrap()` on a `None` value" at hulc/src/ctehexml/systems/vyp_sys.rs:262
//
// Cause:            hulc/src/ctehexml/systems/vyp_sys.rs:262  `let name = node.attribute("nombre").unwrap().to_string();`
//
// Minimal fix:      `node.attribute("nombre").map(str::to_string).unwrap_or(name)` (fall back to <nombre_usuario>,
//                   already read at line 251), or an Err once build_zone_equipment returns a Result.
//
// Goes to:          hulc_tests/tests/demo_7.rs
// Run:              cd /tmp/seed-h19 && cargo test -p hulc_tests --offline -j 4 --test demo_7

use std::panic::catch_unwind;

#[test]
fn terminal_unit_without_nombre_attribute() {
    let text = std::fs::read_to_string("tests/casoA/casoa.ctehexml").unwrap();
    let from = "<UT_AguaCaliente nombre=\"SIS_UT4\">";
    assert_eq!(text.matches(from).count(), 1);
    let damaged = text.replacen(from, "<UT_AguaCaliente>", 1);
    let r = catch_unwind(|| hulc::ctehexml::parse_with_catalog(&damaged).map(|_| ()));
    assert!(
        r.is_ok(),
        "casoa.ctehexml with line 3201 changed to <UT_AguaCaliente> panicked instead of returning Ok/Err"
    );
}
