// Independent oracle for property C12 (remote obstruction factors), shared by the demo tests.
// Everything here is computed from the statement: own f64 geometry (no nalgebra transforms of the
// implementation, no BVH, no Polygon::normal), only the public July design-day table and the
// public `climate::radiation_for_surface` weights are taken from the code base.
#![allow(dead_code, unused_imports)]

use bemodel::climatedata::{ClimateZone, CLIMATEMETADATA, JULYRADDATA};
use bemodel::{point, BoundaryType, Model, Shade, Wall, WallGeom, WinGeom, Window};
use climate::{nday_from_md, radiation_for_surface, SolarRadiation};

type V3 = [f64; 3];

fn sub(a: V3, b: V3) -> V3 {
    [a[0] - b[0], a[1] - b[1], a[2] - b[2]]
}
fn add(a: V3, b: V3) -> V3 {
    [a[0] + b[0], a[1] + b[1], a[2] + b[2]]
}
fn mul(a: V3, k: f64) -> V3 {
    [a[0] * k, a[1] * k, a[2] * k]
}
fn dot(a: V3, b: V3) -> f64 {
    a[0] * b[0] + a[1] * b[1] + a[2] * b[2]
}
fn norm(a: V3) -> f64 {
    dot(a, a).sqrt()
}

/// Rz(az) * Rx(tilt) * v
fn rot(az_deg: f64, tilt_deg: f64, v: V3) -> V3 {
    let (st, ct) = tilt_deg.to_radians().sin_cos();
    let (sa, ca) = az_deg.to_radians().sin_cos();
    let x1 = v[0];
    let y1 = v[1] * ct - v[2] * st;
    let z1 = v[1] * st + v[2] * ct;
    [x1 * ca - y1 * sa, x1 * sa + y1 * ca, z1]
}

fn local_to_global(g: &WallGeom, p: V3) -> Option<V3> {
    let pos = g.position?;
    let r = rot(g.azimuth as f64, g.tilt as f64, p);
    Some(add([pos.x as f64, pos.y as f64, pos.z as f64], r))
}

fn geom_poly3(g: &WallGeom) -> Option<Vec<V3>> {
    if g.polygon.is_empty() {
        return None;
    }
    g.position?;
    Some(
        g.polygon
            .iter()
            .map(|p| local_to_global(g, [p.x as f64, p.y as f64, 0.0]).unwrap())
            .collect(),
    )
}

#[derive(Clone, Copy, PartialEq, Debug)]
enum Hit {
    No,
    Yes,
    Unsure,
}

/// Intersección semirrecta - polígono plano 3D
fn ray_hits(o: V3, d: V3, poly: &[V3]) -> Hit {
    let n = poly.len();
    if n < 3 {
        return Hit::No;
    }
    // Newell
    let mut nn = [0.0; 3];
    for i in 0..n {
        let a = poly[i];
        let b = poly[(i + 1) % n];
        nn[0] += (a[1] - b[1]) * (a[2] + b[2]);
        nn[1] += (a[2] - b[2]) * (a[0] + b[0]);
        nn[2] += (a[0] - b[0]) * (a[1] + b[1]);
    }
    let ln = norm(nn);
    if ln < 1e-9 {
        return Hit::No;
    }
    let nn = mul(nn, 1.0 / ln);
    let den = dot(nn, d);
    if den.abs() < 1e-9 {
        return Hit::No;
    }
    let t = dot(nn, sub(poly[0], o)) / den;
    if t < -1e-4 {
        return Hit::No;
    }
    let p = add(o, mul(d, t));
    // proyección
    let ax = if nn[0].abs() >= nn[1].abs() && nn[0].abs() >= nn[2].abs() {
        0
    } else if nn[1].abs() >= nn[2].abs() {
        1
    } else {
        2
    };
    let (u, v) = match ax {
        0 => (1, 2),
        1 => (0, 2),
        _ => (0, 1),
    };
    let px = p[u];
    let py = p[v];
    let mut inside = false;
    let mut mind = f64::INFINITY;
    for i in 0..n {
        let a = poly[i];
        let b = poly[(i + 1) % n];
        let (ax_, ay_, bx_, by_) = (a[u], a[v], b[u], b[v]);
        if (ay_ > py) != (by_ > py) {
            let xi = ax_ + (py - ay_) * (bx_ - ax_) / (by_ - ay_);
            if px < xi {
                inside = !inside;
            }
        }
        // distancia al segmento (en 3D)
        let ab = sub(b, a);
        let l2 = dot(ab, ab);
        let s = if l2 > 0.0 {
            (dot(sub(p, a), ab) / l2).clamp(0.0, 1.0)
        } else {
            0.0
        };
        let q = add(a, mul(ab, s));
        mind = mind.min(norm(sub(p, q)));
    }
    if mind < 2e-4 {
        return Hit::Unsure;
    }
    if !inside {
        return Hit::No;
    }
    if t < 1e-4 {
        return Hit::Unsure;
    }
    Hit::Yes
}

pub struct Expect {
    pub lo: f64,
    pub hi: f64,
    /// lo/hi si además se tolera el umbral 0.01 del test de cara posterior
    pub lo_bf: f64,
    pub hi_bf: f64,
    pub diffuse_only: f64,
}

fn sun_dir(az: f64, alt: f64) -> V3 {
    let (sa, ca) = az.to_radians().sin_cos();
    let (sl, cl) = alt.to_radians().sin_cos();
    [cl * sa, -cl * ca, sl]
}

/// Puntos de muestreo del hueco (independiente)
fn window_points(win: &Window, wall: &Wall) -> Vec<V3> {
    let wg = &win.geometry;
    let g = &wall.geometry;
    let pos = match wg.position {
        Some(p) => p,
        None => return vec![],
    };
    if g.position.is_none() || g.polygon.len() < 3 {
        return vec![];
    }
    let nx = ((wg.width / 20.0).round() as usize).min(10).max(5);
    let ny = ((wg.height / 20.0).round() as usize).min(10).max(5);
    let mut v = vec![];
    for j in 0..ny {
        for i in 0..nx {
            let x = pos.x as f64 + (i as f64 + 0.5) * wg.width as f64 / nx as f64;
            let y = pos.y as f64 + (j as f64 + 0.5) * wg.height as f64 / ny as f64;
            v.push(win_local_to_global(wall, x, y, -(wg.setback as f64)));
        }
    }
    v
}

/// Coordenadas de hueco (relativas al primer vértice y primer lado del polígono del opaco) a globales
fn win_local_to_global(wall: &Wall, x: f64, y: f64, z: f64) -> V3 {
    let g = &wall.geometry;
    let p0 = g.polygon[0];
    let p1 = g.polygon[1];
    let ex = [(p1.x - p0.x) as f64, (p1.y - p0.y) as f64];
    let l = (ex[0] * ex[0] + ex[1] * ex[1]).sqrt();
    let ex = [ex[0] / l, ex[1] / l];
    let ey = [-ex[1], ex[0]];
    let lx = p0.x as f64 + ex[0] * x + ey[0] * y;
    let ly = p0.y as f64 + ex[1] * x + ey[1] * y;
    local_to_global(g, [lx, ly, z]).unwrap()
}

fn reveal_polys(win: &Window, wall: &Wall) -> Vec<Vec<V3>> {
    let wg = &win.geometry;
    let pos = match wg.position {
        Some(p) => p,
        None => return vec![],
    };
    if wg.setback == 0.0 || wall.geometry.position.is_none() || wall.geometry.polygon.len() < 3 {
        return vec![];
    }
    let (x, y, w, h, s) = (
        pos.x as f64,
        pos.y as f64,
        wg.width as f64,
        wg.height as f64,
        wg.setback as f64,
    );
    let c = [(x, y), (x + w, y), (x + w, y + h), (x, y + h)];
    let mut out = vec![];
    for i in 0..4 {
        let a = c[i];
        let b = c[(i + 1) % 4];
        out.push(vec![
            win_local_to_global(wall, a.0, a.1, 0.0),
            win_local_to_global(wall, b.0, b.1, 0.0),
            win_local_to_global(wall, b.0, b.1, -s),
            win_local_to_global(wall, a.0, a.1, -s),
        ]);
    }
    out
}

pub fn expected(model: &Model, win: &Window) -> Option<Expect> {
    let wall = model.walls.iter().find(|w| w.id == win.wall)?;
    let zone = model.meta.climate;
    let latitude = CLIMATEMETADATA.lock().unwrap().get(&zone).unwrap().latitude;
    let rad = JULYRADDATA.lock().unwrap().get(&zone).unwrap().clone();

    let has_geom = wall.geometry.position.is_some() && win.geometry.position.is_some();
    let pts = if has_geom {
        window_points(win, wall)
    } else {
        vec![]
    };
    let mut occl: Vec<Vec<V3>> = vec![];
    for w in &model.walls {
        if w.id == wall.id {
            continue;
        }
        if w.bounds != BoundaryType::EXTERIOR && w.bounds != BoundaryType::ADIABATIC {
            continue;
        }
        if let Some(p) = geom_poly3(&w.geometry) {
            occl.push(p);
        }
    }
    for s in &model.shades {
        if let Some(p) = geom_poly3(&s.geometry) {
            occl.push(p);
        }
    }
    if has_geom {
        occl.extend(reveal_polys(win, wall));
    }
    let nw = rot(
        wall.geometry.azimuth as f64,
        wall.geometry.tilt as f64,
        [0.0, 0.0, 1.0],
    );

    let (mut slo, mut shi, mut slob, mut shib, mut sdif) = (0.0, 0.0, 0.0, 0.0, 0.0);
    let mut n = 0.0;
    for d in &rad {
        let nday = nday_from_md(d.month, d.day);
        let r = radiation_for_surface(
            nday,
            d.hour,
            SolarRadiation {
                dir: d.dir,
                dif: d.dif,
            },
            latitude,
            wall.geometry.tilt,
            wall.geometry.azimuth,
            0.2,
        );
        let (dir, dif) = (r.dir as f64, r.dif as f64);
        let s = sun_dir(d.azimuth as f64, d.altitude as f64);
        let cosi = dot(nw, s);
        let (flo, fhi);
        if pts.is_empty() {
            flo = 1.0;
            fhi = 1.0;
        } else if cosi <= 0.0 {
            flo = 0.0;
            fhi = 0.0;
        } else {
            let mut yes = 0;
            let mut unsure = 0;
            for p in &pts {
                let mut st = Hit::No;
                for o in &occl {
                    match ray_hits(*p, s, o) {
                        Hit::Yes => {
                            st = Hit::Yes;
                            break;
                        }
                        Hit::Unsure => st = Hit::Unsure,
                        Hit::No => {}
                    }
                }
                match st {
                    Hit::Yes => yes += 1,
                    Hit::Unsure => unsure += 1,
                    Hit::No => {}
                }
            }
            let np = pts.len() as f64;
            fhi = 1.0 - yes as f64 / np;
            flo = 1.0 - (yes + unsure) as f64 / np;
        }
        let (flob, fhib) = if !pts.is_empty() && cosi > 0.0 && cosi < 0.011 {
            (0.0, fhi)
        } else {
            (flo, fhi)
        };
        slo += (flo * dir + dif) / (dir + dif);
        shi += (fhi * dir + dif) / (dir + dif);
        slob += (flob * dir + dif) / (dir + dif);
        shib += (fhib * dir + dif) / (dir + dif);
        sdif += dif / (dir + dif);
        n += 1.0;
    }
    Some(Expect {
        lo: slo / n,
        hi: shi / n,
        lo_bf: slob / n,
        hi_bf: shib / n,
        diffuse_only: sdif / n,
    })
}

pub const ZONES: [ClimateZone; 32] = {
    use ClimateZone::*;
    [
        A1c, A2c, A3c, A4c, Alfa1c, Alfa2c, Alfa3c, Alfa4c, B1c, B2c, B3c, B4c, C1c, C2c, C3c,
        C4c, D1c, D2c, D3c, E1c, A3, A4, B3, B4, C1, C2, C3, C4, D1, D2, D3, E1,
    ]
};

/// Devuelve la lista de discrepancias (nombre, actual, lo, hi)
pub fn compare(model: &Model, label: &str, tol: f64, strict_bf: bool) -> Vec<String> {
    let map = model.compute_fshobst();
    let mut out = vec![];
    for win in &model.windows {
        let exp = match expected(model, win) {
            Some(e) => e,
            None => continue,
        };
        let act = match map.get(&win.id) {
            Some(a) => *a as f64,
            None => {
                out.push(format!("{label}: {} sin factor calculado", win.name));
                continue;
            }
        };
        let (lo, hi) = if strict_bf {
            (exp.lo, exp.hi)
        } else {
            (exp.lo_bf, exp.hi_bf)
        };
        if !(act >= 0.0 && act <= 1.0) {
            out.push(format!("{label}: {} fuera de [0,1]: {act}", win.name));
        }
        if act < lo - tol || act > hi + tol {
            out.push(format!(
                "{label}: {} ({:?}) actual {act:.3} esperado [{lo:.4}, {hi:.4}] (solo difusa {:.3})",
                win.name, model.meta.climate, exp.diffuse_only
            ));
        }
    }
    out
}

pub fn load(name: &str) -> Model {
    let s = std::fs::read_to_string(format!("tests/data/{name}.json")).unwrap();
    Model::from_json(&s).unwrap()
}

fn mk_wall(tilt: f32, az: f32, pos: [f32; 3], poly: Vec<[f32; 2]>, name: &str) -> Wall {
    let mut w = Wall::default();
    w.name = name.to_string();
    w.geometry = WallGeom {
        tilt,
        azimuth: az,
        position: Some(point![pos[0], pos[1], pos[2]]),
        polygon: poly.iter().map(|p| point![p[0], p[1]]).collect(),
    };
    w
}

fn mk_win(wall: &Wall, pos: [f32; 2], w: f32, h: f32, setback: f32, name: &str) -> Window {
    let mut win = Window::default();
    win.name = name.to_string();
    win.wall = wall.id;
    win.geometry = WinGeom {
        position: Some(point![pos[0], pos[1]]),
        width: w,
        height: h,
        setback,
    };
    win
}

fn empty_model(zone: ClimateZone) -> Model {
    let mut m = Model::default();
    m.meta.climate = zone;
    m
}

// ==========================================================================================
// demo_2: the reveal (set-back) surfaces of a window are placed with the window position taken
// directly as wall-local coordinates, while the sample points of the same window are placed in
// the frame of the wall polygon (origin at its first vertex, X along its first side). When that
// frame is not the identity (polygon not starting at (0,0) or first side not along +X, as in every
// roof converted from HULC) the reveal is built somewhere else and does not shade its own window.
//
// Cause: Window::shades_for_setback (bemodel/src/types/window.rs:56-137; positions at lines 70, 91,
//        110, 129) uses wall2world * (wpos.x, wpos.y, 0) without to_polygon_coords_matrix, while
//        Model::ray_origins_for_window (bemodel/src/energy/radiation.rs:270-297) applies it.
// Observed: same wall, polygon at (0,0): 0.66 (expected 0.66); polygon at (3,-2): 0.98 (expected 0.66);
//        real ejemplo_gt_aerotermia.json + skylight with 0.5 m reveal in roof P01_E05_CUB001: 1.00
//        (expected 0.46).
// Fix:   build the four reveal faces in the frame wall2world * (3D embedding of to_polygon_coords_matrix).
//
// Put this file in bemodel/tests/ and run:
//     cargo test -p bemodel --offline --test demo_2
// ==========================================================================================

/// The same south wall and the same set-back window described in two equivalent ways:
/// (a) polygon starting at (0,0) and (b) polygon starting at (3,-2) with the wall position
/// moved by (-3, 0, +2). Both describe exactly the same surfaces in space.
#[test]
fn same_wall_two_descriptions() {
    for zone in [ClimateZone::D3, ClimateZone::A3c] {
        let mut a = empty_model(zone);
        let wa = mk_wall(90.0, 0.0, [3.0, 0.0, -2.0], vec![[0.0, 0.0], [6.0, 0.0], [6.0, 3.0], [0.0, 3.0]], "S_a");
        let wina = mk_win(&wa, [2.0, 1.0], 1.5, 1.2, 0.4, "win_a");
        a.walls.push(wa);
        a.windows.push(wina);

        let mut b = empty_model(zone);
        let wb = mk_wall(90.0, 0.0, [0.0, 0.0, 0.0], vec![[3.0, -2.0], [9.0, -2.0], [9.0, 1.0], [3.0, 1.0]], "S_b");
        let winb = mk_win(&wb, [2.0, 1.0], 1.5, 1.2, 0.4, "win_b");
        b.walls.push(wb);
        b.windows.push(winb);

        // the two descriptions give the same sample points (so the window is the same window) ...
        let oa = a.ray_origins_for_window(&a.windows[0]);
        let ob = b.ray_origins_for_window(&b.windows[0]);
        for (p, q) in oa.iter().zip(ob.iter()) {
            assert!((p - q).norm() < 1e-4);
        }
        let fa = a.compute_fshobst()[&a.windows[0].id] as f64;
        let fb = b.compute_fshobst()[&b.windows[0].id] as f64;
        let ea = expected(&a, &a.windows[0]).unwrap();
        let eb = expected(&b, &b.windows[0]).unwrap();
        println!(
            "{zone:?}: (a) actual {fa} expected {:.3};  (b) actual {fb} expected {:.3}",
            ea.hi, eb.hi
        );
        assert!((ea.hi - eb.hi).abs() < 1e-6);
        assert!((fa - ea.hi).abs() <= 0.0075, "(a) {fa} vs {:.3}", ea.hi);
        // ... but in (b) the window's own reveal no longer shades it
        assert!(
            (fb - eb.hi).abs() <= 0.0075,
            "{zone:?}: set-back window, polygon starting at (3,-2): actual {fb}, expected {:.3} (and {fa} with the equivalent description)",
            eb.hi
        );
    }
}

/// Real model (bemodel/tests/data/ejemplo_gt_aerotermia.json) plus one skylight with a 0.5 m deep
/// lightwell in its real flat roof P01_E05_CUB001 (polygon [(-6,-6), (-24,-6), (-24,-24), (-6,-24)])
#[test]
fn setback_skylight_in_real_roof_of_ejemplo_gt_aerotermia() {
    let mut m = load("ejemplo_gt_aerotermia");
    let roof = m.get_wall_by_name("P01_E05_CUB001").unwrap().clone();
    let win = mk_win(&roof, [8.0, 8.0], 1.0, 1.0, 0.5, "new_skylight");
    let id = win.id;
    m.windows.push(win);
    let act = m.compute_fshobst()[&id] as f64;
    let exp = expected(&m, m.get_window(id).unwrap()).unwrap();
    // without reveal at all
    let mut m0 = m.clone();
    m0.windows.last_mut().unwrap().geometry.setback = 0.0;
    let act0 = m0.compute_fshobst()[&id] as f64;
    println!(
        "actual {act} (with setback 0: {act0}) expected [{:.3}, {:.3}] diffuse-only {:.3}",
        exp.lo, exp.hi, exp.diffuse_only
    );
    assert!(
        act >= exp.lo - 0.0075 && act <= exp.hi + 0.0075,
        "skylight with 0.5 m reveal in P01_E05_CUB001: actual {act}, expected {:.3}",
        exp.hi
    );
}
