//! cte-facts: rustc_private driver used as RUSTC_WORKSPACE_WRAPPER.
//! Dumps, for every workspace crate/target compiled, one JSON fact file with
//! MIR bodies (resolved callees), ADTs (with serde attributes from the expanded AST),
//! trait impls, statics/consts and unsafe usage.
#![feature(rustc_private)]
#![allow(clippy::all)]

extern crate rustc_abi;
extern crate rustc_ast;
extern crate rustc_ast_pretty;
extern crate rustc_driver;
extern crate rustc_hir;
extern crate rustc_interface;
extern crate rustc_middle;
extern crate rustc_span;
extern crate rustc_type_ir;

mod json;
use json::J;

use rustc_driver::Compilation;
use rustc_hir::def::DefKind;
use rustc_hir::def_id::{DefId, LocalDefId};
use rustc_interface::interface::Compiler;
use rustc_middle::mir;
use rustc_middle::ty::print::with_no_trimmed_paths;
use rustc_middle::ty::{self, Ty, TyCtxt};
use rustc_span::Span;
use std::collections::BTreeMap;

struct SerdeAttrs {
    container: Vec<String>,
    fields: BTreeMap<String, Vec<String>>, // struct fields (or tuple idx)
    variants: BTreeMap<String, (Vec<String>, BTreeMap<String, Vec<String>>)>,
}

struct Cb {
    out_dir: String,
    tag: String,
    is_test: bool,
    serde: BTreeMap<String, SerdeAttrs>, // key: "file:line:col" of item ident
}

fn span_key(tcx: TyCtxt<'_>, sp: Span) -> String {
    let sm = tcx.sess.source_map();
    let lo = sm.lookup_char_pos(sp.lo());
    format!("{}:{}:{}", fname(&lo.file.name), lo.line, lo.col.0)
}

fn fname(n: &rustc_span::FileName) -> String {
    let s = format!("{}", n.prefer_local_unconditionally());
    s
}

fn span_j(tcx: TyCtxt<'_>, sp: Span) -> J {
    let sp = sp.source_callsite();
    let sm = tcx.sess.source_map();
    let lo = sm.lookup_char_pos(sp.lo());
    let hi = sm.lookup_char_pos(sp.hi());
    J::A(vec![J::s(fname(&lo.file.name)), J::I(lo.line as i128), J::I(hi.line as i128)])
}

fn macro_bt(sp: Span) -> J {
    let v: Vec<J> = sp
        .macro_backtrace()
        .map(|e| match e.kind {
            rustc_span::ExpnKind::Macro(_, name) => J::s(format!("{}!", name)),
            rustc_span::ExpnKind::Desugaring(d) => J::s(format!("desugar:{}", d.descr())),
            rustc_span::ExpnKind::AstPass(_) => J::s("astpass"),
            rustc_span::ExpnKind::Root => J::s("root"),
        })
        .collect();
    if v.is_empty() {
        J::Null
    } else {
        J::A(v)
    }
}

/// Stable cross-crate identifier of a definition.
fn def_id_str(tcx: TyCtxt<'_>, did: DefId) -> String {
    format!("{}{}", tcx.crate_name(did.krate), tcx.def_path(did).to_string_no_crate_verbose())
}

fn pretty_path(tcx: TyCtxt<'_>, did: DefId) -> String {
    let p = with_no_trimmed_paths!(tcx.def_path_str(did));
    if did.is_local() {
        format!("{}::{}", tcx.crate_name(did.krate), p)
    } else {
        p
    }
}

fn ty_str(t: Ty<'_>) -> String {
    with_no_trimmed_paths!(format!("{}", t))
}

fn ty_tree<'tcx>(tcx: TyCtxt<'tcx>, t: Ty<'tcx>, depth: usize) -> J {
    if depth > 8 {
        return J::O(vec![("k", J::s("deep")), ("s", J::s(ty_str(t)))]);
    }
    match t.kind() {
        ty::Adt(adt, args) => {
            let a: Vec<J> = args.iter().filter_map(|g| g.as_type()).map(|x| ty_tree(tcx, x, depth + 1)).collect();
            J::O(vec![
                ("k", J::s("adt")),
                ("id", J::s(def_id_str(tcx, adt.did()))),
                ("path", J::s(pretty_path(tcx, adt.did()))),
                ("args", J::A(a)),
            ])
        }
        ty::Ref(_, inner, m) => J::O(vec![
            ("k", J::s("ref")),
            ("mut", J::B(m.is_mut())),
            ("args", J::A(vec![ty_tree(tcx, *inner, depth + 1)])),
        ]),
        ty::RawPtr(inner, m) => J::O(vec![
            ("k", J::s("ptr")),
            ("mut", J::B(m.is_mut())),
            ("args", J::A(vec![ty_tree(tcx, *inner, depth + 1)])),
        ]),
        ty::Tuple(ts) => J::O(vec![
            ("k", J::s("tuple")),
            ("args", J::A(ts.iter().map(|x| ty_tree(tcx, x, depth + 1)).collect())),
        ]),
        ty::Array(inner, n) => J::O(vec![
            ("k", J::s("array")),
            ("len", J::s(format!("{}", n))),
            ("args", J::A(vec![ty_tree(tcx, *inner, depth + 1)])),
        ]),
        ty::Slice(inner) => J::O(vec![("k", J::s("slice")), ("args", J::A(vec![ty_tree(tcx, *inner, depth + 1)]))]),
        ty::Bool | ty::Char | ty::Int(_) | ty::Uint(_) | ty::Float(_) | ty::Str | ty::Never => {
            J::O(vec![("k", J::s("prim")), ("s", J::s(ty_str(t)))])
        }
        ty::Closure(did, _) => J::O(vec![("k", J::s("closure")), ("id", J::s(def_id_str(tcx, *did)))]),
        ty::FnDef(did, _) => J::O(vec![("k", J::s("fndef")), ("id", J::s(def_id_str(tcx, *did)))]),
        ty::FnPtr(..) => J::O(vec![("k", J::s("fnptr")), ("s", J::s(ty_str(t)))]),
        ty::Dynamic(..) => J::O(vec![("k", J::s("dyn")), ("s", J::s(ty_str(t)))]),
        ty::Param(_) => J::O(vec![("k", J::s("param")), ("s", J::s(ty_str(t)))]),
        _ => J::O(vec![("k", J::s("other")), ("s", J::s(ty_str(t)))]),
    }
}

#[derive(Default)]
struct BoundState<'tcx> {
    impls: std::collections::BTreeSet<String>,
    closures: std::collections::BTreeSet<String>,
    wild: std::collections::BTreeSet<String>,
    dynw: std::collections::BTreeSet<String>,
    seen: std::collections::HashSet<ty::TraitRef<'tcx>>,
}

struct BodyCx<'a, 'tcx> {
    tcx: TyCtxt<'tcx>,
    body: &'a mir::Body<'tcx>,
    def: LocalDefId,
    tenv: ty::TypingEnv<'tcx>,
}

impl<'a, 'tcx> BodyCx<'a, 'tcx> {
    fn place(&self, p: &mir::Place<'tcx>) -> J {
        let tcx = self.tcx;
        let mut projs: Vec<J> = Vec::new();
        let mut pty = mir::PlaceTy::from_ty(self.body.local_decls[p.local].ty);
        for elem in p.projection.iter() {
            let s = match elem {
                mir::ProjectionElem::Deref => "*".to_string(),
                mir::ProjectionElem::Field(f, _) => {
                    let mut name = None;
                    if let ty::Adt(adt, _) = pty.ty.kind() {
                        if adt.is_enum() {
                            if let Some(v) = pty.variant_index {
                                name = Some(adt.variant(v).fields[f].name.to_string());
                            }
                        } else {
                            name = Some(adt.non_enum_variant().fields[f].name.to_string());
                        }
                    }
                    match name {
                        Some(n) => format!(".{}", n),
                        None => format!(".{}", f.as_usize()),
                    }
                }
                mir::ProjectionElem::Downcast(name, vi) => match name {
                    Some(n) => format!("@{}", n),
                    None => format!("@#{}", vi.as_usize()),
                },
                mir::ProjectionElem::Index(l) => format!("[_{}]", l.as_usize()),
                mir::ProjectionElem::ConstantIndex { offset, from_end, .. } => {
                    if from_end {
                        format!("[-c{}]", offset)
                    } else {
                        format!("[c{}]", offset)
                    }
                }
                mir::ProjectionElem::Subslice { from, to, from_end } => {
                    format!("[s{}:{}:{}]", from, to, from_end)
                }
                _ => "?".to_string(),
            };
            projs.push(J::S(s));
            pty = pty.projection_ty(tcx, elem);
        }
        if projs.is_empty() {
            J::I(p.local.as_usize() as i128)
        } else {
            J::O(vec![("l", J::I(p.local.as_usize() as i128)), ("p", J::A(projs))])
        }
    }

    fn fn_ref(&self, did: DefId, gargs: ty::GenericArgsRef<'tcx>, resolve: bool) -> Vec<(&'static str, J)> {
        let tcx = self.tcx;
        let mut v: Vec<(&'static str, J)> = vec![
            ("fn", J::s(pretty_path(tcx, did))),
            ("id", J::s(def_id_str(tcx, did))),
            ("krate", J::s(tcx.crate_name(did.krate).to_string())),
        ];
        let g: Vec<J> = gargs.iter().filter_map(|g| g.as_type()).map(|t| J::s(ty_str(t))).collect();
        if !g.is_empty() {
            v.push(("g", J::A(g)));
        }
        // closures / fn items / adts mentioned in generic args (any depth)
        let mut cls = Vec::new();
        let mut fis = Vec::new();
        let mut adts = Vec::new();
        for ga in gargs.iter() {
            for inner in ga.walk() {
                if let Some(t) = inner.as_type() {
                    match t.kind() {
                        ty::Closure(d, _) => cls.push(J::s(def_id_str(tcx, *d))),
                        ty::FnDef(d, _) => fis.push(J::s(def_id_str(tcx, *d))),
                        ty::Adt(a, _) => {
                            adts.push(J::s(def_id_str(tcx, a.did())));
                        }
                        _ => {}
                    }
                }
            }
        }
        if !cls.is_empty() {
            v.push(("gcl", J::A(cls)));
        }
        if !fis.is_empty() {
            v.push(("gfn", J::A(fis)));
        }
        if !adts.is_empty() {
            v.push(("gadt", J::A(adts)));
        }
        if resolve {
            // trait bounds of the callee, instantiated: how external generic code can call back
            let mut bounds = Vec::new();
            let preds = tcx.predicates_of(did).instantiate(tcx, gargs);
            for c in preds.predicates.iter() {
                let c = c.skip_norm_wip();
                if let Some(tp) = c.as_trait_clause() {
                    let tp = tp.skip_binder();
                    let trd = tp.def_id();
                    let st = tp.self_ty();
                    let mut sadts = Vec::new();
                    let mut wild = false;
                    for ga in tp.trait_ref.args.iter() {
                        for inner in ga.walk() {
                            if let Some(t) = inner.as_type() {
                                match t.kind() {
                                    ty::Adt(a, _) => sadts.push(J::s(def_id_str(tcx, a.did()))),
                                    ty::Closure(d, _) => sadts.push(J::s(def_id_str(tcx, *d))),
                                    ty::FnDef(d, _) => sadts.push(J::s(def_id_str(tcx, *d))),
                                    ty::Param(_) | ty::Alias(..) | ty::Dynamic(..) => wild = true,
                                    _ => {}
                                }
                            }
                        }
                    }
                    let direct = match st.kind() {
                        ty::Adt(a, _) => J::s(def_id_str(tcx, a.did())),
                        _ => J::Null,
                    };
                    let sup: Vec<J> = rustc_type_ir::elaborate::supertrait_def_ids(tcx, trd).map(|d| J::s(pretty_path(tcx, d))).collect();
                    bounds.push(J::O(vec![
                        ("traits", J::A(sup)),
                        ("self", J::s(ty_str(st))),
                        ("direct", direct),
                        ("adts", J::A(sadts)),
                        ("wild", J::B(wild)),
                    ]));
                }
            }
            if !bounds.is_empty() {
                v.push(("bounds", J::A(bounds)));
            }
            // precise resolution of the bounds through the trait solver
            {
                let mut st = BoundState::default();
                let clauses: Vec<ty::Clause<'tcx>> = preds.predicates.iter().map(|c| c.skip_norm_wip()).collect();
                self.collect_bound_impls(&clauses, &mut st, 0);
                if !st.impls.is_empty() {
                    v.push(("bimpls", J::A(st.impls.iter().map(J::s).collect())));
                }
                if !st.closures.is_empty() {
                    v.push(("bcl", J::A(st.closures.iter().map(J::s).collect())));
                }
                if !st.wild.is_empty() {
                    v.push(("bwild", J::A(st.wild.iter().map(J::s).collect())));
                }
                if !st.dynw.is_empty() {
                    v.push(("bdyn", J::A(st.dynw.iter().map(J::s).collect())));
                }
                v.push(("bprecise", J::B(true)));
            }
            if let Some(tr) = tcx.trait_of_assoc(did) {
                v.push(("trait", J::s(pretty_path(tcx, tr))));
            }
            match ty::Instance::try_resolve(tcx, self.tenv, did, gargs) {
                Ok(Some(inst)) => {
                    let rd = inst.def_id();
                    if rd != did {
                        v.push(("rfn", J::s(pretty_path(tcx, rd))));
                        v.push(("rid", J::s(def_id_str(tcx, rd))));
                        v.push(("rkrate", J::s(tcx.crate_name(rd.krate).to_string())));
                    }
                    let kind = match inst.def {
                        ty::InstanceKind::Item(_) => "item",
                        ty::InstanceKind::Virtual(..) => "virtual",
                        ty::InstanceKind::ClosureOnceShim { .. } => "closure_once",
                        ty::InstanceKind::FnPtrShim(..) => "fnptr_shim",
                        ty::InstanceKind::DropGlue(..) => "drop_glue",
                        ty::InstanceKind::CloneShim(..) => "clone_shim",
                        ty::InstanceKind::Intrinsic(_) => "intrinsic",
                        _ => "other",
                    };
                    v.push(("rk", J::s(kind)));
                }
                Ok(None) => v.push(("rk", J::s("unresolved"))),
                Err(_) => v.push(("rk", J::s("error"))),
            }
        }
        v
    }

    fn constant(&self, c: &mir::ConstOperand<'tcx>) -> J {
        let tcx = self.tcx;
        let ty = c.const_.ty();
        let mut v: Vec<(&'static str, J)> = Vec::new();
        if let ty::FnDef(did, gargs) = ty.kind() {
            return J::O(self.fn_ref(*did, gargs, true));
        }
        v.push(("ty", J::s(ty_str(ty))));
        if let ty::Closure(did, _) = ty.kind() {
            v.push(("closure", J::s(def_id_str(tcx, *did))));
            return J::O(v);
        }
        // named constant?
        if let mir::Const::Unevaluated(u, _) = c.const_ {
            v.push(("def", J::s(pretty_path(tcx, u.def))));
            if let Some(pi) = u.promoted {
                v.push(("promoted", J::I(pi.as_usize() as i128)));
            }
        }
        if let Some(sdid) = c.check_static_ptr(tcx) {
            v.push(("static", J::s(pretty_path(tcx, sdid))));
            v.push(("static_id", J::s(def_id_str(tcx, sdid))));
            return J::O(v);
        }
        match c.const_.eval(tcx, self.tenv, c.span) {
            Ok(val) => {
                if let Some(si) = val.try_to_scalar_int() {
                    match ty.kind() {
                        ty::Bool => v.push(("v", J::s(if si.try_to_bool().unwrap_or(false) { "true" } else { "false" }))),
                        ty::Float(ty::FloatTy::F32) => {
                            let bits = si.to_bits_unchecked() as u32;
                            v.push(("v", J::s(format!("{:?}", f32::from_bits(bits)))));
                        }
                        ty::Float(ty::FloatTy::F64) => {
                            let bits = si.to_bits_unchecked() as u64;
                            v.push(("v", J::s(format!("{:?}", f64::from_bits(bits)))));
                        }
                        ty::Int(_) => {
                            let size = si.size();
                            v.push(("v", J::s(format!("{}", si.to_int(size)))));
                        }
                        ty::Uint(_) => {
                            v.push(("v", J::s(format!("{}", si.to_bits_unchecked()))));
                        }
                        ty::Char => {
                            let u = si.to_bits_unchecked() as u32;
                            v.push(("v", J::s(char::from_u32(u).map(|c| c.to_string()).unwrap_or_default())));
                        }
                        _ => {
                            v.push(("bits", J::s(format!("{}", si.to_bits_unchecked()))));
                        }
                    }
                } else if let Some(bytes) = (if matches!(val, mir::ConstValue::Slice { .. }) { val.try_get_slice_bytes_for_diagnostics(tcx) } else { None }) {
                    match std::str::from_utf8(bytes) {
                        Ok(s) if matches!(ty.kind(), ty::Ref(_, inner, _) if inner.is_str()) => v.push(("s", J::s(s))),
                        _ => v.push(("bytes", J::A(bytes.iter().map(|b| J::I(*b as i128)).collect()))),
                    }
                } else if let mir::ConstValue::ZeroSized = val {
                    v.push(("zst", J::B(true)));
                } else {
                    // reference to a byte array etc.
                    if let Some(bytes) = self.ref_bytes(&val, ty) {
                        v.push(("bytes", J::A(bytes.iter().map(|b| J::I(*b as i128)).collect())));
                    } else {
                        v.push(("dbg", J::s(with_no_trimmed_paths!(format!("{}", c.const_)))));
                    }
                }
            }
            Err(_) => {
                v.push(("dbg", J::s(with_no_trimmed_paths!(format!("{}", c.const_)))));
            }
        }
        J::O(v)
    }

    fn collect_bound_impls(&self, clauses: &[ty::Clause<'tcx>], st: &mut BoundState<'tcx>, depth: usize) {
        let tcx = self.tcx;
        if depth > 12 {
            st.wild.insert("<depth>".to_string());
            return;
        }
        for c in clauses {
            let Some(tp) = c.as_trait_clause() else { continue };
            let tr0 = tcx.instantiate_bound_regions_with_erased(tp).trait_ref;
            let tr0 = tcx.erase_and_anonymize_regions(tr0);
            for sup in rustc_type_ir::elaborate::supertraits(tcx, ty::Binder::dummy(tr0)) {
                let tr = tcx.instantiate_bound_regions_with_erased(sup);
                let tr = tcx.erase_and_anonymize_regions(tr);
                self.bound_one(tr, st, depth);
            }
        }
    }

    fn bound_one(&self, tr: ty::TraitRef<'tcx>, st: &mut BoundState<'tcx>, depth: usize) {
        use rustc_middle::ty::TypeVisitableExt;
        let tcx = self.tcx;
        let tr = match tcx.try_normalize_erasing_regions(self.tenv, ty::Unnormalized::new_wip(tr)) {
            Ok(t) => t,
            Err(_) => {
                st.wild.insert(pretty_path(tcx, tr.def_id));
                return;
            }
        };
        if tr.has_aliases() || tr.has_infer() || tr.has_placeholders() || matches!(tr.self_ty().kind(), ty::Param(_)) {
            st.wild.insert(pretty_path(tcx, tr.def_id));
            return;
        }
        if !st.seen.insert(tr) {
            return;
        }
        // marker / auto traits have no methods
        if tcx.trait_is_auto(tr.def_id) || tcx.is_lang_item(tr.def_id, rustc_hir::LangItem::Sized) {
            return;
        }
        let self_ty = tr.self_ty();
        match self_ty.kind() {
            ty::Closure(d, _) => {
                st.closures.insert(def_id_str(tcx, *d));
            }
            ty::FnDef(d, _) => {
                st.closures.insert(def_id_str(tcx, *d));
            }
            ty::Dynamic(..) => {
                st.dynw.insert(pretty_path(tcx, tr.def_id));
                return;
            }
            _ => {}
        }
        match tcx.codegen_select_candidate(self.tenv.as_query_input(tr)) {
            Ok(src) => match src {
                rustc_middle::traits::ImplSource::UserDefined(d) => {
                    if d.impl_def_id.is_local() {
                        st.impls.insert(def_id_str(tcx, d.impl_def_id));
                    }
                    let preds = tcx.predicates_of(d.impl_def_id).instantiate(tcx, d.args);
                    let clauses: Vec<ty::Clause<'tcx>> = preds.predicates.iter().map(|c| c.skip_norm_wip()).collect();
                    self.collect_bound_impls(&clauses, st, depth + 1);
                }
                rustc_middle::traits::ImplSource::Param(_) => {
                    st.wild.insert(pretty_path(tcx, tr.def_id));
                }
                rustc_middle::traits::ImplSource::Builtin(..) => {
                    // builtin impls (Clone/Copy for tuples, arrays, closures; Fn* for closures and fn items):
                    // component types must implement the same trait
                    match self_ty.kind() {
                        ty::Tuple(ts) => {
                            for t in ts.iter() {
                                if tr.args.len() == 1 {
                                    let ntr = ty::TraitRef::new(tcx, tr.def_id, [t]);
                                    self.bound_one(ntr, st, depth + 1);
                                }
                            }
                        }
                        ty::Array(t, _) | ty::Slice(t) => {
                            if tr.args.len() == 1 {
                                let ntr = ty::TraitRef::new(tcx, tr.def_id, [*t]);
                                self.bound_one(ntr, st, depth + 1);
                            }
                        }
                        ty::Closure(_, cargs) => {
                            if tr.args.len() == 1 {
                                for t in cargs.as_closure().upvar_tys().iter() {
                                    let ntr = ty::TraitRef::new(tcx, tr.def_id, [t]);
                                    self.bound_one(ntr, st, depth + 1);
                                }
                            }
                        }
                        _ => {}
                    }
                }
            },
            Err(_) => {
                st.wild.insert(pretty_path(tcx, tr.def_id));
            }
        }
    }

    fn adts_in(&self, t: Ty<'tcx>) -> J {
        let mut v = Vec::new();
        for inner in t.walk() {
            if let Some(t) = inner.as_type() {
                match t.kind() {
                    ty::Adt(a, _) => v.push(J::s(def_id_str(self.tcx, a.did()))),
                    ty::Closure(d, _) => v.push(J::s(def_id_str(self.tcx, *d))),
                    _ => {}
                }
            }
        }
        J::A(v)
    }

    fn ref_bytes(&self, val: &mir::ConstValue, ty: Ty<'tcx>) -> Option<Vec<u8>> {
        let tcx = self.tcx;
        // &[u8; N]
        let ty::Ref(_, inner, _) = ty.kind() else { return None };
        let ty::Array(elem, len) = inner.kind() else { return None };
        if !matches!(elem.kind(), ty::Uint(ty::UintTy::U8)) {
            return None;
        }
        let n = len.try_to_target_usize(tcx)? as usize;
        let mir::ConstValue::Scalar(mir::interpret::Scalar::Ptr(ptr, _)) = val else { return None };
        let (prov, off) = ptr.prov_and_relative_offset();
        let alloc = tcx.global_alloc(prov.alloc_id());
        let mir::interpret::GlobalAlloc::Memory(mem) = alloc else { return None };
        let a = mem.inner();
        let start = off.bytes() as usize;
        let bytes = a.inspect_with_uninit_and_ptr_outside_interpreter(start..start + n);
        Some(bytes.to_vec())
    }

    fn operand(&self, o: &mir::Operand<'tcx>) -> J {
        match o {
            mir::Operand::Copy(p) => J::O(vec![("c", self.place(p))]),
            mir::Operand::Move(p) => J::O(vec![("m", self.place(p))]),
            mir::Operand::Constant(c) => J::O(vec![("k", self.constant(c))]),
            #[allow(unreachable_patterns)]
            _ => J::O(vec![("other", J::s(format!("{:?}", o)))]),
        }
    }

    fn rvalue(&self, rv: &mir::Rvalue<'tcx>) -> J {
        let tcx = self.tcx;
        match rv {
            mir::Rvalue::Use(o, _) => J::O(vec![("r", J::s("use")), ("a", self.operand(o))]),
            mir::Rvalue::Repeat(o, n) => {
                J::O(vec![("r", J::s("repeat")), ("a", self.operand(o)), ("n", J::s(format!("{}", n)))])
            }
            mir::Rvalue::Ref(_, bk, p) => J::O(vec![
                ("r", J::s("ref")),
                ("mut", J::B(matches!(bk, mir::BorrowKind::Mut { .. }))),
                ("p", self.place(p)),
            ]),
            mir::Rvalue::RawPtr(k, p) => {
                J::O(vec![("r", J::s("rawptr")), ("mut", J::B(k.to_mutbl_lossy().is_mut())), ("p", self.place(p))])
            }
            mir::Rvalue::Cast(kind, o, t) => J::O(vec![
                ("r", J::s("cast")),
                ("kind", J::s(format!("{:?}", kind))),
                ("a", self.operand(o)),
                ("ty", J::s(ty_str(*t))),
                ("src_ty", J::s(ty_str(o.ty(self.body, tcx)))),
                ("src_adts", self.adts_in(o.ty(self.body, tcx))),
            ]),
            mir::Rvalue::BinaryOp(op, ab) => J::O(vec![
                ("r", J::s("bin")),
                ("op", J::s(format!("{:?}", op))),
                ("a", self.operand(&ab.0)),
                ("b", self.operand(&ab.1)),
            ]),
            mir::Rvalue::UnaryOp(op, a) => {
                J::O(vec![("r", J::s("un")), ("op", J::s(format!("{:?}", op))), ("a", self.operand(a))])
            }
            mir::Rvalue::Discriminant(p) => J::O(vec![("r", J::s("discr")), ("p", self.place(p))]),
            mir::Rvalue::Aggregate(kind, ops) => {
                let mut v: Vec<(&'static str, J)> = vec![("r", J::s("agg"))];
                match &**kind {
                    mir::AggregateKind::Array(t) => {
                        v.push(("ak", J::s("array")));
                        v.push(("ty", J::s(ty_str(*t))));
                    }
                    mir::AggregateKind::Tuple => v.push(("ak", J::s("tuple"))),
                    mir::AggregateKind::Adt(did, vidx, _args, _, _) => {
                        v.push(("ak", J::s("adt")));
                        v.push(("adt", J::s(pretty_path(tcx, *did))));
                        v.push(("adt_id", J::s(def_id_str(tcx, *did))));
                        let adt = tcx.adt_def(*did);
                        let var = adt.variant(*vidx);
                        v.push(("variant", J::s(var.name.to_string())));
                        v.push(("fields", J::A(var.fields.iter().map(|f| J::s(f.name.to_string())).collect())));
                    }
                    mir::AggregateKind::Closure(did, _) => {
                        v.push(("ak", J::s("closure")));
                        v.push(("closure", J::s(def_id_str(tcx, *did))));
                    }
                    mir::AggregateKind::Coroutine(did, _) | mir::AggregateKind::CoroutineClosure(did, _) => {
                        v.push(("ak", J::s("coroutine")));
                        v.push(("closure", J::s(def_id_str(tcx, *did))));
                    }
                    mir::AggregateKind::RawPtr(..) => v.push(("ak", J::s("rawptr"))),
                }
                v.push(("ops", J::A(ops.iter().map(|o| self.operand(o)).collect())));
                J::O(v)
            }
            mir::Rvalue::CopyForDeref(p) => J::O(vec![("r", J::s("use")), ("a", J::O(vec![("c", self.place(p))]))]),
            other => J::O(vec![("r", J::s("other")), ("dbg", J::s(format!("{:?}", other)))]),
        }
    }

    fn statement(&self, s: &mir::Statement<'tcx>) -> Option<J> {
        match &s.kind {
            mir::StatementKind::Assign(b) => {
                let (p, rv) = &**b;
                Some(J::O(vec![
                    ("s", J::s("assign")),
                    ("p", self.place(p)),
                    ("rv", self.rvalue(rv)),
                    ("ln", J::I(self.line(s.source_info.span))),
                    ("mb", macro_bt(s.source_info.span)),
                ]))
            }
            mir::StatementKind::SetDiscriminant { place, variant_index } => Some(J::O(vec![
                ("s", J::s("setdiscr")),
                ("p", self.place(place)),
                ("v", J::I(variant_index.as_usize() as i128)),
            ])),
            mir::StatementKind::StorageDead(l) => Some(J::O(vec![("s", J::s("dead")), ("l", J::I(l.as_usize() as i128))])),
            mir::StatementKind::StorageLive(l) => Some(J::O(vec![("s", J::s("live")), ("l", J::I(l.as_usize() as i128))])),
            _ => None,
        }
    }

    fn line(&self, sp: Span) -> i128 {
        let sp = sp.source_callsite();
        let sm = self.tcx.sess.source_map();
        sm.lookup_char_pos(sp.lo()).line as i128
    }

    fn terminator(&self, t: &mir::Terminator<'tcx>) -> J {
        let bb = |b: &mir::BasicBlock| J::I(b.as_usize() as i128);
        let unw = |u: &mir::UnwindAction| match u {
            mir::UnwindAction::Cleanup(b) => J::I(b.as_usize() as i128),
            _ => J::Null,
        };
        let ln = ("ln", J::I(self.line(t.source_info.span)));
        let mb = ("mb", macro_bt(t.source_info.span));
        match &t.kind {
            mir::TerminatorKind::Goto { target } => J::O(vec![("t", J::s("goto")), ("to", bb(target))]),
            mir::TerminatorKind::SwitchInt { discr, targets } => {
                let mut arms = Vec::new();
                for (val, tgt) in targets.iter() {
                    arms.push(J::A(vec![J::s(format!("{}", val)), bb(&tgt)]));
                }
                J::O(vec![
                    ("t", J::s("switch")),
                    ("d", self.operand(discr)),
                    ("dty", J::s(ty_str(discr.ty(self.body, self.tcx)))),
                    ("arms", J::A(arms)),
                    ("else", bb(&targets.otherwise())),
                    ln,
                    mb,
                ])
            }
            mir::TerminatorKind::Return => J::O(vec![("t", J::s("return"))]),
            mir::TerminatorKind::Unreachable => J::O(vec![("t", J::s("unreachable"))]),
            mir::TerminatorKind::UnwindResume => J::O(vec![("t", J::s("resume"))]),
            mir::TerminatorKind::UnwindTerminate(_) => J::O(vec![("t", J::s("terminate"))]),
            mir::TerminatorKind::Drop { place, target, unwind, .. } => {
                let pty = place.ty(self.body, self.tcx).ty;
                J::O(vec![
                    ("t", J::s("drop")),
                    ("p", self.place(place)),
                    ("pty", J::s(ty_str(pty))),
                    ("padts", self.adts_in(pty)),
                    ("to", bb(target)),
                    ("unw", unw(unwind)),
                ])
            }
            mir::TerminatorKind::Call { func, args, destination, target, unwind, fn_span, .. } => {
                let mut v: Vec<(&'static str, J)> = vec![("t", J::s("call"))];
                v.push(("f", self.operand(func)));
                v.push(("args", J::A(args.iter().map(|a| self.operand(&a.node)).collect())));
                v.push(("dest", self.place(destination)));
                v.push(("dty", J::s(ty_str(destination.ty(self.body, self.tcx).ty))));
                if let Some(t) = target {
                    v.push(("to", bb(t)));
                }
                v.push(("unw", unw(unwind)));
                v.push(("ln", J::I(self.line(*fn_span))));
                v.push(mb);
                J::O(v)
            }
            mir::TerminatorKind::TailCall { func, args, .. } => J::O(vec![
                ("t", J::s("tailcall")),
                ("f", self.operand(func)),
                ("args", J::A(args.iter().map(|a| self.operand(&a.node)).collect())),
                ln,
            ]),
            mir::TerminatorKind::Assert { cond, expected, msg, target, unwind } => {
                let (kind, detail, ops): (&str, String, Vec<J>) = match &**msg {
                    mir::AssertKind::BoundsCheck { len, index } => {
                        ("BoundsCheck", String::new(), vec![self.operand(len), self.operand(index)])
                    }
                    mir::AssertKind::Overflow(op, a, b) => {
                        ("Overflow", format!("{:?}", op), vec![self.operand(a), self.operand(b)])
                    }
                    mir::AssertKind::OverflowNeg(a) => ("OverflowNeg", String::new(), vec![self.operand(a)]),
                    mir::AssertKind::DivisionByZero(a) => ("DivisionByZero", String::new(), vec![self.operand(a)]),
                    mir::AssertKind::RemainderByZero(a) => ("RemainderByZero", String::new(), vec![self.operand(a)]),
                    other => ("Other", format!("{:?}", other), vec![]),
                };
                J::O(vec![
                    ("t", J::s("assert")),
                    ("cond", self.operand(cond)),
                    ("expected", J::B(*expected)),
                    ("kind", J::s(kind)),
                    ("detail", J::s(detail)),
                    ("ops", J::A(ops)),
                    ("to", bb(target)),
                    ("unw", unw(unwind)),
                    ln,
                    mb,
                ])
            }
            other => J::O(vec![("t", J::s("other")), ("dbg", J::s(format!("{:?}", other)))]),
        }
    }

    fn dump(&self) -> J {
        let body = self.body;
        let mut locals = Vec::new();
        for (_l, d) in body.local_decls.iter_enumerated() {
            locals.push(J::O(vec![
                ("ty", J::s(ty_str(d.ty))),
                ("mut", J::B(d.mutability.is_mut())),
            ]));
        }
        let mut dbg = Vec::new();
        for vdi in body.var_debug_info.iter() {
            if let mir::VarDebugInfoContents::Place(p) = &vdi.value {
                dbg.push(J::O(vec![("name", J::s(vdi.name.to_string())), ("p", self.place(p))]));
            }
        }
        let mut blocks = Vec::new();
        for (_bb, data) in body.basic_blocks.iter_enumerated() {
            let stmts: Vec<J> = data.statements.iter().filter_map(|s| self.statement(s)).collect();
            blocks.push(J::O(vec![
                ("st", J::A(stmts)),
                ("term", self.terminator(data.terminator())),
                ("cleanup", if data.is_cleanup { J::B(true) } else { J::Null }),
            ]));
        }
        let _ = self.def;
        J::O(vec![
            ("argc", J::I(body.arg_count as i128)),
            ("locals", J::A(locals)),
            ("dbg", J::A(dbg)),
            ("blocks", J::A(blocks)),
        ])
    }
}

// ---------------------------------------------------------------- unsafe scan (HIR)
struct UnsafeVis<'tcx> {
    tcx: TyCtxt<'tcx>,
    found: Vec<J>,
}
impl<'tcx> rustc_hir::intravisit::Visitor<'tcx> for UnsafeVis<'tcx> {
    type NestedFilter = rustc_middle::hir::nested_filter::All;
    fn maybe_tcx(&mut self) -> Self::MaybeTyCtxt {
        self.tcx
    }
    fn visit_block(&mut self, b: &'tcx rustc_hir::Block<'tcx>) {
        if let rustc_hir::BlockCheckMode::UnsafeBlock(src) = b.rules {
            if matches!(src, rustc_hir::UnsafeSource::UserProvided) && !b.span.from_expansion() {
                self.found.push(J::O(vec![("kind", J::s("block")), ("span", span_j(self.tcx, b.span))]));
            }
        }
        rustc_hir::intravisit::walk_block(self, b);
    }
}

// ---------------------------------------------------------------- serde attrs (AST)
fn serde_attr_strings(attrs: &[rustc_ast::Attribute]) -> Vec<String> {
    let mut v = Vec::new();
    for a in attrs {
        if let Some(id) = a.name() {
            let n = id.as_str().to_string();
            if n == "serde" || n == "derive" {
                v.push(rustc_ast_pretty::pprust::attribute_to_string(a));
            }
        }
    }
    v
}

struct AstVis<'a, 'tcx> {
    tcx: TyCtxt<'tcx>,
    out: &'a mut BTreeMap<String, SerdeAttrs>,
}

impl<'a, 'tcx> AstVis<'a, 'tcx> {
    fn fields_of(&self, vd: &rustc_ast::VariantData) -> BTreeMap<String, Vec<String>> {
        let mut m = BTreeMap::new();
        for (i, f) in vd.fields().iter().enumerate() {
            let name = f.ident.map(|i| i.name.to_string()).unwrap_or_else(|| format!("{}", i));
            m.insert(name, serde_attr_strings(&f.attrs));
        }
        m
    }
}

impl<'a, 'tcx, 'ast> rustc_ast::visit::Visitor<'ast> for AstVis<'a, 'tcx> {
    fn visit_item(&mut self, item: &'ast rustc_ast::Item) {
        match &item.kind {
            rustc_ast::ItemKind::Struct(ident, _, vd) => {
                let sa = SerdeAttrs {
                    container: serde_attr_strings(&item.attrs),
                    fields: self.fields_of(vd),
                    variants: BTreeMap::new(),
                };
                self.out.insert(span_key(self.tcx, ident.span), sa);
            }
            rustc_ast::ItemKind::Enum(ident, _, ed) => {
                let mut variants = BTreeMap::new();
                for v in ed.variants.iter() {
                    variants.insert(v.ident.name.to_string(), (serde_attr_strings(&v.attrs), self.fields_of(&v.data)));
                }
                let sa = SerdeAttrs { container: serde_attr_strings(&item.attrs), fields: BTreeMap::new(), variants };
                self.out.insert(span_key(self.tcx, ident.span), sa);
            }
            _ => {}
        }
        rustc_ast::visit::walk_item(self, item);
    }
}

fn strs(v: &[String]) -> J {
    J::A(v.iter().map(J::s).collect())
}

impl rustc_driver::Callbacks for Cb {
    fn after_expansion<'tcx>(&mut self, _c: &Compiler, tcx: TyCtxt<'tcx>) -> Compilation {
        let resolver = tcx.resolver_for_lowering().borrow();
        let krate = &resolver.1;
        let mut vis = AstVis { tcx, out: &mut self.serde };
        rustc_ast::visit::walk_crate(&mut vis, krate);
        Compilation::Continue
    }

    fn after_analysis<'tcx>(&mut self, _c: &Compiler, tcx: TyCtxt<'tcx>) -> Compilation {
        let crate_name = tcx.crate_name(rustc_hir::def_id::LOCAL_CRATE).to_string();
        let mut fns = Vec::new();
        for did in tcx.hir_body_owners() {
            let kind = tcx.def_kind(did);
            let (kstr, use_opt) = match kind {
                DefKind::Fn => ("fn", true),
                DefKind::AssocFn => ("assocfn", true),
                DefKind::Closure => ("closure", true),
                DefKind::Static { .. } => ("static", false),
                DefKind::Const { .. } => ("const", false),
                DefKind::AssocConst { .. } => ("assocconst", false),
                DefKind::AnonConst => ("anonconst", false),
                DefKind::InlineConst => ("inlineconst", false),
                _ => ("other", false),
            };
            if kstr == "other" || kstr == "anonconst" || kstr == "inlineconst" {
                continue;
            }
            // skip generic consts etc. that cannot be ctfe'd safely
            let body: &mir::Body<'tcx> = if use_opt { tcx.optimized_mir(did) } else { tcx.mir_for_ctfe(did) };
            let tenv = ty::TypingEnv::post_analysis(tcx, did);
            let cx = BodyCx { tcx, body, def: did, tenv };
            let root = tcx.typeck_root_def_id(did.to_def_id());
            let mut v: Vec<(&'static str, J)> = vec![
                ("id", J::s(def_id_str(tcx, did.to_def_id()))),
                ("path", J::s(pretty_path(tcx, did.to_def_id()))),
                ("kind", J::s(kstr)),
                ("root", J::s(def_id_str(tcx, root))),
                ("span", span_j(tcx, tcx.def_span(did))),
                ("ret", J::s(ty_str(body.return_ty()))),
            ];
            let from_exp = tcx.def_span(did).from_expansion();
            v.push(("from_expansion", J::B(from_exp)));
            if matches!(kind, DefKind::Fn | DefKind::AssocFn) {
                let vis = tcx.visibility(did);
                v.push(("pub", J::B(vis.is_public())));
                let sig = tcx.fn_sig(did).instantiate_identity().skip_norm_wip().skip_binder();
                v.push(("inputs", J::A(sig.inputs().iter().map(|t| J::s(ty_str(*t))).collect())));
                v.push(("output", J::s(ty_str(sig.output()))));
                v.push(("unsafe_fn", J::B(sig.safety().is_unsafe())));
                if let Some(imp) = tcx.impl_of_assoc(did.to_def_id()) {
                    v.push(("impl", J::s(def_id_str(tcx, imp))));
                    v.push(("impl_derived", J::B(tcx.is_automatically_derived(imp))));
                    if let Some(tr) = tcx.impl_opt_trait_ref(imp) {
                        let tr = tr.instantiate_identity().skip_norm_wip();
                        v.push(("impl_trait", J::s(pretty_path(tcx, tr.def_id))));
                        v.push(("impl_self", J::s(ty_str(tr.self_ty()))));
                    } else {
                        let st = tcx.type_of(imp).instantiate_identity().skip_norm_wip();
                        v.push(("impl_self", J::s(ty_str(st))));
                    }
                }
            }
            if matches!(kind, DefKind::Static { .. }) {
                let t = tcx.type_of(did).instantiate_identity().skip_norm_wip();
                v.push(("static_ty", J::s(ty_str(t))));
                v.push(("static_mut", J::B(tcx.is_mutable_static(did.to_def_id()))));
                v.push(("freeze", J::B(t.is_freeze(tcx, tenv))));
            }
            v.push(("body", cx.dump()));
            if use_opt {
                let proms = tcx.promoted_mir(did);
                let mut pv = Vec::new();
                for pb in proms.iter() {
                    let pcx = BodyCx { tcx, body: pb, def: did, tenv };
                    pv.push(pcx.dump());
                }
                if !pv.is_empty() {
                    v.push(("promoted", J::A(pv)));
                }
            }
            fns.push(J::O(v));
        }

        // ADTs
        let mut adts = Vec::new();
        for did in tcx.hir_crate_items(()).definitions() {
            let kind = tcx.def_kind(did);
            if !matches!(kind, DefKind::Struct | DefKind::Enum | DefKind::Union) {
                continue;
            }
            let adt = tcx.adt_def(did.to_def_id());
            let tenv = ty::TypingEnv::post_analysis(tcx, did);
            let self_ty = tcx.type_of(did).instantiate_identity().skip_norm_wip();
            let key = tcx.def_ident_span(did.to_def_id()).map(|s| span_key(tcx, s)).unwrap_or_default();
            let sa = self.serde.get(&key);
            let mut variants = Vec::new();
            for var in adt.variants().iter() {
                let mut fields = Vec::new();
                for (i, f) in var.fields.iter().enumerate() {
                    let fty = tcx.type_of(f.did).instantiate_identity().skip_norm_wip();
                    let fname = f.name.to_string();
                    let attrs: J = match sa {
                        Some(sa) => {
                            let m = if adt.is_enum() {
                                sa.variants.get(var.name.as_str()).map(|x| &x.1)
                            } else {
                                Some(&sa.fields)
                            };
                            let a = m.and_then(|m| m.get(&fname).or_else(|| m.get(&format!("{}", i))));
                            a.map(|x| strs(x)).unwrap_or(J::Null)
                        }
                        None => J::Null,
                    };
                    fields.push(J::O(vec![
                        ("name", J::s(&fname)),
                        ("ty", J::s(ty_str(fty))),
                        ("tree", ty_tree(tcx, fty, 0)),
                        ("pub", J::B(f.vis.is_public())),
                        ("serde", attrs),
                    ]));
                }
                let vattrs = match sa {
                    Some(sa) if adt.is_enum() => sa.variants.get(var.name.as_str()).map(|x| strs(&x.0)).unwrap_or(J::Null),
                    _ => J::Null,
                };
                variants.push(J::O(vec![
                    ("name", J::s(var.name.to_string())),
                    ("ctor", J::s(format!("{:?}", var.ctor_kind()))),
                    ("fields", J::A(fields)),
                    ("serde", vattrs),
                ]));
            }
            adts.push(J::O(vec![
                ("id", J::s(def_id_str(tcx, did.to_def_id()))),
                ("path", J::s(pretty_path(tcx, did.to_def_id()))),
                ("kind", J::s(if adt.is_enum() { "enum" } else if adt.is_union() { "union" } else { "struct" })),
                ("span", span_j(tcx, tcx.def_span(did))),
                ("generic", J::B(tcx.generics_of(did).count() > 0)),
                ("freeze", J::B(tcx.generics_of(did).count() == 0 && self_ty.is_freeze(tcx, tenv))),
                ("serde", sa.map(|s| strs(&s.container)).unwrap_or(J::Null)),
                ("serde_found", J::B(sa.is_some())),
                ("variants", J::A(variants)),
            ]));
        }

        // trait impls
        let mut impls = Vec::new();
        for (tr, imps) in tcx.all_local_trait_impls(()).iter() {
            for imp in imps.iter() {
                let tref = tcx.impl_trait_ref(imp.to_def_id()).instantiate_identity().skip_norm_wip();
                let self_ty = tref.self_ty();
                let self_adt = match self_ty.kind() {
                    ty::Adt(a, _) => J::s(def_id_str(tcx, a.did())),
                    _ => J::Null,
                };
                let mut methods = Vec::new();
                for it in tcx.associated_items(imp.to_def_id()).in_definition_order() {
                    if it.is_fn() {
                        methods.push(J::O(vec![
                            ("name", J::s(it.name().to_string())),
                            ("id", J::s(def_id_str(tcx, it.def_id))),
                        ]));
                    }
                }
                impls.push(J::O(vec![
                    ("id", J::s(def_id_str(tcx, imp.to_def_id()))),
                    ("trait", J::s(pretty_path(tcx, *tr))),
                    ("trait_args", J::s(with_no_trimmed_paths!(format!("{}", tref.print_only_trait_path())))),
                    ("self", J::s(ty_str(self_ty))),
                    ("self_adt", self_adt),
                    ("self_tree", ty_tree(tcx, self_ty, 0)),
                    ("derived", J::B(tcx.is_automatically_derived(imp.to_def_id()))),
                    ("unsafe", J::B(tcx.impl_trait_header(imp.to_def_id()).safety.is_unsafe())),
                    ("span", span_j(tcx, tcx.def_span(imp.to_def_id()))),
                    ("methods", J::A(methods)),
                ]));
            }
        }

        // unsafe blocks
        let mut uv = UnsafeVis { tcx, found: Vec::new() };
        tcx.hir_visit_all_item_likes_in_crate(&mut uv);

        let root = J::O(vec![
            ("crate", J::s(&crate_name)),
            ("tag", J::s(&self.tag)),
            ("is_test", J::B(self.is_test)),
            ("crate_types", J::A(tcx.crate_types().iter().map(|t| J::s(format!("{:?}", t))).collect())),
            ("fns", J::A(fns)),
            ("adts", J::A(adts)),
            ("impls", J::A(impls)),
            ("unsafe", J::A(uv.found)),
        ]);
        let mut out = String::new();
        root.write(&mut out);
        let kind = if self.is_test {
            "test"
        } else if tcx.crate_types().iter().any(|t| matches!(t, rustc_session_cfg::CrateType::Executable)) {
            "bin"
        } else {
            "lib"
        };
        let path = format!("{}/{}-{}-{}.json", self.out_dir, crate_name, kind, self.tag);
        std::fs::write(&path, out).expect("cte-facts: cannot write fact file");
        Compilation::Continue
    }
}

use rustc_middle::ty::print::PrintTraitRefExt;
mod rustc_session_cfg {
    extern crate rustc_session;
    pub use rustc_session::config::CrateType;
}

fn main() {
    let mut args: Vec<String> = std::env::args().collect();
    // RUSTC_WORKSPACE_WRAPPER: argv[1] is the real rustc
    if args.len() > 1 && (args[1].ends_with("rustc") || args[1].contains("/rustc")) {
        args.remove(1);
    }
    let out_dir = std::env::var("CTE_FACTS_DIR").unwrap_or_else(|_| "/tmp/cte-facts".to_string());
    let _ = std::fs::create_dir_all(&out_dir);
    let mut tag = String::from("x");
    let mut is_test = false;
    let mut i = 0;
    while i < args.len() {
        if args[i] == "--test" {
            is_test = true;
        }
        if args[i] == "-C" && i + 1 < args.len() {
            if let Some(m) = args[i + 1].strip_prefix("metadata=") {
                tag = m.to_string();
            }
        }
        if let Some(m) = args[i].strip_prefix("-Cmetadata=") {
            tag = m.to_string();
        }
        i += 1;
    }
    let mut cb = Cb { out_dir, tag, is_test, serde: BTreeMap::new() };
    rustc_driver::run_compiler(&args, &mut cb);
}
