//! Minimal JSON value + writer (no dependencies).
use std::fmt::Write;

pub enum J {
    Null,
    B(bool),
    I(i128),
    S(String),
    A(Vec<J>),
    O(Vec<(&'static str, J)>),
}

impl J {
    pub fn s<T: AsRef<str>>(t: T) -> J {
        J::S(t.as_ref().to_string())
    }
    pub fn write(&self, out: &mut String) {
        match self {
            J::Null => out.push_str("null"),
            J::B(b) => out.push_str(if *b { "true" } else { "false" }),
            J::I(i) => {
                let _ = write!(out, "{}", i);
            }
            J::S(s) => esc(s, out),
            J::A(v) => {
                out.push('[');
                for (i, x) in v.iter().enumerate() {
                    if i > 0 {
                        out.push(',');
                    }
                    x.write(out);
                }
                out.push(']');
            }
            J::O(v) => {
                out.push('{');
                let mut first = true;
                for (k, x) in v.iter() {
                    if let J::Null = x {
                        continue;
                    }
                    if !first {
                        out.push(',');
                    }
                    first = false;
                    esc(k, out);
                    out.push(':');
                    x.write(out);
                }
                out.push('}');
            }
        }
    }
}

fn esc(s: &str, out: &mut String) {
    out.push('"');
    for c in s.chars() {
        match c {
            '"' => out.push_str("\\\""),
            '\\' => out.push_str("\\\\"),
            '\n' => out.push_str("\\n"),
            '\r' => out.push_str("\\r"),
            '\t' => out.push_str("\\t"),
            c if (c as u32) < 0x20 => {
                let _ = write!(out, "\\u{:04x}", c as u32);
            }
            c => out.push(c),
        }
    }
    out.push('"');
}
