//! Positive-control fixture: one deliberate instance of every "expected count is zero" construct.
//! Analysed by the same driver and rules on every run; a rule that does not fire here has gone blind.
#![allow(dead_code, unused_variables, clippy::all)]

// ---- C01: a println! reachable from main through a helper; a print with literal text
pub fn c01_helper(x: u32) -> u32 {
    println!("debug {}", x);
    x + 1
}

pub fn c01_main() {
    let s = String::from("{}");
    let n = c01_helper(1);
    println!("x{}", s);
}

// ---- C15: a checker that warns when the id IS present (negation missing)
pub struct Item {
    pub id: u32,
    pub parent: u32,
}
pub struct Mdl {
    pub items: Vec<Item>,
    pub parents: Vec<Item>,
}
pub struct Warning {
    pub id: Option<u32>,
}
pub fn c15_check(model: &Mdl) -> Vec<Warning> {
    let ids: std::collections::HashSet<u32> = model.parents.iter().map(|p| p.id).collect();
    let mut warnings = Vec::new();
    model.items.iter().for_each(|i| {
        if ids.contains(&i.parent) {
            warnings.push(Warning { id: Some(i.id) });
        }
    });
    warnings
}

// ---- C16: a purge whose used set forgets one of the two reference fields
#[derive(Clone)]
pub struct PItem {
    pub id: u32,
    pub parent: u32,
    pub other: Option<u32>,
}
pub struct PModel {
    pub items: Vec<PItem>,
    pub parents: Vec<PItem>,
}
pub fn c16_purge(model: &mut PModel) {
    let used: std::collections::HashSet<u32> = model.items.iter().map(|v| v.parent).collect();
    model.parents = model.parents.iter().cloned().filter(|v| used.contains(&v.id)).collect();
}

// ---- C05: nondeterminism source, hash iteration feeding output, id from an enumerate index
pub struct Uuid(pub u64);
pub fn uuid_from_str(s: &str) -> Uuid {
    Uuid(s.len() as u64)
}
pub fn c05_ids(names: &[String]) -> Vec<Uuid> {
    names.iter().enumerate().map(|(i, n)| uuid_from_str(&format!("{}-{}", i, n))).collect()
}
pub fn c05_root(names: &[String]) -> Vec<String> {
    let t = std::time::SystemTime::now();
    let mut m = std::collections::HashMap::new();
    for n in names {
        m.insert(n.clone(), 1u32);
    }
    let _ = c05_ids(names);
    let _ = t;
    m.keys().cloned().collect()
}

// ---- C04: a skip predicate that does not agree with the deserialisation default
pub mod c04 {
    use serde::{Deserialize, Serialize};
    pub fn default_2() -> f32 {
        2.0
    }
    pub fn multiplier_is_1(m: &f32) -> bool {
        *m == 1.0
    }
    #[derive(Serialize, Deserialize)]
    pub struct Doc {
        #[serde(default = "default_2", skip_serializing_if = "multiplier_is_1")]
        pub multiplier: f32,
    }
}

// ---- C19: unwrap on input-derived data; a loop without a terminating driver
pub fn c19_parse(text: &str) -> u32 {
    let first = text.lines().next().unwrap();
    let mut n: u32 = first.parse().unwrap();
    let mut steps = 0u32;
    while n != 1 {
        n = if n % 2 == 0 { n / 2 } else { n.wrapping_mul(3).wrapping_add(1) };
        steps = steps.wrapping_add(1);
    }
    steps
}

// ---- C14: unguarded float division; panic-capable code under a held lock
static TABLE: std::sync::Mutex<Vec<f32>> = std::sync::Mutex::new(Vec::new());
pub fn c14_compute(areas: &[f32], idx: usize) -> f32 {
    let total: f32 = areas.iter().sum();
    let guard = TABLE.lock().unwrap();
    let v = guard[idx];
    v / total
}

// ---- C13: a bounding box whose min_z accumulator reads the y coordinate
pub struct P3 {
    pub x: f32,
    pub y: f32,
    pub z: f32,
}
pub fn c13_bbox(pts: &[P3]) -> (f32, f32) {
    let mut min_z = f32::INFINITY;
    let mut max_z = f32::NEG_INFINITY;
    for p in pts.iter() {
        min_z = min_z.min(p.y);
        max_z = max_z.max(p.z);
    }
    (min_z, max_z)
}

// ---- C20: a name table with a swapped entry
pub enum Zone {
    A1,
    B1,
}
pub fn c20_zone_from_str(s: &str) -> Option<Zone> {
    match s {
        "A1" => Some(Zone::A1),
        "B1" => Some(Zone::A1),
        _ => None,
    }
}

// ---- C02: a reference written from a defaulted lookup
pub struct IdMaps {
    pub spaces: std::collections::BTreeMap<String, u32>,
}
impl IdMaps {
    pub fn space_id(&self, name: &str) -> Result<u32, String> {
        self.spaces.get(name).copied().ok_or_else(|| "missing".to_string())
    }
}
pub struct C02Wall {
    pub space: u32,
}
pub fn c02_convert(names: &[String], id_maps: &IdMaps) -> Vec<C02Wall> {
    names.iter().map(|n| C02Wall { space: id_maps.space_id(n).unwrap_or_default() }).collect()
}

// ---- C03: a geometry copy with width and height swapped
pub struct C03Src {
    pub width: f32,
    pub height: f32,
    pub setback: f32,
}
pub struct C03Geom {
    pub width: f32,
    pub height: f32,
    pub setback: f32,
}
pub fn c03_convert(win: &C03Src) -> C03Geom {
    C03Geom { width: win.height, height: win.width, setback: win.setback }
}

// ---- C18: a parent table that forgets to hang WINDOW blocks from the current wall
#[derive(Clone, Copy)]
pub enum C18Type {
    Floor,
    Space,
    Wall,
    Window,
    Other,
}
pub struct C18Block {
    pub name: String,
    pub btype: C18Type,
    pub parent: Option<String>,
}
pub fn c18_build(mut blocks: Vec<C18Block>) -> Vec<C18Block> {
    let mut currentfloor = String::new();
    let mut currentspace = String::new();
    let mut currentwall = String::new();
    for bdlblock in blocks.iter_mut() {
        let parent = match bdlblock.btype {
            C18Type::Floor => {
                currentfloor = bdlblock.name.clone();
                None
            }
            C18Type::Space => {
                currentspace = bdlblock.name.clone();
                Some(currentfloor.clone())
            }
            C18Type::Wall => {
                currentwall = bdlblock.name.clone();
                Some(currentspace.clone())
            }
            C18Type::Window => Some(currentspace.clone()),
            _ => None,
        };
        bdlblock.parent = parent;
    }
    let _ = &currentwall;
    blocks
}

// ---- C07: the frame fraction applied to the glazing term as well
pub fn c07_u(du: f32, ff: f32, uf: f32, ug: f32) -> Option<f32> {
    Some((1.0 + du / 100.0) * (uf * ff + ug * ff))
}

// ---- C06: exterior surface resistance forgotten
pub fn c06_u(r: f32, rsi: f32) -> Option<f32> {
    Some(1.0 / (r + rsi))
}

// ---- C09: transposed digits in the pressure-conversion constant
pub fn c09_n50(a: f32, c: f32, w: f32, v: f32) -> f32 {
    0.692 * (a * c + w) / v
}

// ---- C08: a scope filter that also admits adiabatic elements
#[derive(PartialEq, Clone, Copy)]
pub enum C08Bounds {
    EXTERIOR,
    INTERIOR,
    GROUND,
    ADIABATIC,
}
pub struct C08Wall {
    pub is_tenv: bool,
    pub bounds: C08Bounds,
    pub a: f32,
}
pub fn c08_scope(walls: &[C08Wall]) -> f32 {
    walls
        .iter()
        .filter(|w| w.is_tenv && (w.bounds == C08Bounds::EXTERIOR || w.bounds == C08Bounds::GROUND || w.bounds == C08Bounds::ADIABATIC))
        .map(|w| w.a)
        .sum()
}

// ---- C11: two classifiers that disagree exactly on one boundary point
pub enum C11Tilt {
    TOP,
    SIDE,
}
pub fn c11_tilt_a(tilt: f32) -> C11Tilt {
    if tilt <= 60.0 {
        C11Tilt::TOP
    } else {
        C11Tilt::SIDE
    }
}
pub fn c11_tilt_b(tilt: f32) -> C11Tilt {
    if tilt < 60.0 {
        C11Tilt::TOP
    } else {
        C11Tilt::SIDE
    }
}

// ---- C12: the "no sample points" exit is missing (0/0 = NaN)
pub fn c12_sunlit(ray_origins: &[f32], hits: usize) -> f32 {
    let num_intersects = hits;
    1.0 - num_intersects as f32 / ray_origins.len() as f32
}

// ---- C17: a day-of-year closed form with a wrong constant
pub fn c17_day_of_year(day: u32, month: u32) -> u32 {
    let day = day as f32;
    let month = month as f32;
    ((276.0 * month / 9.0).floor() - ((month + 9.0) / 12.0).floor() * 2.0 + day - 30.0) as u32
}
