//! Positive-control fixture: one deliberate instance of every "expected count is zero" construct.
//! Analysed by the same driver and rules on every run; a rule that does not fire here has gone blind.
#![allow(dead_code, unused_variables, clippy::all)]

// ---- C01: a println! reachable from main through a helper; a print with literal text
pub fn c01_helper(x: u32) -> u32 {
    println!("debug {}", x);
    x + 1
}

pub fn c01_main() {
    let s = String::from("{}");
    let n = c01_helper(1);
    println!("x{}", s);
}
