"""A6: mutex guard regions over the workspace statics."""
from .exprs import ExprBuilder, walk, short_callee
from .mir import callee_name, callee_id, op_place, pl_local
from .dataflow import uses_of


def static_of(node):
    for x in walk(node):
        if x[0] == "kx":
            d = dict(x[1])
            if d.get("static"):
                return d["static"]
    return None


def guard_locals(body, lock_term):
    """locals that hold the guard (or the LockResult containing it), following moves and unwrap/expect"""
    out = set()
    work = [pl_local(lock_term["dest"])]
    while work:
        l = work.pop()
        if l in out:
            continue
        out.add(l)
        for u in uses_of(body, l):
            if u[0] == "st":
                s = u[3]
                if s["rv"]["r"] == "use" and isinstance(s["p"], int):
                    p = op_place(s["rv"]["a"])
                    if p is not None and "m" in s["rv"]["a"]:
                        work.append(s["p"])
            else:
                t = u[2]
                if t["t"] == "call":
                    nm = callee_name(t) or ""
                    if short_callee(nm) in ("unwrap", "expect", "unwrap_or_else", "into_inner") and any(
                            ("m" in a and pl_local(a["m"]) == l) for a in t["args"]):
                        work.append(pl_local(t["dest"]))
    return out


def regions(ctx, prog, sites):
    cg = ctx.cg
    lock_fns = {fn.id for (fn, b, t) in sites}
    out = []
    for (fn, b, t) in sites:
        body = fn.body
        eb = ExprBuilder(body)
        st = static_of(eb.operand(t["args"][0])) or "<unknown mutex>"
        gl = guard_locals(body, t)
        named = any(l in body.names for l in gl)
        # region: blocks reachable from the lock's successor until a drop of a guard local
        start = t.get("to")
        blocks = set()
        work = [start] if start is not None else []
        while work:
            x = work.pop()
            if x in blocks:
                continue
            blocks.add(x)
            tt = body.blocks[x]["term"]
            if tt["t"] == "drop" and pl_local(tt["p"]) in gl:
                continue
            # a guard moved into a call that consumes it (drop(guard)) ends the region too
            if tt["t"] == "call" and (callee_name(tt) or "").endswith("mem::drop") and any("m" in a and pl_local(a["m"]) in gl for a in tt["args"]):
                continue
            work.extend(body.succs(x))
        nested = []
        callees = set()
        for x in blocks:
            tt = body.blocks[x]["term"]
            if tt["t"] == "call" and tt is not t:
                nm = callee_name(tt) or ""
                if "sync::Mutex" in nm and short_callee(nm) in ("lock", "try_lock"):
                    nested.append(static_of(eb.operand(tt["args"][0])) or "<mutex>")
                cid = callee_id(tt)
                if cid in prog.fns:
                    callees.add(cid)
            # closures created in region
            for s in body.blocks[x]["st"]:
                if s["s"] == "assign" and s["rv"]["r"] == "agg" and s["rv"].get("closure") in prog.fns:
                    callees.add(s["rv"]["closure"])
        reach = cg.reachable(sorted(callees)) if callees else {}
        for f2 in reach:
            if f2 in lock_fns:
                for (fn2, b2, t2) in sites:
                    if fn2.id == f2:
                        nested.append(static_of(ExprBuilder(fn2.body).operand(t2["args"][0])) or "<mutex>")
        out.append({"fn": fn, "static": st, "blocks": blocks, "nested": sorted(set(nested)), "temporary": not named,
                    "loc": fn.loc(t.get("ln")), "reach": reach, "term": t, "guards": gl})
    return out
