"""Program model over the extracted facts: functions, bodies, CFG utilities (A1), def-use (A3)."""
import os

from .facts import AnalysisError


def pl_local(p):
    return p if isinstance(p, int) else p["l"]


def pl_proj(p):
    return [] if isinstance(p, int) else p["p"]


def op_place(op):
    """Place read by an operand (copy/move) or None for constants."""
    if "c" in op:
        return op["c"]
    if "m" in op:
        return op["m"]
    return None


def op_const(op):
    return op.get("k")


def place_str(p):
    s = "_%d" % pl_local(p)
    for e in pl_proj(p):
        if e == "*":
            s = "(*%s)" % s
        else:
            s += e
    return s


class Body:
    def __init__(self, fn, raw):
        self.fn = fn
        self.raw = raw
        self.blocks = raw["blocks"]
        self.locals = raw["locals"]
        self.argc = raw["argc"]
        self.n = len(self.blocks)
        self.names = {}      # local -> user name (plain locals only)
        self.upvars = {}     # closure field index -> name  (places like (*_1).0 or _1.0)
        for d in raw["dbg"]:
            p = d["p"]
            if isinstance(p, int):
                self.names.setdefault(p, d["name"])
            else:
                if p["l"] == 1:
                    pr = [e for e in p["p"] if e != "*"]
                    if len(pr) >= 1 and pr[0].startswith(".") and pr[0][1:].isdigit():
                        self.upvars.setdefault(int(pr[0][1:]), d["name"])
        self._succ = None
        self._pred = None
        self._idom = None
        self._ipdom = None
        self._defs = None
        self._rpo = None

    # ------------------------------------------------------------------ CFG
    def term(self, b):
        return self.blocks[b]["term"]

    def is_cleanup(self, b):
        return bool(self.blocks[b].get("cleanup"))

    def succs(self, b):
        if self._succ is None:
            self._succ = [self._succs_of(i) for i in range(self.n)]
        return self._succ[b]

    def _succs_of(self, b):
        t = self.blocks[b]["term"]
        k = t["t"]
        if k == "goto":
            return [t["to"]]
        if k == "switch":
            kc = t["d"].get("k") if isinstance(t["d"], dict) else None
            if kc is None:
                # a temporary holding a literal (`_c = const false; switchInt(move _c)`)
                pl = t["d"].get("m", t["d"].get("c"))
                if isinstance(pl, int):
                    ds = [s for bl in self.blocks for s in bl["st"] if s["s"] == "assign" and s["p"] == pl]
                    calls = [bl for bl in self.blocks if bl["term"]["t"] == "call" and bl["term"]["dest"] == pl]
                    if len(ds) == 1 and not calls and ds[0]["rv"]["r"] == "use" and "k" in ds[0]["rv"]["a"] and not ds[0].get("mb"):
                        kc = ds[0]["rv"]["a"]["k"]
            if kc is not None and "v" in kc:
                # switch on a literal constant (`if false && ..`): only the matching edge is live
                v = {"true": "1", "false": "0"}.get(kc["v"], kc["v"])
                for val, tg in t["arms"]:
                    if val == v:
                        return [tg]
                return [t["else"]]
            out = [a[1] for a in t["arms"]]
            out.append(t["else"])
            return list(dict.fromkeys(out))
        if k in ("call", "assert", "drop"):
            return [t["to"]] if "to" in t else []
        return []

    def preds(self, b):
        if self._pred is None:
            self._pred = [[] for _ in range(self.n)]
            for i in range(self.n):
                for s in self.succs(i):
                    self._pred[s].append(i)
        return self._pred[b]

    def rpo(self):
        if self._rpo is None:
            seen = set()
            order = []
            stack = [(0, iter(self.succs(0)))]
            seen.add(0)
            while stack:
                b, it = stack[-1]
                adv = False
                for s in it:
                    if s not in seen:
                        seen.add(s)
                        stack.append((s, iter(self.succs(s))))
                        adv = True
                        break
                if not adv:
                    order.append(b)
                    stack.pop()
            order.reverse()
            self._rpo = order
        return self._rpo

    def reachable(self):
        return set(self.rpo())

    def _compute_idom(self):
        rpo = self.rpo()
        idx = {b: i for i, b in enumerate(rpo)}
        idom = {rpo[0]: rpo[0]}

        def intersect(a, b):
            while a != b:
                while idx[a] > idx[b]:
                    a = idom[a]
                while idx[b] > idx[a]:
                    b = idom[b]
            return a
        changed = True
        while changed:
            changed = False
            for b in rpo[1:]:
                ps = [p for p in self.preds(b) if p in idom]
                if not ps:
                    continue
                new = ps[0]
                for p in ps[1:]:
                    new = intersect(p, new)
                if idom.get(b) != new:
                    idom[b] = new
                    changed = True
        self._idom = idom

    def dominates(self, a, b):
        """block a dominates block b (reflexive)"""
        if self._idom is None:
            self._compute_idom()
        if b not in self._idom:
            return False
        while True:
            if a == b:
                return True
            nb = self._idom[b]
            if nb == b:
                return False
            b = nb

    def edge_dominates(self, a, s, b):
        """every path from entry to b goes through the edge a->s"""
        if s == b or self.dominates(s, b):
            # s dominated only via edge a->s ?  require all preds of s other than a to be dominated by s
            others = [p for p in self.preds(s) if p != a and p in self.reachable()]
            return all(self.dominates(s, p) for p in others) and (s == b or self.dominates(s, b))
        return False

    def reach_from(self, start, avoid=()):
        """blocks reachable from start (inclusive) without entering `avoid`"""
        seen = set()
        st = [start]
        avoid = set(avoid)
        while st:
            b = st.pop()
            if b in seen or b in avoid:
                continue
            seen.add(b)
            st.extend(self.succs(b))
        return seen

    def back_edges(self):
        out = []
        for b in self.rpo():
            for s in self.succs(b):
                if self.dominates(s, b):
                    out.append((b, s))
        return out

    def loops(self):
        """natural loops: header -> set of blocks"""
        loops = {}
        for (t, h) in self.back_edges():
            body = loops.setdefault(h, {h})
            st = [t]
            while st:
                x = st.pop()
                if x in body:
                    continue
                body.add(x)
                st.extend(self.preds(x))
        return loops

    # ------------------------------------------------------------------ def-use
    def defs(self):
        """local -> list of definitions: ('st', bb, idx, stmt) | ('call', bb, term)"""
        if self._defs is None:
            d = {}
            for b in range(self.n):
                for i, s in enumerate(self.blocks[b]["st"]):
                    if s["s"] == "assign":
                        pr = pl_proj(s["p"])
                        if pr and pr[0] == "*":
                            continue     # a write through a pointer is not a definition of the pointer local
                        d.setdefault(pl_local(s["p"]), []).append(("st", b, i, s))
                t = self.blocks[b]["term"]
                if t["t"] == "call":
                    d.setdefault(pl_local(t["dest"]), []).append(("call", b, t))
            self._defs = d
        return self._defs

    def whole_defs(self, l):
        """definitions that assign the whole local (no projection on the destination)"""
        out = []
        for d in self.defs().get(l, []):
            if d[0] == "st":
                if isinstance(d[3]["p"], int):
                    out.append(d)
            else:
                if isinstance(d[2]["dest"], int):
                    out.append(d)
        return out

    def single_def(self, l):
        ds = self.defs().get(l, [])
        if len(ds) == 1 and l > self.argc:
            d = ds[0]
            dest = d[3]["p"] if d[0] == "st" else d[2]["dest"]
            if isinstance(dest, int):
                return d
        return None

    def local_name(self, l):
        return self.names.get(l)

    def local_ty(self, l):
        return self.locals[l]["ty"]

    def calls(self):
        for b in range(self.n):
            t = self.blocks[b]["term"]
            if t["t"] == "call":
                yield b, t

    def statements(self):
        for b in range(self.n):
            for i, s in enumerate(self.blocks[b]["st"]):
                yield b, i, s


def callee_of(term):
    """dict describing the callee of a call terminator, or None for indirect calls"""
    f = term.get("f", {})
    k = f.get("k")
    if k and "fn" in k:
        return k
    return None


def callee_name(term):
    """resolved pretty name (impl method if resolved, else declared path)"""
    c = callee_of(term)
    if not c:
        return None
    return c.get("rfn") or c["fn"]


def callee_id(term):
    c = callee_of(term)
    if not c:
        return None
    return c.get("rid") or c["id"]


class Fn:
    def __init__(self, raw, crate, kind):
        self.raw = raw
        self.id = raw["id"]
        self.path = raw["path"]
        self.kind = raw["kind"]
        self.root = raw["root"]
        self.crate = crate
        self.target_kind = kind
        self.span = raw["span"]
        self._body = None

    @property
    def body(self):
        if self._body is None:
            self._body = Body(self, self.raw["body"])
        return self._body

    @property
    def file(self):
        return self.span[0]

    @property
    def line(self):
        return self.span[1]

    def loc(self, ln=None):
        return "%s:%s" % (self.span[0], ln if ln is not None else self.span[1])

    def __repr__(self):
        return "<Fn %s>" % self.path


class Program:
    def __init__(self, raws, include_tests=False):
        self.fns = {}
        self.adts = {}
        self.impls = []
        self.unsafe = []
        self.crates = []
        self.targets = []
        for r in raws:
            if r.get("is_test") and not include_tests:
                continue
            self.targets.append("%s:%s" % (r["crate"], r["_kind"]))
            if r["crate"] not in self.crates:
                self.crates.append(r["crate"])
            for f in r["fns"]:
                fn = Fn(f, r["crate"], r["_kind"])
                if fn.id in self.fns:
                    # lib and bin of the same name: keep both, bin gets a prefix
                    if self.fns[fn.id].target_kind != fn.target_kind:
                        raise AnalysisError("definition id collision between targets: %s" % fn.id)
                    continue
                self.fns[fn.id] = fn
            for a in r["adts"]:
                self.adts.setdefault(a["id"], a)
            for i in r["impls"]:
                i = dict(i)
                i["crate"] = r["crate"]
                self.impls.append(i)
            for u in r["unsafe"]:
                self.unsafe.append(u)
        self.workspace_crates = set(self.crates)
        self._callee_index = None
        self.renamed_locals = 0
        self._by_path = {}
        for fn in self.fns.values():
            self._by_path.setdefault(fn.path, []).append(fn)
        self.children = {}
        for fn in self.fns.values():
            if fn.root != fn.id:
                self.children.setdefault(fn.root, []).append(fn)
        for v in self.children.values():
            v.sort(key=lambda f: (f.span[1], f.id))

    def apply_roles(self):
        """give renamed locals and parameters their recorded role names (ctecheck/roles.py)"""
        from . import roles
        if os.environ.get("CTE_NO_ROLES"):
            return 0
        self.renamed_locals = roles.apply(self)
        return self.renamed_locals

    def callee_index(self):
        """callee pretty name (as it appears in call nodes) -> set of workspace body ids"""
        if self._callee_index is None:
            ci = {}
            for fn in self.fns.values():
                for b, t in fn.body.calls():
                    c = callee_of(t)
                    if not c:
                        continue
                    tid = c.get("rid") or c["id"]
                    if tid in self.fns:
                        ci.setdefault(c.get("rfn") or c["fn"], set()).add(tid)
            # functions that are only ever used as values (`.map(SpaceProps::total_volume)`) are never the callee of a call terminator: their own
            # path names them (the form a function item carries)
            for fn in self.fns.values():
                if fn.kind in ("fn", "assocfn") and fn.root == fn.id and fn.path not in ci:
                    ci[fn.path] = {fn.id}
            self._callee_index = ci
        return self._callee_index

    def fn_by_path(self, path):
        v = self._by_path.get(path, [])
        if len(v) != 1:
            raise AnalysisError("anchor function %r not found (matches: %d)" % (path, len(v)))
        return v[0]

    def fns_matching(self, pred):
        return sorted([f for f in self.fns.values() if pred(f)], key=lambda f: f.id)

    def find(self, suffix, kind=None):
        """unique function whose pretty path ends with `suffix`"""
        v = [f for f in self.fns.values() if f.path.endswith(suffix) and (kind is None or f.kind == kind)
             and f.kind != "closure"]
        if len(v) != 1:
            raise AnalysisError("anchor function *%s not found uniquely (matches: %s)" % (suffix, [f.path for f in v][:5]))
        return v[0]

    def method(self, self_ty, trait, name, inputs_contains=None):
        """unique method `name` of an impl whose self type ends with self_ty; trait: substring of the trait path
        (None = inherent impl)"""
        v = []
        for f in self.fns.values():
            if f.kind != "assocfn":
                continue
            r = f.raw
            if not f.id.endswith("::" + name):
                continue
            st = r.get("impl_self")
            if st is None or not (st == self_ty or st.endswith("::" + self_ty) or st.endswith(self_ty)):
                continue
            tr = r.get("impl_trait")
            if trait is None:
                if tr is not None:
                    continue
            else:
                if tr is None or trait not in tr:
                    continue
            if inputs_contains and not any(inputs_contains in i for i in r.get("inputs", [])):
                continue
            v.append(f)
        if len(v) != 1:
            raise AnalysisError("anchor method <%s as %s>::%s not found uniquely (matches: %s)" % (self_ty, trait, name, [f.path for f in v][:4]))
        return v[0]

    def closures_of(self, fn):
        """closures (transitively nested) whose typeck root is fn"""
        return self.children.get(fn.id, []) if fn.root == fn.id else []

    def adt(self, id_or_suffix):
        if id_or_suffix in self.adts:
            return self.adts[id_or_suffix]
        v = [a for a in self.adts.values() if a["path"].endswith("::" + id_or_suffix) or a["path"] == id_or_suffix]
        if len(v) != 1:
            raise AnalysisError("anchor type %r not found uniquely (%d)" % (id_or_suffix, len(v)))
        return v[0]

    def root_of(self, fn):
        return self.fns.get(fn.root, fn)

    def display(self, fn):
        """human name: outermost named function (+ 'closure' marker)"""
        r = self.root_of(fn)
        return r.path if r is fn else r.path + "::{closure}"
