"""Support obligations: facts that triaged exceptions lean on, decided from the code on every run.

An exception of the form "this index cannot fail because every X is built with a non-empty Y" is only as good as the
construction sites of X.  The functions here re-derive such facts; the rule that owns the exception reports a violation
at the construction site when the fact no longer holds (so the exception is not a blanket licence).
"""
import itertools

from .cfgq import Scope, bool_taken, closure_id_of
from .exprs import strip, short_callee, show, leaf_name, origin_desc, walk
from .mir import callee_name, callee_of
from . import tables as TB


def scopes_with_site(prog, root_fn):
    """all scopes under root_fn as (scope, parent scope, block in parent where the closure is passed)"""
    out = []

    def rec(sc, parent, pb):
        out.append((sc, parent, pb))
        for (b, t, ch) in sc.children():
            rec(ch, sc, b)
    rec(Scope(prog, root_fn), None, None)
    return out


def _geom_atoms(geom_desc, empty, pos, bnd):
    """atom valuation for predicates over one geometry: polygon.is_empty(), position.is_some()/is_none(), bounds ==/!= V"""
    def atom(n):
        n = strip(n)
        if n[0] == "un" and n[1] == "Not":
            v = atom(n[2])
            return None if v is None else ("0" if v == "1" else "1")
        d = origin_desc(n)
        if n[0] == "call":
            sc = short_callee(n[1])
            if sc == "is_empty" and "polygon" in d:
                return "1" if empty else "0"
            if sc == "is_some" and "position" in d:
                return "1" if pos else "0"
            if sc == "is_none" and "position" in d:
                return "0" if pos else "1"
            if sc in ("eq", "ne") and ".bounds" in d:
                for a in n[2]:
                    a = strip(a)
                    if a[0] == "agg" and "::" in a[1]:
                        r = (bnd == a[1].split("::")[-1])
                        return "1" if (r != (sc == "ne")) else "0"
        if n[0] == "bin" and n[1] in ("Gt", "Ne", "Eq", "Ge", "Lt") and "len(" in d and "polygon" in d:
            k = strip(n[3])
            if k[0] == "k" and k[1].isdigit():
                ln = 0 if empty else max(int(k[1]) + 1, 3)
                c = int(k[1])
                r = {"Gt": ln > c, "Ge": ln >= c, "Ne": ln != c, "Eq": ln == c, "Lt": ln < c}[n[1]]
                return "1" if r else "0"
        if n[0] == "k" and n[1] in ("true", "false"):
            return "1" if n[1] == "true" else "0"
        if n[0] == "call":
            # a predicate helper of the workspace (`has_full_geometry(&wall.geometry)`): its own body under the same valuation
            from . import cfgq as _cq
            prog_ = _cq.PROG
            ids = prog_.callee_index().get(n[1], ()) if prog_ is not None else ()
            if len(ids) == 1:
                hf = prog_.fns[next(iter(ids))]
                if hf.raw.get("ret") == "bool" and hf.body.argc == len(n[2]) and getattr(atom, "_depth", 0) < 3:
                    atom._depth = getattr(atom, "_depth", 0) + 1
                    try:
                        r = TB.eval_return(Scope(prog_, hf, argmap={i + 1: a for i, a in enumerate(n[2])}), atom)
                    finally:
                        atom._depth -= 1
                    if not (isinstance(r, tuple) and r and r[0] == "stuck"):
                        return atom(r)
        return None
    return atom


def _filter_rejects_empty(prog, fsc, bt):
    """does the filter predicate evaluate to false whenever the polygon is empty (for every position / bounds)?"""
    for pos, bnd in itertools.product((True, False), bt):
        at = _geom_atoms(None, True, pos, bnd)
        r = TB.eval_return(fsc, at)
        if isinstance(r, tuple) and r and r[0] == "stuck":
            return False, "predicate not evaluable: %s" % str(r[1])[:80]
        v = at(r)
        if v is None:
            return False, "predicate not evaluable: %s" % show(r)[:80]
        if v == "1":
            return False, "accepts an empty polygon (position %s, bounds %s)" % ("set" if pos else "unset", bnd)
    return True, "rejects every empty polygon"


def _nonempty_by_conditions(sc, bb, gname):
    for (_, d, n, tk) in sc.conditions(bb):
        n = strip(n)
        neg = False
        while n[0] == "un" and n[1] == "Not":
            n = strip(n[2])
            neg = not neg
        if n[0] == "call" and short_callee(n[1]) == "is_empty" and n[2]:
            nm = leaf_name(strip(n[2][0])) or ""
            if nm == gname + ".polygon" or (gname == "" and nm.endswith("polygon")):
                v = bool_taken(tk)
                if v is not None and (v != neg) is False:
                    return True
    return False


def _nonempty_value(prog, sc, node, depth=0):
    """is this polygon-valued node a non-empty vector on every path we can see?  vec![..] literal with elements; a call of a workspace
    function all of whose returned expressions are; a parameter for which every caller passes such a value"""
    if depth > 4:
        return False, "too deep"
    p = strip(node)
    if p[0] == "agg" and p[1] == "vec":
        return (len(p[3]) >= 1), "vec![..] of %d points" % len(p[3])
    if p[0] == "call":
        ids = prog.callee_index().get(p[1], ())
        if len(ids) == 1:
            f = prog.fns[next(iter(ids))]
            fsc = Scope(prog, f)
            from .cfgq import returned_nodes
            rns = returned_nodes(f.body)
            if not rns:
                return False, "%s: no returned expression" % f.path
            for _, rn in rns:
                ok, why = _nonempty_value(prog, fsc, fsc._rw(rn), depth + 1)
                if not ok:
                    return False, "%s returns %s" % (f.path.split("::")[-1], why)
            return True, "%s returns a non-empty vec![..]" % f.path.split("::")[-1]
    if p[0] == "arg" and sc.parent is None and sc.fn.kind in ("fn", "assocfn"):
        sites = _call_sites(prog, sc.fn.id)
        if not sites:
            return False, "parameter `%s` of %s, which has no caller in the workspace" % (p[2], sc.fn.path)
        for (cf, cb, ct) in sites:
            found = False
            for (csc, cpar, cpb) in scopes_with_site(prog, prog.root_of(cf)):
                if csc.fn.id != cf.id:
                    continue
                found = True
                ok, why = _nonempty_value(prog, csc, csc.operand(ct["args"][p[1] - 1]), depth + 1)
                if not ok:
                    return False, "%s passes %s" % (prog.display(cf).split("::")[-1], why)
            if not found:
                return False, "caller %s not analysable" % cf.path
        return True, "every caller of %s passes a non-empty vec![..]" % sc.fn.path.split("::")[-1]
    if p[0] == "arg" and sc.fn.kind not in ("fn", "assocfn"):
        # a parameter of a closure that is bound to a local and called by name (`let mk = |.., polygon| ..; mk(.., vec![..])`): every call passes the value
        from .cfgq import closure_id_of
        rootf = prog.root_of(sc.fn)
        sites = []
        for (csc, cpar, cpb) in scopes_with_site(prog, rootf):
            for b_, t_ in csc.body.calls():
                nm_ = callee_name(t_) or ""
                c_ = callee_of(t_) or {}
                direct = (c_.get("rid") or c_.get("id")) == sc.fn.id
                if not ((direct or nm_.endswith(("Fn::call", "FnMut::call_mut", "FnOnce::call_once"))) and len(t_["args"]) == 2):
                    continue
                recv = strip(csc.operand(t_["args"][0]))
                if not direct and closure_id_of(recv) != sc.fn.id:
                    continue
                tup = strip(csc.operand(t_["args"][1]))
                if tup[0] == "agg" and p[1] - 2 < len(tup[3]):
                    sites.append((csc, tup[3][p[1] - 2]))
                else:
                    return False, "closure call with unreadable arguments"
        if sites:
            for csc, a_ in sites:
                ok, why = _nonempty_value(prog, csc, a_, depth + 1)
                if not ok:
                    return False, "a call of the closure passes %s" % why
            return True, "every call of the local closure passes a non-empty vec![..]"
    return False, show(p)[:60]


def _literal_polygons(prog, fn, depth=0, seen=None):
    """(count of WallGeom literals, those whose polygon is not shown non-empty) in fn and its workspace callees"""
    seen = seen if seen is not None else set()
    if fn.id in seen or depth > 3:
        return 0, []
    seen.add(fn.id)
    n, bad = 0, []
    for (sc, parent, pb) in scopes_with_site(prog, fn):
        for b, i, s in sc.body.statements():
            if s["s"] == "assign" and s["rv"]["r"] == "agg" and s["rv"].get("adt", "").endswith("::WallGeom"):
                node = sc.rvalue(s["rv"])
                fl = dict(zip(node[2], node[3]))
                n += 1
                ok, why = _nonempty_value(prog, sc, fl.get("polygon", ("?",)))
                if not ok:
                    bad.append("%s: polygon = %s" % (sc.fn.loc(s.get("ln")), why))
        for b, t in sc.body.calls():
            c = callee_of(t)
            if c:
                tid = c.get("rid") or c["id"]
                if tid in prog.fns and prog.fns[tid].crate == fn.crate:
                    n2, bad2 = _literal_polygons(prog, prog.fns[tid], depth + 1, seen)
                    n += n2
                    bad += bad2
    return n, bad


def _call_sites(prog, fid):
    out = []
    for fn in prog.fns.values():
        for b, t in fn.body.calls():
            c = callee_of(t)
            if c and (c.get("rid") or c["id"]) == fid:
                out.append((fn, b, t))
    return out


def _evidence(prog, sc, parent, pb, bb, gnode, bt, depth):
    """why the polygon of geometry node `gnode` (as seen in scope sc at block bb) is non-empty, or (False, reason)"""
    g = strip(gnode)
    gname = leaf_name(g) or ""
    # 1. dominating `!polygon.is_empty()` in this scope or an enclosing one
    s, p, b_ = sc, parent, bb
    if _nonempty_by_conditions(sc, bb, gname):
        return True, "dominated by `!%s.polygon.is_empty()`" % gname
    # 2. upstream filter of the iterator chain the closure is applied through
    if parent is not None and sc.via and sc.via[1] is not None:
        ch = sc.via[1]
        mine = [a for a, _ in ch.steps]
        for (b2, t2, sib) in parent.children():
            if sib.via and sib.via[0] == "filter" and sib.via[1] is not None and sib is not sc:
                sch = sib.via[1]
                theirs = [a for a, _ in sch.steps]
                if show(strip(sch.source)) == show(strip(ch.source)) and len(theirs) <= len(mine) and mine[:len(theirs)] == theirs:
                    ok, why = _filter_rejects_empty(prog, sib, bt)
                    if ok:
                        return True, "upstream filter over %s %s" % (ch.source_name(), why)
    # 3. elements produced by a workspace function that only builds literal polygons
    src = None
    cands = list(walk(g))
    if sc.via and sc.via[1] is not None:
        cands += list(walk(strip(sc.via[1].source)))
    for cand in cands:
        cand = strip(cand)
        if cand[0] == "call":
            ids = prog.callee_index().get(cand[1], ())
            if len(ids) == 1:
                src = prog.fns[next(iter(ids))]
                break
    if src is not None:
        n, bad = _literal_polygons(prog, src)
        if n >= 1 and not bad:
            return True, "elements come from %s, whose %d WallGeom literals all have non-empty vec![..] polygons" % (src.path.split("::")[-1], n)
        if bad:
            return False, "elements come from %s where %s" % (src.path.split("::")[-1], bad[0])
    # 4. a parameter of a plain function: every caller must supply the evidence
    if depth < 2 and sc.parent is None and g[0] in ("arg", "proj"):
        base = g
        while base[0] == "proj":
            base = strip(base[1])
        if base[0] == "arg" and sc.fn.kind in ("fn", "assocfn"):
            idx = base[1]
            sites = _call_sites(prog, sc.fn.id)
            if not sites:
                return True, "no caller in the workspace"
            whys = []
            for (cf, cb, ct) in sites:
                rootf = prog.root_of(cf)
                found = False
                for (csc, cpar, cpb) in scopes_with_site(prog, rootf):
                    if csc.fn.id != cf.id:
                        continue
                    found = True
                    if idx - 1 >= len(ct["args"]):
                        return False, "caller %s: argument not found" % cf.path
                    an = strip(csc.operand(ct["args"][idx - 1]))
                    # re-apply the projection path of g onto the caller's argument
                    from .exprs import mkproj
                    path = []
                    x = g
                    while x[0] == "proj":
                        path = list(x[2]) + path
                        x = strip(x[1])
                    an2 = mkproj(an, tuple(path)) if path else an
                    ok, why = _evidence(prog, csc, cpar, cpb, cb, an2, bt, depth + 1)
                    if not ok:
                        return False, "call from %s with %s: %s" % (prog.display(cf), origin_desc(an2)[:60], why)
                    whys.append(why)
                if not found:
                    return False, "caller %s not analysable" % cf.path
            return True, "every caller (%d): %s" % (len(sites), "; ".join(sorted(set(whys)))[:200])
    return False, "no `!polygon.is_empty()` guard, filter or literal construction found for %s" % (origin_desc(g)[:80])


def occluder_polygons_nonempty(prog):
    """[(ok, site loc, geometry descriptor, fn display, reason)] for every Occluder literal in the workspace (non-test code)"""
    bt = [v["name"] for v in prog.adt("bemodel::types::common::BoundaryType")["variants"]]
    res = []
    roots = {}
    for fn in prog.fns.values():
        if fn.crate != "bemodel":
            continue
        for b, i, s in fn.body.statements():
            if s["s"] == "assign" and s["rv"]["r"] == "agg" and s["rv"].get("adt", "").endswith("raytracing::occluder::Occluder"):
                roots[prog.root_of(fn).id] = True
    for rid in sorted(roots):
        for (sc, parent, pb) in scopes_with_site(prog, prog.fns[rid]):
            for b, i, s in sc.body.statements():
                if not (s["s"] == "assign" and s["rv"]["r"] == "agg" and s["rv"].get("adt", "").endswith("raytracing::occluder::Occluder")):
                    continue
                node = sc.rvalue(s["rv"])
                fl = dict(zip(node[2], node[3]))
                p = strip(fl.get("polygon", ("?",)))
                loc = sc.fn.loc(s.get("ln"))
                if p[0] == "agg" and p[1] == "vec" and len(p[3]) >= 1:
                    res.append((True, loc, "vec![..]", prog.display(sc.fn), "literal polygon of %d points" % len(p[3])))
                    continue
                g = None
                x = p
                if x[0] == "call" and short_callee(x[1]) in ("clone", "to_vec", "to_owned") and x[2]:
                    x = strip(x[2][0])
                if x[0] == "proj" and x[2] and x[2][-1] == ".polygon":
                    from .exprs import mkproj
                    g = mkproj(strip(x[1]), tuple(x[2][:-1])) if len(x[2]) > 1 else strip(x[1])
                if g is None:
                    res.append((False, loc, origin_desc(p)[:80], prog.display(sc.fn), "polygon of unknown origin: %r" % (p,)))
                    continue
                ok, why = _evidence(prog, sc, parent, pb, b, g, bt, 0)
                res.append((ok, loc, origin_desc(g)[:80], prog.display(sc.fn), why))
    return res


def _fed_from_table(prog, sc, fn, operand, table_name, depth=0):
    """the operand is a constant, is read from the static table, or is (a field of) a parameter of a private function all of whose call sites pass such a value"""
    raw, rw = sc.eb.operand(operand), sc.operand(operand)
    if table_name in repr(raw) or table_name in repr(rw) or strip(rw)[0] == "k":
        return True
    base = strip(rw)
    while base[0] in ("proj", "cast") or (base[0] == "call" and short_callee(base[1]) in ("deref", "clone", "copied", "as_ref", "borrow") and base[2]):
        base = strip(base[1]) if base[0] in ("proj", "cast") else strip(base[2][0])
    root = prog.root_of(fn)
    if base[0] != "arg" or depth > 2 or root.id != fn.id or root.raw.get("pub"):
        return False
    sites = _call_sites(prog, fn.id)
    if not sites:
        return False
    for (cf, cb, ct) in sites:
        ok = False
        for (csc, cpar, cpb) in scopes_with_site(prog, prog.root_of(cf)):
            if csc.fn.id != cf.id:
                continue
            if base[1] - 1 < len(ct["args"]) and _fed_from_table(prog, csc, cf, ct["args"][base[1] - 1], table_name, depth + 1):
                ok = True
            break
        if not ok:
            return False
    return True


def table_fed_calls(prog, seen, callee_id, table_name):
    """[(ok, loc, caller display, argument descriptors)] for every call of the function `callee_id` in the bodies of `seen`:
    ok when every argument is a constant or is read from the static table `table_name` (directly, or through the parameters of private helpers)"""
    res = []
    for fid in sorted(seen):
        fn = prog.fns[fid]
        hit = [(b, t) for b, t in fn.body.calls() if callee_of(t) and (callee_of(t).get("rid") or callee_of(t)["id"]) == callee_id]
        if not hit:
            continue
        root = prog.root_of(fn)
        for (sc, parent, pb) in scopes_with_site(prog, root):
            if sc.fn.id != fn.id:
                continue
            for b, t in hit:
                descs = [origin_desc(strip(sc.operand(a))) for a in t["args"]]
                # the raw (un-normalised) expression keeps the for-loop's source collection as a node
                ok = all(_fed_from_table(prog, sc, fn, a, table_name) for a in t["args"])
                res.append((ok, fn.loc(t.get("ln")), prog.display(fn), descs))
            break
    return res


FEW_CORNERS_TEXT = ("%s builds a bounding box from %d transformed point(s) and no loop over the polygon's points: the box of a turned planar figure needs every "
                    "corner (at least the four corners of its local rectangle), so obstacles that are neither vertical nor axis-aligned get a box that does "
                    "not contain them and rays that hit them are rejected early")


def box_constructors(prog):
    """who builds AABBs in bemodel.  Returns (unknown constructors, [(function, transformed points, loc)] with positive evidence of too few corners).
    WallGeom::aabb and AABB::join are decided by C13's accumulator rule; AABB::new, Default and any loop-free helper that only combines its own
    arguments (AABB::from_corners(a, b)) just store what they are given: for those the functions that call them are examined instead."""
    from .mir import callee_name, callee_of, pl_local

    def constructs(f_):
        for b_, i_, s_ in f_.body.statements():
            if s_["s"] == "assign" and s_["rv"]["r"] == "agg" and s_["rv"].get("adt", "").endswith("aabb::AABB"):
                return True
        return any((callee_name(t_) or "").endswith("aabb::AABB::new") for b_, t_ in f_.body.calls())

    def transforms(f_):
        body_ = f_.body
        loop_blocks = set()
        for lp in body_.loops().values():
            loop_blocks |= set(lp)
        tp_in, tp_out = 0, 0
        for b_, t_ in body_.calls():
            nm_ = callee_name(t_) or ""
            if "ops::Mul" in nm_ and len(t_["args"]) == 2:
                tys = [body_.local_ty(pl_local(a.get("m", a.get("c")))) if isinstance(a, dict) and ("m" in a or "c" in a) else "" for a in t_["args"]]
                if any("Isometry" in x or "Matrix" in x or "Transform" in x for x in tys[:1]) and "OPoint" in tys[1]:
                    if b_ in loop_blocks:
                        tp_in += 1
                    else:
                        tp_out += 1
        return tp_in, tp_out, bool(loop_blocks)
    fns = [f_ for f_ in prog.fns.values() if f_.crate == "bemodel" and not f_.raw.get("impl_derived") and f_.root == f_.id]
    makers = {f_.id: f_ for f_ in fns if constructs(f_)}
    decided = {fid for fid, f_ in makers.items() if f_.path.endswith(("aabb::AABB::join",)) or ("Bounded for types::opaques::WallGeom" in f_.path and f_.path.endswith("::aabb"))}
    storing = {fid for fid, f_ in makers.items() if f_.path.endswith(("aabb::AABB::new", "as std::default::Default>::default"))}
    # loop-free helpers without coordinate transformations: they combine their arguments, the caller decides which points go in
    for fid, f_ in makers.items():
        if fid in decided or fid in storing:
            continue
        tin, tout, has_loop = transforms(f_)
        if not has_loop and tin == 0 and tout == 0:
            storing.add(fid)
    examine = {}
    for fid, f_ in makers.items():
        if fid not in storing:
            examine[fid] = f_
    for f_ in fns:
        for b_, t_ in f_.body.calls():
            c = callee_of(t_)
            if c and (c.get("rid") or c["id"]) in storing and not (c.get("rid") or c["id"]).endswith("::default") and f_.id not in storing:
                examine[f_.id] = f_
    unknown, few = [], []
    for fid, f_ in sorted(examine.items()):
        tin, tout, has_loop = transforms(f_)
        if tin == 0 and 0 < tout < 4:
            few.append((f_.path, tout, f_.loc()))
        elif fid not in decided and not f_.path.endswith("aabb::AABB::join"):
            # BVH node boxes are joins of element boxes; anything else that assembles a box from points is not understood
            if tin == 0 and tout == 0 and not constructs(f_):
                continue
            if fid in makers:
                unknown.append(f_.path)
    return sorted(set(unknown)), few


def occluder_polygon_test_unconditional(prog):
    """Occluder::intersects: once the bounding box is hit the polygon test runs unconditionally.  -> (extra conditions, loc) ; ([], loc) when fine;
    None when the method does not have the box-then-polygon shape"""
    from .mir import callee_name
    occ = prog.method("&energy::raytracing::occluder::Occluder", "Intersectable", "intersects")
    body = occ.body
    calls = [(b, t, callee_name(t) or "") for b, t in body.calls()]
    box = [(b, t) for b, t, nm in calls if nm.endswith("Intersectable>::intersects") and "AABB" in nm]
    poly = [(b, t) for b, t, nm in calls if nm.endswith("intersects_with_data")]
    if len(box) != 1 or len(poly) != 1:
        return None
    osc = Scope(prog, occ)
    extra = []
    for (_, d_, n_, tk_) in osc.conditions(poly[0][0]):
        n_ = strip(n_)
        if n_[0] == "discr" and "branch(" in show(n_):
            continue
        extra.append("%s is %s" % (show(n_)[:60], tk_))
    return extra, occ.loc(poly[0][1].get("ln"))
