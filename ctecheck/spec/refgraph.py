"""Reference graph of the model, transcribed from the statements of C02/C15/C16 (not from the code).

(owner collection path, field path inside an element) -> target collection path
`opt` = the link is Option-typed and may be None.
Collection paths are field paths from Model.
"""
REFS = [
    # owner collection, element field (path), target collection, optional
    ("walls", ".space", "spaces", False),
    ("walls", ".next_to", "spaces", True),
    ("walls", ".cons", "cons.wallcons", False),
    ("windows", ".wall", "walls", False),
    ("windows", ".cons", "cons.wincons", False),
    ("cons.wallcons", ".layers[].material", "cons.materials", False),
    ("cons.wincons", ".glass", "cons.glasses", False),
    ("cons.wincons", ".frame", "cons.frames", False),
    ("spaces", ".loads", "loads", True),
    ("spaces", ".thermostat", "thermostats", True),
    ("loads", ".people_schedule", "schedules.year", True),
    ("loads", ".equipment_schedule", "schedules.year", True),
    ("loads", ".lighting_schedule", "schedules.year", True),
    ("thermostats", ".temp_max", "schedules.year", True),
    ("thermostats", ".temp_min", "schedules.year", True),
    ("schedules.year", ".values[].0", "schedules.week", False),
    ("schedules.week", ".values[].0", "schedules.day", False),
]

# links the *checker* is stated to verify (C15 statement)
CHECKER_LINKS = [
    ("walls", ".space", "spaces"),
    ("walls", ".cons", "cons.wallcons"),
    ("walls", ".next_to", "spaces"),
    ("windows", ".wall", "walls"),
    ("windows", ".cons", "cons.wincons"),
]

# element type of each collection (ADT path suffix)
COLLECTION_TYPES = {
    "spaces": "types::space::Space", "walls": "types::opaques::Wall", "windows": "types::window::Window",
    "shades": "types::opaques::Shade", "thermal_bridges": "types::thermalbridge::ThermalBridge",
    "cons.wallcons": "types::constructions::WallCons", "cons.wincons": "types::constructions::WinCons",
    "cons.materials": "types::constructions::Material", "cons.glasses": "types::constructions::Glass",
    "cons.frames": "types::constructions::Frame", "loads": "types::space_loads::SpaceLoads",
    "thermostats": "types::thermostat::Thermostat", "schedules.year": "types::schedules::Schedule",
    "schedules.week": "types::schedules::ScheduleWeek", "schedules.day": "types::schedules::ScheduleDay",
}
