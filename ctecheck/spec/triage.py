"""Triage tables of C13/C14/C19: exceptions (a flagged site that holds for a reason the local guard idioms cannot see).
Each entry: exact instance key -> one-sentence reason (with the supporting check, when one exists, named in brackets).
Genuine defects are NOT here: they are fixed in /repo or listed as `open:` in /verif/KNOWN_FINDINGS.txt."""

_TABLES = "the embedded climate tables are complete: 32 zones x 9 orientations, 12 monthly values, July rows with month/day in range [checked on every run by C20-D1]"
_BVH = ("producer/consumer protocol of the BVH node list: generate_node_list pushes every pending element with Some(parent) and Some(elements), "
        "leaves with Some(elements), inner nodes before their children; build_from_node_list pops them in reverse, so a parent is pending and both "
        "children complete when it is finished [shape of the construction sites checked by C13-D2]")
_POLY = "occluders are built only from non-empty polygons: collect_occluders filters `!polygon.is_empty()` and reveal shades are 4-point literals [C12-D3 checks the predicates]"
_UUID = "the sliced string is the 32-hex-digit `{:x}` rendering of an md5 digest and the re-punctuated string is a well-formed UUID"
_NDAY = "reached only from compute_fshobst with (month, day) of JULYRADDATA rows, which C20-D1 checks to be within 1..=12 / 1..=31"

C14_EXCEPTIONS = {
    'c14.panic|bemodel::climatedata::total_radiation_in_july_by_orientation|Index::index|unwrap(Mutex::lock(MONTHLYRADDATA))[].dir[6]':
        _TABLES,
    'c14.panic|bemodel::climatedata::total_radiation_in_july_by_orientation|Index::index|unwrap(Mutex::lock(MONTHLYRADDATA))[].dif[6]':
        _TABLES,
    'c14.panic|bemodel::energy::indicators::qsoljul::QSolJulData::from|unwrap|HashMap::get(totradjul,*':      # any orientation value: the table has all nine classes
        _TABLES,
    'c14.panic|bemodel::energy::radiation::<impl types::model::Model>::compute_fshobst|unwrap|HashMap::get(unwrap(Mutex::lock(CLIMATEMETADATA)),self.meta.climate)':
        _TABLES,
    'c14.panic|bemodel::energy::radiation::<impl types::model::Model>::compute_fshobst|Index::index|map[].1.dir[Range{..}[]]':
        "fshdir, dir and dif of an ObstData entry are pushed together (three pushes in one block), so they have equal length and i < fshdir.len()",
    'c14.panic|bemodel::energy::radiation::<impl types::model::Model>::compute_fshobst|Index::index|map[].1.dif[Range{..}[]]':
        "fshdir, dir and dif of an ObstData entry are pushed together (three pushes in one block), so they have equal length and i < fshdir.len()",
    'c14.panic|bemodel::energy::radiation::<impl types::model::Model>::compute_fshobst|Index::index|map[].1.dir[Range{..}[]]|1':
        "fshdir, dir and dif of an ObstData entry are pushed together (three pushes in one block), so they have equal length and i < fshdir.len()",
    'c14.panic|bemodel::energy::radiation::<impl types::model::Model>::compute_fshobst|Index::index|map[].1.dif[Range{..}[]]|1':
        "fshdir, dir and dif of an ObstData entry are pushed together (three pushes in one block), so they have equal length and i < fshdir.len()",
    'c14.panic|bemodel::energy::raytracing::bvh::BVH::<T>::build_from_node_list|unwrap|unwrap(pop(node_list)).3':
        _BVH,
    'c14.panic|bemodel::energy::raytracing::bvh::BVH::<T>::build_from_node_list|unwrap|unwrap(pop(node_list)).4|1':
        _BVH,
    'c14.panic|bemodel::energy::raytracing::bvh::BVH::<T>::build_from_node_list|unwrap|unwrap(pop(node_list)).4':
        _BVH,
    'c14.panic|bemodel::energy::raytracing::bvh::BVH::<T>::build_from_node_list|unwrap|BTreeMap::remove(completed,unwrap(pop(..)).0)':
        _BVH,
    'c14.panic|bemodel::energy::raytracing::bvh::BVH::<T>::build_from_node_list|unwrap|BTreeMap::remove(completed,unwrap(pop(..)).0)|1':
        _BVH,
    'c14.panic|bemodel::energy::raytracing::bvh::BVH::<T>::build_from_node_list|unwrap|BTreeMap::remove(pending,unwrap(unwrap(..).3))':
        _BVH,
    'c14.panic|bemodel::energy::raytracing::bvh::BVH::<T>::generate_node_list|unwrap|unwrap(pop(pending)).4':
        _BVH,
    'c14.panic|bemodel::energy::raytracing::bvh::BVHNode::<T>::set_aabb_from_children|unwrap|self@Node.left':
        _BVH,
    'c14.panic|bemodel::energy::raytracing::bvh::BVHNode::<T>::set_aabb_from_children|unwrap|self@Node.right':
        _BVH,
    'c14.panic|bemodel::energy::raytracing::bvh::BVHNode::<T>::set_left|panic!|discr(self)=0':
        _BVH,
    'c14.panic|bemodel::energy::raytracing::bvh::BVHNode::<T>::set_right|panic!|discr(self)=0':
        _BVH,
    'c14.panic|bemodel::energy::raytracing::ray::point_in_poly|OverflowSub|Sub(slice::len(poly),1)':
        _POLY,
    'c14.panic|bemodel::energy::raytracing::ray::point_in_poly|BoundsCheck|idx=SubWithOverflow(slice::len(poly),1).0':
        _POLY,
    'c14.panic|bemodel::energy::raytracing::ray::Ray::intersects_with_data|BoundsCheck|idx=0':
        _POLY,
    'c14.panic|bemodel::energy::raytracing::ray::Ray::intersects_with_data|BoundsCheck|idx=0|1':
        _POLY,
    'c14.panic|bemodel::utils::uuid_from_str|Index::index|hint::must_use(fmt::format(Arguments::new(const,array{..})))[Range{..}]':
        _UUID,
    'c14.panic|bemodel::utils::uuid_from_str|Index::index|hint::must_use(fmt::format(Arguments::new(const,array{..})))[Range{..}]|1':
        _UUID,
    'c14.panic|bemodel::utils::uuid_from_str|Index::index|hint::must_use(fmt::format(Arguments::new(const,array{..})))[Range{..}]|2':
        _UUID,
    'c14.panic|bemodel::utils::uuid_from_str|Index::index|hint::must_use(fmt::format(Arguments::new(const,array{..})))[Range{..}]|3':
        _UUID,
    'c14.panic|bemodel::utils::uuid_from_str|Index::index|hint::must_use(fmt::format(Arguments::new(const,array{..})))[Range{..}]|4':
        _UUID,
    'c14.panic|bemodel::utils::uuid_from_str|unwrap|parser::parse_str(hint::must_use(fmt::format(Arguments::new(..,..))))':
        _UUID,
    'c14.panic|climate::solar::nday_from_md|OverflowSub|Sub(month,1)':
        _NDAY,
    'c14.panic|climate::solar::nday_from_md|assert!|':
        _NDAY,
    'c14.panic|climate::solar::nday_from_md|Index::index|const[RangeTo{..}]':
        _NDAY,
    'c14.panic|climate::solar::nday_from_md|OverflowAdd|Add(sum(slice::iter(index(const,RangeTo{..}))),day)':
        "sum of at most 11 month lengths plus a day <= 31",
}

C14_LOOP_EXCEPTIONS = {}

_SANE = "sane-model premise (closed model, positive areas/heights/thicknesses/conductivities, non-negative loads): "
C14_DIV_EXCEPTIONS = {
    'c14.div|bemodel::energy::radiation::<impl types::model::Model>::compute_fshobst|divisor=len(map[].1.fshdir)':
        "an ObstData entry exists only after at least one push (entry().or_default() is followed by three pushes); the July tables have >= 1 row per zone [C20-D1]",
    'c14.div|bemodel::energy::radiation::<impl types::model::Model>::compute_fshobst|divisor=Add(index(map[].1.dir,Range{..}[]),index(map[].1.dif,Range{..}[]))':
        "beam >= 0 (I_dir = max(0, .)) and the diffuse irradiance on the window plane is positive because every July row has dif > 0 [C20-D1 checks the table literals]",
    'c14.div|bemodel::energy::radiation::<impl types::model::Model>::sunlit_fraction|divisor=len(map(slice::iter(..),{closure}))':
        "num_rays = ray_origins.len() and the function returns 1.0 earlier when ray_origins is empty [C12-D2 checks that early exit]",
    'c14.div|bemodel::<energy::raytracing::aabb::AABB as energy::raytracing::bvh::Intersectable>::intersects|divisor=ray.dir.x':
        "slab test: a zero direction component yields +-inf slab distances, which the min/max comparisons handle by IEEE semantics (documented in the function); no finite result depends on it",
    'c14.div|bemodel::<energy::raytracing::aabb::AABB as energy::raytracing::bvh::Intersectable>::intersects|divisor=ray.dir.y':
        "slab test: a zero direction component yields +-inf slab distances, which the min/max comparisons handle by IEEE semantics (documented in the function); no finite result depends on it",
    'c14.div|bemodel::<energy::raytracing::aabb::AABB as energy::raytracing::bvh::Intersectable>::intersects|divisor=ray.dir.z':
        "slab test: a zero direction component yields +-inf slab distances, which the min/max comparisons handle by IEEE semantics (documented in the function); no finite result depends on it",
    'c14.div|bemodel::energy::raytracing::bvh::BVH::<T>::partition_elements_by_centroid|divisor=len(elements)':
        "called only with more than max_num_elements (>= 1) elements: both call sites sit under `len > max_num_elements` [C13-D1 checks those guards]",
    'c14.div|bemodel::energy::raytracing::bvh::BVH::<T>::partition_elements_by_centroid|divisor=len(elements)|1':
        "called only with more than max_num_elements (>= 1) elements: both call sites sit under `len > max_num_elements` [C13-D1 checks those guards]",
    'c14.div|bemodel::energy::raytracing::bvh::BVH::<T>::partition_elements_by_centroid|divisor=len(elements)|2':
        "called only with more than max_num_elements (>= 1) elements: both call sites sit under `len > max_num_elements` [C13-D1 checks those guards]",
    'c14.div|bemodel::energy::transmittance::<impl types::space::Space>::slab_d_t|divisor=a_total':
        _SANE + "the ground-slab list is non-empty when this is reached from a ground slab and slab areas are positive",
    'c14.div|bemodel::energy::transmittance::<impl types::space::Space>::slab_psi_gnd_ext|divisor=d_t':
        _SANE + "equivalent thickness d_t = w + lambda*(Rsi + R_f + Rse) >= 0.3 + 2.0*0.21 > 0",
    'c14.div|bemodel::energy::transmittance::<impl types::space::Space>::slab_psi_gnd_ext|divisor=Add(d_t,Mul(model.meta.rn_perim_insulation,Sub(2.0,0.035)))':
        _SANE + "d_t > 0 and R_n >= 0",
    'c14.div|bemodel::energy::transmittance::<impl types::opaques::Wall>::u_value|divisor=R_f':
        _SANE + "R_f = R + 2*Rsi >= 0.20 > 0 for non-negative layer resistances",
    'c14.div|bemodel::energy::transmittance::<impl types::opaques::Wall>::u_value|divisor=R_f|1':
        _SANE + "R_f = R + 2*Rsi >= 0.20 > 0 for non-negative layer resistances",
    'c14.div|bemodel::energy::transmittance::<impl types::opaques::Wall>::u_value_exterior|divisor=Add(Add(resistance?,rsi),0.04)':
        _SANE + "R + Rsi + Rse >= 0.10 + 0.04 > 0 for non-negative layer resistances",
    'c14.div|bemodel::energy::transmittance::<impl types::opaques::Wall>::u_value_gnd_slab|divisor=Add(Mul(3.1415927,char_dim),Add(d_t,Mul(0.5,z)))':
        _SANE + "B' > 0 (slab with area, P >= 0.01), d_t > 0, z = max(-space.z, 0) >= 0",
    'c14.div|bemodel::energy::transmittance::<impl types::opaques::Wall>::u_value_gnd_slab|divisor=Add(d_t,Mul(0.5,z))':
        _SANE + "B' > 0 (slab with area, P >= 0.01), d_t > 0, z = max(-space.z, 0) >= 0",
    'c14.div|bemodel::energy::transmittance::<impl types::opaques::Wall>::u_value_gnd_slab|divisor=Add(Mul(0.457,char_dim),Add(d_t,Mul(0.5,z)))':
        _SANE + "B' > 0 (slab with area, P >= 0.01), d_t > 0, z = max(-space.z, 0) >= 0",
    'c14.div|bemodel::energy::transmittance::<impl types::opaques::Wall>::u_value_gnd_slab|divisor=char_dim':
        _SANE + "characteristic dimension B' = A/(0.5*P) > 0 when the slab has area (P is clamped >= 0.01)",
    'c14.div|bemodel::energy::transmittance::<impl types::opaques::Wall>::u_value_gnd_wall|divisor=U_w':
        _SANE + "U_w = 1/(R + Rsi + Rse) > 0",
    'c14.div|bemodel::energy::transmittance::<impl types::opaques::Wall>::u_value_gnd_wall|divisor=Mul(3.1415927,z)':
        "evaluated only on the branch |z| >= 0.01 (early return of U_w otherwise) and z = max(-space.z, 0) >= 0",
    'c14.div|bemodel::energy::transmittance::<impl types::opaques::Wall>::u_value_gnd_wall|divisor=Add(f32::min(Div(2.0,U_w),d_t),z)':
        _SANE + "d_t > 0, d_w > 0 and z >= 0.01 on this branch",
    'c14.div|bemodel::energy::transmittance::<impl types::opaques::Wall>::u_value_gnd_wall|divisor=Div(2.0,U_w)':
        _SANE + "d_w = lambda/U_w > 0",
    'c14.div|bemodel::energy::transmittance::<impl types::opaques::Wall>::u_value_gnd_wall|divisor=space_height_net':
        "evaluated only when h = max(H - z, 0) is non-zero, i.e. H > z >= 0.01",
    'c14.div|bemodel::energy::transmittance::<impl types::opaques::Wall>::u_value_interior_cond_uncond|divisor=Add(UA_e_k,Mul(0.33,q_ue))':
        "H_ue = 0 (unconditioned space without exterior surfaces or ventilation) gives R_u = inf and then U = 1/(R_f + inf) = 0, a finite value: IEEE semantics, intended",
    'c14.div|bemodel::energy::transmittance::<impl types::opaques::Wall>::u_value_interior_cond_uncond|divisor=Add(R_f,Div(A_i,Add(UA_e_k,Mul(..,..))))':
        _SANE + "R_f >= 0.20 > 0 and R_u >= 0",
    'c14.div|bemodel::energy::transmittance::<impl types::opaques::Wall>::u_value_interior_cond_uncond|divisor=R_f':
        "argument of a debug! message only; R_f >= 0.20",
    'c14.div|climate::solar::G_sol_b|divisor=solar::sind(a)':
        "a = max(altsol, 0.01) degrees, so sin(a) >= sin(0.01 deg) > 0 for the sun above the horizon",
    'c14.div|climate::solar::I_circum_eq|divisor=b':
        "b = max(cos 85 deg, cos zenith) >= 0.087 (clamped in get_diffuse_params, the only producer of b)",
    'c14.div|climate::solar::I_dif_eq|divisor=b':
        "b = max(cos 85 deg, cos zenith) >= 0.087 (clamped in get_diffuse_params, the only producer of b)",
    'c14.div|climate::solar::airmass|divisor=solar::sind(altsol)':
        "branch altsol >= 10 degrees: sin >= 0.17",
    'c14.div|climate::solar::airmass|divisor=Add(solar::sind(altsol),Mul(0.15,f32::powf(Add(..,..),-1.253)))':
        "Kasten-Young air mass: positive for solar altitudes above -3.885 degrees; the July tables hold daylight hours only [C20-D1: altitude >= 0]",
    'c14.div|climate::solar::clearness|divisor=Add(1.0,Mul(1.014,f32::powf(f32::to_radians(..),3.0)))':
        "1 + K*alt^3 >= 1 for altitude >= 0",
    'c14.div|climate::solar::get_diffuse_params|divisor=solar::I_ext(nday)':
        "I_ext = G_sc*(1 + 0.033 cos(..)) >= 0.967*G_sc > 0",
}

CUSTOM_ITER_OK = {
    "bemodel::energy::raytracing::bvh::BVH::<T>::iter_with_ray":
        "PreorderIter walks a tree owned through Option<Box<BVHNode>> (finite and acyclic by ownership); every next() pops one node and pushes only its two children",
}

RECURSION_OK = {
    "c14.recursion|bemodel::energy::transmittance::<impl types::opaques::Wall>::u_value|bemodel::energy::transmittance::<impl types::space::Space>::ua_of_external_and_ground_surfaces":
        "depth <= 2: u_value calls ua_of_external_and_ground_surfaces only on its INTERIOR arm, and that function evaluates u_value only for walls with bounds GROUND or EXTERIOR, whose arms do not call back [C06-D4 checks the dispatch and the GROUND/EXTERIOR filter]",
}
RECURSION_OK["c19.recursion|" + list(RECURSION_OK)[0].split("|", 1)[1]] = list(RECURSION_OK.values())[0]

C19_EXCEPTIONS = {
    'c19.panic|hulc::ctehexml::systems::vyp_sys::build_onsite_prod::parse_ele_prod|BoundsCheck|idx=0':
        "slice::chunks never yields an empty chunk",
    'c19.panic|hulc::ctehexml::systems::vyp_sys::build_onsite_prod::parse_thermal_prod|BoundsCheck|idx=0':
        "slice::chunks never yields an empty chunk",
    'c19.panic|bemodel::convert::from_ctehexml::shades_from_bdl|panic!|discr(bdl.shadings[].geometry)=else:1;discr(bdl.shadings[].vertices)=else:1':
        "hulc Shading::try_from builds exactly one of `geometry` / `vertices` (both constructor branches set one of them to Some) [C18-D4 rows of BUILDING-SHADE]",
    'c19.panic|bemodel::convert::from_ctehexml::windows_and_shades_from_bdl|expect|WallGeom::to_global_coords_matrix(ok_or_else(find(slice::iter(..),{closure}),{closure})?.geometry)':
        "to_global_coords_matrix is None only without position, and every wall passed in comes from wall_geometry, whose only WallGeom literal sets position: Some(..) [C03-D2 reads that literal]",
    'c19.panic|bemodel::utils::uuid_from_obj|Index::index|hint::must_use(fmt::format(Arguments::new(const,array{..})))[Range{..}]':
        _UUID,
    'c19.panic|bemodel::utils::uuid_from_obj|Index::index|hint::must_use(fmt::format(Arguments::new(const,array{..})))[Range{..}]|1':
        _UUID,
    'c19.panic|bemodel::utils::uuid_from_obj|Index::index|hint::must_use(fmt::format(Arguments::new(const,array{..})))[Range{..}]|2':
        _UUID,
    'c19.panic|bemodel::utils::uuid_from_obj|Index::index|hint::must_use(fmt::format(Arguments::new(const,array{..})))[Range{..}]|3':
        _UUID,
    'c19.panic|bemodel::utils::uuid_from_obj|Index::index|hint::must_use(fmt::format(Arguments::new(const,array{..})))[Range{..}]|4':
        _UUID,
    'c19.panic|bemodel::utils::uuid_from_obj|unwrap|parser::parse_str(hint::must_use(fmt::format(Arguments::new(..,..))))':
        _UUID,
    'c19.panic|bemodel::utils::uuid_from_str|Index::index|hint::must_use(fmt::format(Arguments::new(const,array{..})))[Range{..}]':
        _UUID,
    'c19.panic|bemodel::utils::uuid_from_str|Index::index|hint::must_use(fmt::format(Arguments::new(const,array{..})))[Range{..}]|1':
        _UUID,
    'c19.panic|bemodel::utils::uuid_from_str|Index::index|hint::must_use(fmt::format(Arguments::new(const,array{..})))[Range{..}]|2':
        _UUID,
    'c19.panic|bemodel::utils::uuid_from_str|Index::index|hint::must_use(fmt::format(Arguments::new(const,array{..})))[Range{..}]|3':
        _UUID,
    'c19.panic|bemodel::utils::uuid_from_str|Index::index|hint::must_use(fmt::format(Arguments::new(const,array{..})))[Range{..}]|4':
        _UUID,
    'c19.panic|bemodel::utils::uuid_from_str|unwrap|parser::parse_str(hint::must_use(fmt::format(Arguments::new(..,..))))':
        _UUID,
    'c19.panic|hulc2model::fix_ecdata_from_extra|unwrap|Model::get_space(model,model.walls[].space)':
        "the model comes from Model::try_from, whose Wall.space is a propagated IdMaps::space_id lookup over the same spaces that are converted [C02-D1/D2]",
    "c19.panic|hulc::bdl::blocks::sanitize_lider_data|split_at|split_at(blocks::clean_lines(input),str::find(blocks::clean_lines(input),''DATOS GENERALES' = GENERAL-DA')@Som":
        "split position is the result of str::find on the same string: a valid char boundary within bounds",
    "c19.panic|hulc::bdl::blocks::sanitize_lider_data|split_at|split_at(blocks::clean_lines(input),str::find(blocks::clean_lines(input),''Defecto' = DESCRIPTION')@Some.0)":
        "split position is the result of str::find on the same string: a valid char boundary within bounds",
    'c19.panic|hulc::bdl::Data::new|unreachable!|discr(next(into_iter(db_blocks)))=1;discr(db_blocks[].btype)=else:11,12,13,14,15,16':
        "the block types routed into this bucket are exactly the types the match handles [C18-D3 compares the routing set with the handled set on every run]",
    'c19.panic|hulc::bdl::Data::new|unreachable!|discr(next(into_iter(schedule_blocks)))=1;discr(schedule_blocks[].btype)=else:19,21,22,23':
        "the block types routed into this bucket are exactly the types the match handles [C18-D3 compares the routing set with the handled set on every run]",
    'c19.panic|hulc::bdl::Data::new|unreachable!|discr(next(into_iter(env_blocks)))=1;discr(env_blocks[].btype)=else:2,3,5,6,7,8,10,17':
        "the block types routed into this bucket are exactly the types the match handles [C18-D3 compares the routing set with the handled set on every run]",
}

C19_LOOP_EXCEPTIONS = {
    "c19.loop|hulc::<bdl::envelope::geom::Polygon as std::convert::TryFrom<bdl::blocks::BdlBlock>>::try_from|unbounded-iterator|RangeFrom{..}":
        "`for i in 1..` breaks as soon as attrs.remove_str(\"V<i>\") fails; every iteration removes a distinct key from a finite map",
    "c19.loop|hulc::<bdl::envelope::shadings::Shading as std::convert::TryFrom<bdl::blocks::BdlBlock>>::try_from|unbounded-iterator|RangeFrom{..}":
        "`for i in 1..` breaks as soon as attrs.remove_str(\"V<i>\") fails; every iteration removes a distinct key from a finite map",
}


_REC_CORE = ("bemodel::energy::transmittance::<impl types::opaques::Wall>::u_value",
             "bemodel::energy::transmittance::<impl types::space::Space>::ua_of_external_and_ground_surfaces")


def recursion_reason(names):
    """the one accepted recursion of the workspace: Wall::u_value <-> Space::ua_of_external_and_ground_surfaces, possibly through helper functions of
    the same module that the two were split into (the reason - the call back happens only for GROUND/EXTERIOR walls, whose arms do not recurse - does
    not depend on how the arms are packaged; C06-D4 decides the dispatch and the filter)"""
    ns = set(names)
    if set(_REC_CORE) <= ns and all(n.startswith("bemodel::energy::transmittance::") for n in ns):
        return list(RECURSION_OK.values())[0]
    return None


# C06: rounded values that enter further arithmetic where the error they carry is bounded well below the two-decimal tolerance (the two sites where it
# is not - U_w and U_bw of the basement-wall formula - are known findings)
C06_ROUNDING_EXCEPTIONS = {
    "c06.rounding|u_value_gnd_slab|psi_gnd_ext (rounded argument)":
        "psi is rounded to three decimals and enters U = U_bf + 2 psi / B' linearly: the carried error is at most 2 x 0.0005 / B', below 0.001 for B' >= 1 m",
    "c06.rounding|slab_char_dim|p (rounded local)":
        "the exposed perimeter is rounded to 0.01 m and clamped to >= 0.01 before B' = A / (0.5 P): relative error 0.005 / P, i.e. below 0.1 % for any slab with P >= 5 m; "
        "B' enters U through ln() and a quotient whose derivative is below 0.1 W/m2K per metre in that range",
}
