"""A3/A4: uses of locals, consumption idioms of fallible values."""
from .exprs import short_callee
from .mir import callee_name, op_place, pl_local, pl_proj

PASS_THROUGH = {"map", "map_err", "and_then", "ok_or", "ok_or_else", "context", "with_context", "copied", "cloned",
                "as_ref", "as_mut", "as_deref", "or_else", "filter", "inspect", "into", "from", "transpose", "flatten"}
ASSERTING = {"unwrap", "expect", "unwrap_err", "expect_err", "unwrap_unchecked"}
DEFAULTING = {"ok", "err", "unwrap_or_default", "unwrap_or", "unwrap_or_else", "map_or", "map_or_else", "or",
              "is_ok", "is_some", "is_err", "is_none", "is_some_and", "is_ok_and", "unwrap_or_else", "is_none_or"}


def operand_locals(op):
    p = op_place(op)
    if p is None:
        return []
    out = [pl_local(p)]
    for e in pl_proj(p):
        if e.startswith("[_"):
            out.append(int(e[2:-1]))
    return out


def rvalue_operands(rv):
    r = rv["r"]
    if r in ("use", "un", "cast", "repeat"):
        return [rv["a"]]
    if r == "bin":
        return [rv["a"], rv["b"]]
    if r == "agg":
        return rv["ops"]
    return []


def rvalue_places(rv):
    """places read by an rvalue (operands and borrowed/discriminant places)"""
    out = [op_place(o) for o in rvalue_operands(rv)]
    if rv["r"] in ("ref", "rawptr", "discr"):
        out.append(rv["p"])
    return [p for p in out if p is not None]


def uses_of(body, local):
    """list of ('st', bb, idx, stmt) / ('term', bb, term) reading `local`"""
    out = []
    for b in range(body.n):
        if body.is_cleanup(b):
            continue
        for i, s in enumerate(body.blocks[b]["st"]):
            if s["s"] != "assign":
                continue
            if any(pl_local(p) == local for p in rvalue_places(s["rv"])):
                out.append(("st", b, i, s))
            elif not isinstance(s["p"], int) and pl_local(s["p"]) == local and any(e == "*" for e in pl_proj(s["p"])):
                pass
        t = body.blocks[b]["term"]
        k = t["t"]
        ops = []
        if k == "call":
            ops = list(t["args"]) + [t["f"]]
        elif k == "switch":
            ops = [t["d"]]
        elif k == "assert":
            ops = [t["cond"]] + t["ops"]
        if any(local in operand_locals(o) for o in ops):
            out.append(("term", b, t))
    return out


def consumption(body, bb, term, depth=0):
    """classify how the value returned by call `term` (in block bb) is consumed.
    returns (kind, detail): propagated | handled | matched | defaulted | asserted | dropped | returned | stored | unknown"""
    dest = term["dest"]
    if not isinstance(dest, int):
        return "stored", "assigned into a place"
    return consume_local(body, dest, depth)


def consume_local(body, l, depth=0):
    if depth > 8:
        return "unknown", "too deep"
    if l == 0:
        return "returned", "function result"
    uses = uses_of(body, l)
    if not uses:
        return "dropped", "never used"
    kinds = []
    for u in uses:
        if u[0] == "st":
            s = u[3]
            rv = s["rv"]
            if rv["r"] == "use" and isinstance(s["p"], int):
                kinds.append(consume_local(body, s["p"], depth + 1))
            elif rv["r"] in ("ref",) and isinstance(s["p"], int):
                kinds.append(consume_local(body, s["p"], depth + 1))
            elif rv["r"] == "discr":
                kinds.append(("matched", "match/if-let at line %s" % s.get("ln")))
            elif rv["r"] == "use":
                kinds.append(("stored", "stored"))
            elif rv["r"] == "agg":
                kinds.append(("stored", "in aggregate"))
            else:
                kinds.append(("unknown", rv["r"]))
        else:
            t = u[2]
            if t["t"] == "call":
                nm = callee_name(t) or "<indirect>"
                sc = short_callee(nm)
                if sc == "branch" and "Try" in nm:
                    kinds.append(classify_try(body, u[1], t))
                elif sc in ASSERTING:
                    kinds.append(("asserted", sc))
                elif sc in PASS_THROUGH and ("option::Option" in nm or "result::Result" in nm or "anyhow" in nm or "convert::" in nm):
                    kinds.append(consumption(body, u[1], t, depth + 1))
                elif sc in DEFAULTING and ("option::Option" in nm or "result::Result" in nm):
                    kinds.append(("defaulted", sc))
                else:
                    kinds.append(("passed", sc))
            elif t["t"] == "switch":
                kinds.append(("matched", "switch"))
            else:
                kinds.append(("unknown", t["t"]))
    # a single real consumer is the norm; discriminant reads + payload moves are all part of a match
    ks = {k for k, _ in kinds}
    for pref in ("propagated", "asserted", "defaulted", "matched", "returned", "passed", "stored", "unknown", "dropped"):
        if pref in ks:
            return pref, "; ".join(d for k, d in kinds if k == pref)
    return "unknown", ""


def classify_try(body, bb, term):
    """`?`: the Break arm must reach from_residual writing _0 and return"""
    dest = term["dest"]
    nxt = term.get("to")
    if nxt is None:
        return "unknown", "branch without successor"
    t = body.blocks[nxt]["term"]
    if t["t"] != "switch":
        return "unknown", "branch result not switched on"
    brk = None
    for val, tgt in t["arms"]:
        if val == "1":
            brk = tgt
    if brk is None:
        brk = t["else"]
    b = brk
    for _ in range(6):
        tt = body.blocks[b]["term"]
        if tt["t"] == "call":
            if (callee_name(tt) or "").endswith("from_residual") and tt["dest"] == 0:
                return "propagated", "?"
            return "unknown", "Break arm calls %s" % callee_name(tt)
        if tt["t"] == "goto":
            b = tt["to"]
            continue
        break
    return "unknown", "no from_residual into the return place on the Break arm"
