"""A9: decision tables read off MIR: string-match tables, discriminant tables, threshold chains."""
from fractions import Fraction

from .cfgq import Scope, bool_taken
from .exprs import ExprBuilder, strip, short_callee, show, leaf_name, walk
from .facts import AnalysisError
from .mir import callee_name, op_place, pl_local


def first_value_assigned(body, eb, start, stop_at=None, maxsteps=12):
    """follow straight-line code from block `start`; return the first node assigned to a non-temporary
    (the return place or a named local), or an enum aggregate assigned to any local"""
    b = start
    seen = set()
    for _ in range(maxsteps):
        if b in seen:
            return None
        seen.add(b)
        for s in body.blocks[b]["st"]:
            if s["s"] != "assign":
                continue
            l = pl_local(s["p"])
            if l == 0 or l in body.names:
                return eb.rvalue(s["rv"])
            rv = s["rv"]
            if rv["r"] == "agg" and rv.get("ak") == "adt" and isinstance(s["p"], int):
                return eb.rvalue(rv)
            if rv["r"] == "use" and "k" in rv["a"] and "s" in rv["a"]["k"] and isinstance(s["p"], int):
                return eb.rvalue(rv)
        t = body.blocks[b]["term"]
        if t["t"] == "goto":
            b = t["to"]
            continue
        if t["t"] == "call" and isinstance(t["dest"], int) and (t["dest"] == 0 or t["dest"] in body.names):
            nm = callee_name(t) or "?"
            return ("call", nm, tuple(eb.operand(a) for a in t["args"]), b)
        return None
    return None


def variant_of(node):
    """variant name if node is (possibly Ok/Some-wrapped) unit enum aggregate"""
    if node is None:
        return None
    n = strip(node)
    for _ in range(3):
        if n[0] == "agg" and n[1].split("::")[-1] in ("Ok", "Some") and len(n[3]) == 1:
            n = strip(n[3][0])
            continue
        break
    if n[0] == "agg" and "::" in n[1] and not n[3]:
        return n[1].split("::")[-1]
    if n[0] == "agg" and "::" in n[1]:
        return n[1].split("::")[-1]
    if n[0] == "s":
        return n[1]
    return None


def str_match_table(fn):
    """[(literal, value-node-or-None)] for `match s { "lit" => v, .. }` and the default value"""
    body = fn.body
    eb = ExprBuilder(body)
    rows = []
    for b, t in body.calls():
        nm = callee_name(t) or ""
        if short_callee(nm) != "eq" or "str" not in nm:
            continue
        lit = None
        for a in t["args"]:
            n = strip(eb.operand(a))
            if n[0] == "s":
                lit = n[1]
        if lit is None:
            continue
        nb = t.get("to")
        tt = body.blocks[nb]["term"]
        if tt["t"] != "switch":
            continue
        true_t = tt["else"] if tt["arms"] and tt["arms"][0][0] == "0" else None
        for v, tg in tt["arms"]:
            if v == "1":
                true_t = tg
        if true_t is None:
            continue
        val = first_value_assigned(body, eb, true_t)
        rows.append((lit, val, t.get("ln")))
    return rows


def discr_table(fn, place_filter=None):
    """for each switch on discr(x): {variant index -> value node}"""
    body = fn.body
    eb = ExprBuilder(body)
    out = []
    for b in range(body.n):
        t = body.blocks[b]["term"]
        if t["t"] != "switch":
            continue
        d = strip(eb.operand(t["d"]))
        if d[0] != "discr":
            continue
        rows = {}
        for v, tg in t["arms"]:
            rows[v] = first_value_assigned(body, eb, tg)
        rows["else"] = first_value_assigned(body, eb, t["else"])
        out.append((d[1], rows, t.get("ln")))
    return out


def threshold_chain(fn, var_pred=None):
    """`if x <= c1 {A} else if x < c2 {B} .. else {Z}` -> ([(op, const, result)], default result, compared node)"""
    body = fn.body
    eb = ExprBuilder(body)
    chain = []
    b = 0
    # find first switch on a comparison, walking from entry along the false edges
    visited = set()
    cur = 0
    cmp_node = None
    last_false = None
    while cur not in visited:
        visited.add(cur)
        t = body.blocks[cur]["term"]
        if t["t"] in ("goto",):
            if last_false is not None and any(s["s"] == "assign" for s in body.blocks[cur]["st"]):
                break      # the else-branch's value block
            cur = t["to"]
            continue
        if t["t"] == "call":
            if last_false is not None:
                break
            cur = t.get("to")
            if cur is None:
                break
            continue
        if t["t"] == "switch":
            n = strip(eb.operand(t["d"]))
            if n[0] == "bin" and n[1] in ("Lt", "Le", "Gt", "Ge") and strip(n[3])[0] == "k":
                true_t = None
                false_t = None
                for v, tg in t["arms"]:
                    if v == "0":
                        false_t = tg
                true_t = t["else"]
                res = first_value_assigned(body, eb, true_t)
                chain.append((n[1], strip(n[3])[1], res, strip(n[2]), t.get("ln")))
                cur = false_t
                last_false = false_t
                continue
        break
    default = first_value_assigned(body, eb, last_false) if last_false is not None else None
    return chain, default


def classify_by_chain(chain, default, x):
    """evaluate a threshold chain on a Fraction x -> result label"""
    for (op, c, res, _, _) in chain:
        c = Fraction(c)
        if (op == "Lt" and x < c) or (op == "Le" and x <= c) or (op == "Gt" and x > c) or (op == "Ge" and x >= c):
            return variant_of(res)
    return variant_of(default)


def partition_points(chains, lo, hi):
    """all boundary points and interval midpoints induced by the constants of the chains within [lo, hi]"""
    cs = sorted({Fraction(c) for ch in chains for (_, c, _, _, _) in ch if lo <= Fraction(c) <= hi} | {Fraction(lo), Fraction(hi)})
    pts = []
    for i, c in enumerate(cs):
        pts.append(c)
        if i + 1 < len(cs):
            pts.append((c + cs[i + 1]) / 2)
    return pts


def const_eval(n):
    """evaluate a constant arithmetic node to Fraction, or None"""
    n = strip(n)
    if n[0] == "k":
        try:
            return Fraction(n[1])
        except (ValueError, ZeroDivisionError):
            return None
    if n[0] == "cast":
        return const_eval(n[1])
    if n[0] == "un" and n[1] == "Neg":
        v = const_eval(n[2])
        return -v if v is not None else None
    if n[0] == "bin":
        a, b = const_eval(n[2]), const_eval(n[3])
        if a is None or b is None:
            return None
        if n[1].startswith("Add"):
            return a + b
        if n[1].startswith("Sub"):
            return a - b
        if n[1].startswith("Mul"):
            return a * b
        if n[1] == "Div" and b != 0:
            return a / b
    if n[0] == "proj" and n[2] == (".0",) and n[1][0] == "bin":
        return const_eval(n[1])
    return None


# --------------------------------------------------------------------------- truth tables by CFG walk under atom assignments

def common_dominator(body, blocks):
    blocks = list(blocks)
    if not blocks:
        return None
    if body._idom is None:
        body._compute_idom()

    def chain(b):
        out = [b]
        while body._idom.get(b, b) != b:
            b = body._idom[b]
            out.append(b)
        return out
    common = chain(blocks[0])
    for b in blocks[1:]:
        cb = set(chain(b))
        common = [x for x in common if x in cb]
    return common[0] if common else None


def def_blocks(body, name):
    out = []
    for l, nm in body.names.items():
        if nm == name:
            for d in body.defs().get(l, []):
                dest = d[3]["p"] if d[0] == "st" else d[2]["dest"]
                if isinstance(dest, int):
                    out.append((d[1], d))
    return out


def walk_decision(sc, start, atom_value, target_blocks, maxsteps=200):
    """walk the CFG from `start`, resolving every switch through atom_value(node) -> switch value string;
    `?` (Try::branch) switches take the Continue edge.  A switch on a local that has several definitions (`let x = match .. { .. }; if x {..}`)
    is resolved through the value assigned to it on the path walked.  Returns the first block of target_blocks reached, or
    ('stuck', node) if a switch cannot be resolved, or None."""
    body = sc.body
    b = start
    first = True
    env = {}
    for _ in range(maxsteps):
        if b in target_blocks and not first:
            return b
        first = False
        for s_ in body.blocks[b]["st"]:
            if s_["s"] == "assign" and isinstance(s_["p"], int):
                try:
                    env[s_["p"]] = sc.rvalue(s_["rv"])
                except Exception:
                    env.pop(s_["p"], None)
        t = body.blocks[b]["term"]
        k = t["t"]
        if b in target_blocks and k != "switch":
            return b
        if k == "goto":
            b = t["to"]
            continue
        if k in ("call", "drop", "assert"):
            if "to" not in t:
                return None
            if k == "call" and isinstance(t.get("dest"), int):
                try:
                    env[t["dest"]] = sc._rw(sc.eb.call_node(t, b))
                except Exception:
                    env.pop(t["dest"], None)
            b = t["to"]
            continue
        if k == "switch":
            n = strip(sc.operand(t["d"]))
            # `?`: discriminant of a Try::branch result -> Continue (0)
            if n[0] == "discr" and strip(n[1])[0] == "call" and short_callee(strip(n[1])[1]) == "branch":
                v = "0"
            else:
                v = atom_value(n)
                seen_ = 0
                while v is None and n[0] == "var" and n[1] in env and seen_ < 4:
                    n = strip(env[n[1]])
                    v = atom_value(n)
                    seen_ += 1
            if v is None:
                return ("stuck", n)
            nxt = None
            for val, tg in t["arms"]:
                if val == v:
                    nxt = tg
            if nxt is None:
                nxt = t["else"]
            b = nxt
            continue
        return None
    return None


# --------------------------------------------------------------------------- boolean predicates over finite-domain atoms

class Atoms:
    """assignment of finite-domain atoms: field suffix -> value (bool or enum variant name); enums: field suffix -> variant list"""

    def __init__(self, values, enums):
        self.values = values
        self.enums = enums
        self.inliner = None       # set by eval_predicate: evaluates calls of small workspace predicates under the same assignment
        self.free_values = {}     # text of a comparison on a quantity that is not an atom -> assumed truth value
        self.free_seen = set()    # such comparisons met while evaluating (the caller enumerates them)

    def field_of(self, n):
        nm = leaf_name(strip(n)) or ""
        for f in self.values:
            if nm.endswith("." + f) or nm == f:
                return f
        return None

    def value(self, n):
        """switch-value string of node n under this assignment, or None"""
        n = strip(n)
        if n[0] == "un" and n[1] == "Not":
            v = self.value(n[2])
            return None if v is None else ("0" if v == "1" else "1")
        f = self.field_of(n)
        if f is not None and isinstance(self.values[f], bool):
            return "1" if self.values[f] else "0"
        if n[0] == "discr":
            f = self.field_of(n[1])
            if f is not None and f in self.enums:
                return str(self.enums[f].index(self.values[f]))
        if n[0] == "call" and short_callee(n[1]) in ("eq", "ne") and len(n[2]) == 2:
            a, b = strip(n[2][0]), strip(n[2][1])
            for x, y in ((a, b), (b, a)):
                f = self.field_of(x)
                if f is not None and y[0] == "agg" and "::" in y[1]:
                    res = self.values[f] == y[1].split("::")[-1]
                    if short_callee(n[1]) == "ne":
                        res = not res
                    return "1" if res else "0"
                if f is not None and y[0] == "k" and isinstance(self.values[f], bool):
                    res = self.values[f] == (y[1] == "true")
                    return "1" if res else "0"
        if n[0] == "call" and short_callee(n[1]) in ("is_some", "is_none") and n[2]:
            f = self.field_of(n[2][0])
            if f is not None and isinstance(self.values[f], bool):
                res = self.values[f] if short_callee(n[1]) == "is_some" else not self.values[f]
                return "1" if res else "0"
        if n[0] == "k" and n[1] in ("true", "false"):
            return "1" if n[1] == "true" else "0"
        if n[0] == "bin" and n[1] in ("Lt", "Le", "Gt", "Ge", "Eq", "Ne") and (strip(n[2])[0] == "k" or strip(n[3])[0] == "k"):
            # a comparison of some other quantity with a constant: a free atom the caller may enumerate
            key = show(n)
            self.free_seen.add(key)
            if key in self.free_values:
                return "1" if self.free_values[key] else "0"
            return None
        if n[0] == "call" and self.inliner is not None:
            return self.inliner(n)
        return None


def inline_predicate(prog, n, atoms, depth):
    """value of a call of a workspace function returning bool, evaluated on its own body with the parameters bound to the
    caller's argument nodes (helper predicates such as `w.is_exposed()`); None when it cannot be resolved"""
    if depth > 3:
        return None
    ids = prog.callee_index().get(n[1], ())
    if len(ids) != 1:
        return None
    fn = prog.fns[next(iter(ids))]
    if fn.raw.get("ret") != "bool" or fn.body.argc != len(n[2]):
        return None
    sc = Scope(prog, fn, argmap={i + 1: a for i, a in enumerate(n[2])})
    r = eval_predicate(sc, atoms, depth=depth + 1)
    return "1" if r is True else "0" if r is False else None


def eval_predicate(sc, atoms, maxsteps=80, depth=0):
    """evaluate a bool-returning body (closure) under an atom assignment by walking its CFG. -> True / False / ('stuck', text)"""
    body = sc.body
    prev = atoms.inliner
    atoms.inliner = lambda n: inline_predicate(sc.prog, n, atoms, depth)
    try:
        return _eval_predicate(sc, atoms, maxsteps)
    finally:
        atoms.inliner = prev


def _eval_predicate(sc, atoms, maxsteps):
    body = sc.body
    b = 0
    result = None
    for _ in range(maxsteps):
        for s in body.blocks[b]["st"]:
            if s["s"] == "assign" and s["p"] == 0:
                v = atoms.value(sc.rvalue(s["rv"]))
                if v is None:
                    return ("stuck", show(sc.rvalue(s["rv"]))[:120])
                result = v == "1"
        t = body.blocks[b]["term"]
        k = t["t"]
        if k == "return":
            return result if result is not None else ("stuck", "no value")
        if k == "goto":
            b = t["to"]
            continue
        if k == "switch":
            v = atoms.value(sc.operand(t["d"]))
            if v is None:
                return ("stuck", show(sc.operand(t["d"]))[:120])
            nxt = None
            for val, tg in t["arms"]:
                if val == v:
                    nxt = tg
            b = nxt if nxt is not None else t["else"]
            continue
        if k == "call":
            if t["dest"] == 0:
                v = atoms.value(sc._rw(sc.eb.call_node(t, b)))
                if v is None:
                    return ("stuck", show(sc._rw(sc.eb.call_node(t, b)))[:120])
                result = v == "1"
            elif isinstance(t["dest"], int):
                # a temporary holding a comparison: resolved lazily through the expression builder when switched on
                pass
            if "to" not in t:
                return ("stuck", "diverges")
            b = t["to"]
            continue
        if k in ("drop", "assert"):
            b = t["to"]
            continue
        return ("stuck", k)
    return ("stuck", "too long")


def predicate_table(sc, fields, enums):
    """truth table of a predicate body over the product of the atoms' domains: {assignment tuple: bool}"""
    import itertools
    names = list(fields)
    doms = []
    for f in names:
        doms.append(enums[f] if f in enums else [True, False])
    out = {}
    for combo in itertools.product(*doms):
        at = Atoms(dict(zip(names, combo)), enums)
        out[combo] = eval_predicate(sc, at)
    return names, out


def eval_return(sc, atom_value, maxsteps=120, try_atoms=False, subst_result=False):
    """walk a body under an atom assignment and return the (rewritten) node last assigned to the return place.  A `?` takes its Continue edge unless
    try_atoms is set and atom_value decides the discriminant of the Try::branch result itself ("0" Continue, "1" Break)"""
    body = sc.body
    b = 0
    result = None
    env = {}      # named locals with several definitions: the value assigned on the path walked

    def subst(n, depth=0):
        """replace multi-definition locals in the result by the value they were given on this path"""
        if depth > 6:
            return n
        k = n[0]
        if k == "var" and n[1] in env:
            return subst(strip(env[n[1]]), depth + 1)
        if k == "bin":
            return ("bin", n[1], subst(n[2], depth + 1), subst(n[3], depth + 1))
        if k == "un":
            return ("un", n[1], subst(n[2], depth + 1))
        if k == "cast":
            return ("cast", subst(n[1], depth + 1), n[2])
        if k == "call":
            return ("call", n[1], tuple(subst(a, depth + 1) for a in n[2]), n[3])
        if k == "agg":
            return ("agg", n[1], n[2], tuple(subst(a, depth + 1) for a in n[3]))
        if k == "proj":
            from .exprs import mkproj
            return mkproj(subst(n[1], depth + 1), n[2])
        return n
    multi = {l for l, ds in body.defs().items() if isinstance(l, int) and l != 0 and len(ds) > 1 and l in body.names}
    for _ in range(maxsteps):
        for s in body.blocks[b]["st"]:
            if s["s"] == "assign" and s["p"] == 0:
                result = strip(sc.rvalue(s["rv"]))
            elif s["s"] == "assign" and isinstance(s["p"], int) and s["p"] in multi:
                try:
                    env[s["p"]] = sc.rvalue(s["rv"])
                except Exception:
                    env.pop(s["p"], None)
        t = body.blocks[b]["term"]
        k = t["t"]
        if k == "return":
            if subst_result and result is not None and env and result[0] != "stuck":
                # `let x = match .. {..}; a && x`: the returned local takes the value it was given on the path walked
                return strip(subst(result))
            return subst(result) if (result is not None and env and not isinstance(result, tuple)) else result
        if k == "goto":
            b = t["to"]
            continue
        if k == "switch":
            n = strip(sc.operand(t["d"]))
            if n[0] == "discr" and strip(n[1])[0] == "call" and short_callee(strip(n[1])[1]) == "branch":
                v = (atom_value(n) if try_atoms else None) or "0"
            else:
                v = atom_value(n)
                if v is None and env:
                    n2 = strip(subst(n))
                    if n2 != n:
                        v = atom_value(n2)
            if v is None:
                return ("stuck", show(n)[:160])
            nxt = None
            for val, tg in t["arms"]:
                if val == v:
                    nxt = tg
            b = nxt if nxt is not None else t["else"]
            continue
        if k == "call":
            if t["dest"] == 0:
                result = strip(sc._rw(sc.eb.call_node(t, b)))
            elif isinstance(t["dest"], int) and t["dest"] in multi:
                try:
                    env[t["dest"]] = sc._rw(sc.eb.call_node(t, b))
                except Exception:
                    env.pop(t["dest"], None)
            if "to" not in t:
                return ("stuck", "diverges")
            b = t["to"]
            continue
        if k in ("drop", "assert"):
            b = t["to"]
            continue
        return ("stuck", k)
    return ("stuck", "too long")


def const_discr(prog, n):
    """discriminant of an enum value that is a literal unit variant (`HeatFlow::Upwards`) -> its index as a switch value, else None"""
    n = strip(n)
    if n[0] == "discr":
        v = strip(n[1])
        if v[0] == "agg" and "::" in v[1] and not v[3]:
            adt_path, var = v[1].rsplit("::", 1)
            a = prog.adts.get(adt_path) or next((x for x in prog.adts.values() if x["path"] == adt_path), None)
            if a is not None:
                names = [x["name"] for x in a["variants"]]
                if var in names:
                    return str(names.index(var))
    return None


def resolve_helpers(prog, node, atom_value, depth=0):
    """replace calls of small workspace helpers that contain a case distinction (`w.adjacent_space()`) by the value they return under the
    given atom assignment (the helper's own CFG is walked with its parameters bound to the call's arguments); other nodes are kept"""
    if depth > 3 or prog is None:
        return node
    n = node
    k = n[0]
    if k == "call":
        args = tuple(resolve_helpers(prog, a, atom_value, depth) for a in n[2])
        n = ("call", n[1], args, n[3])
        ids = prog.callee_index().get(n[1], ())
        if len(ids) == 1:
            fn = prog.fns[next(iter(ids))]
            if fn.kind in ("fn", "assocfn") and fn.body.argc == len(args) and fn.body.n <= 40 and not fn.body.loops() and \
                    any(fn.body.blocks[b]["term"]["t"] == "switch" for b in range(fn.body.n) if not fn.body.is_cleanup(b)):
                sc = Scope(prog, fn, argmap={i + 1: a for i, a in enumerate(args)})
                r = eval_return(sc, lambda x: const_discr(prog, x) or atom_value(x))
                if r is not None and not (isinstance(r, tuple) and r and r[0] == "stuck"):
                    return resolve_helpers(prog, r, atom_value, depth + 1)
        return n
    if k == "proj":
        from .exprs import mkproj
        return mkproj(resolve_helpers(prog, n[1], atom_value, depth), n[2])
    if k == "bin":
        return ("bin", n[1], resolve_helpers(prog, n[2], atom_value, depth), resolve_helpers(prog, n[3], atom_value, depth))
    if k == "un":
        return ("un", n[1], resolve_helpers(prog, n[2], atom_value, depth))
    if k == "discr":
        return ("discr", resolve_helpers(prog, n[1], atom_value, depth))
    return n


# --- decision trees over one angle (a classifier that is not a flat if/else-if chain) -------------------------------------------------------

def _num_eval(n, x, depth=0):
    """value (Fraction, or bool) of a node whose only free quantity is the function's first parameter, bound to the Fraction x; None when
    the node holds anything else.  Knows normalize(v, s, e) (utils::normalize: v reduced into [s, e) by the period e - s), abs, negation,
    the four arithmetic operations and the six comparisons - what an angle classifier is made of."""
    import math
    if depth > 24:
        return None
    n = strip(n)
    k = n[0]
    if k == "arg":
        return x
    if k == "k":
        if n[1] in ("true", "false"):
            return n[1] == "true"
        try:
            return Fraction(n[1])
        except Exception:
            return None
    if k == "cast":
        return _num_eval(n[1], x, depth + 1)
    if k == "un":
        v = _num_eval(n[2], x, depth + 1)
        if v is None:
            return None
        if n[1] == "Neg":
            return -v
        if n[1] == "Not" and isinstance(v, bool):
            return not v
        return None
    if k == "bin":
        a, b = _num_eval(n[2], x, depth + 1), _num_eval(n[3], x, depth + 1)
        if a is None or b is None:
            return None
        op = n[1]
        if op in ("Lt", "Le", "Gt", "Ge", "Eq", "Ne"):
            return {"Lt": a < b, "Le": a <= b, "Gt": a > b, "Ge": a >= b, "Eq": a == b, "Ne": a != b}[op]
        if isinstance(a, bool) or isinstance(b, bool):
            if op in ("BitAnd", "BitOr") and isinstance(a, bool) and isinstance(b, bool):
                return (a and b) if op == "BitAnd" else (a or b)
            return None
        if op == "Add":
            return a + b
        if op == "Sub":
            return a - b
        if op == "Mul":
            return a * b
        if op == "Div" and b != 0:
            return a / b
        return None
    if k == "call":
        nm = short_callee(n[1])
        vs = [_num_eval(a, x, depth + 1) for a in n[2]]
        if any(v is None or isinstance(v, bool) for v in vs):
            return None
        if nm == "normalize" and len(vs) == 3 and vs[2] != vs[1]:
            v, s, e = vs
            return (v - s) - math.floor((v - s) / (e - s)) * (e - s) + s
        if nm == "abs" and len(vs) == 1:
            return abs(vs[0])
        return None
    return None


def classify_by_walk(prog, fn, x):
    """class (variant name) the function returns for its first parameter = x, by walking its CFG with every switch decided by `_num_eval`;
    None when a switch or the result cannot be evaluated"""
    sc = Scope(prog, fn)

    def at(n):
        v = _num_eval(n, x)
        if isinstance(v, bool):
            return "1" if v else "0"
        return None
    r = eval_return(sc, at, maxsteps=400, subst_result=True)
    if r is None or (isinstance(r, tuple) and r and r[0] == "stuck"):
        return None
    return variant_of(r)


def walk_constants(prog, fn):
    """(float constants compared in the function's switches, True when the parameter is read only through normalize(.., s, s + 360))"""
    sc = Scope(prog, fn)
    body = fn.body
    ks, mod360 = set(), True

    def scan(n, under):
        nonlocal mod360
        n = strip(n)
        if n[0] == "k":
            try:
                ks.add(Fraction(n[1]))
            except Exception:
                pass
        elif n[0] == "arg":
            if not under:
                mod360 = False
        elif n[0] == "call":
            u = under
            if short_callee(n[1]) == "normalize" and len(n[2]) == 3:
                s, e = _num_eval(n[2][1], Fraction(0)), _num_eval(n[2][2], Fraction(0))
                if s is not None and e is not None and e - s == 360:
                    u = True
            for a in n[2]:
                scan(a, u)
        elif n[0] == "bin":
            scan(n[2], under); scan(n[3], under)
        elif n[0] == "un":
            scan(n[2], under)
        elif n[0] == "cast":
            scan(n[1], under)
    for b in body.blocks:
        t = (body.blocks[b] if isinstance(body.blocks, dict) else b)["term"]
        if t["t"] == "switch":
            try:
                scan(sc.operand(t["d"]), False)
            except Exception:
                mod360 = False
    return ks, mod360


def angle_points(consts, lo=0, hi=360):
    """every place in [lo, hi] where a classifier built from normalize/abs/comparisons with these constants can change class (c, -c, +-c + 360k),
    the midpoints between them, and the ends"""
    cs = {Fraction(lo), Fraction(hi)}
    for c in consts:
        for s in (c, -c):
            for k in (-2, -1, 0, 1, 2):
                v = s + 360 * k
                if lo <= v <= hi:
                    cs.add(v)
    cs = sorted(cs)
    pts = []
    for i, c in enumerate(cs):
        pts.append(c)
        if i + 1 < len(cs):
            pts.append((c + cs[i + 1]) / 2)
    return pts
