"""A3/A7: def-use expression trees over MIR, and normal forms (rational functions over atoms).

Nodes are tuples:
  ("k", value_str, ty, defname|None)         scalar constant (value as decimal string)
  ("s", text)                                string constant
  ("kx", dict)                               other constant (fn item, static, zst...)
  ("arg", idx, name)                         function argument (idx from 1)
  ("upvar", idx, name)                       closure capture
  ("var", local, name)                       multi-definition local (leaf; query body.defs())
  ("call", name, (args...), bb)              call result (resolved pretty name)
  ("bin", op, a, b) ("un", op, a) ("cast", a, ty)
  ("proj", base, (elems...))                 field path / downcast / index on base
  ("agg", label, (fieldnames...), (ops...))  aggregate
  ("discr", a)
  ("unk", text)
References and dereferences are erased (value semantics).
"""
import ast as pyast
import re
from fractions import Fraction

from .facts import AnalysisError
from .mir import callee_of, pl_local, pl_proj


class ExprBuilder:
    def __init__(self, body, max_nodes=20000):
        self.body = body
        self.memo = {}
        self.active = set()
        self.count = 0
        self.max_nodes = max_nodes

    def operand(self, op):
        if "k" in op:
            return self.const(op["k"])
        p = op.get("c", op.get("m"))
        if p is None:
            return ("unk", str(op))
        return self.place(p)

    def const(self, k):
        if "promoted" in k and isinstance(k["promoted"], int):
            proms = self.body.fn.raw.get("promoted") or []
            if k["promoted"] < len(proms):
                key = ("prom", k["promoted"])
                if key not in self.memo:
                    from .mir import Body
                    pb = Body(self.body.fn, proms[k["promoted"]])
                    peb = ExprBuilder(pb)
                    # a promoted body computes _0 (a reference to the promoted value)
                    ds = pb.whole_defs(0)
                    if len(ds) == 1 and ds[0][0] == "st":
                        self.memo[key] = peb.rvalue(ds[0][3]["rv"])
                    else:
                        self.memo[key] = ("kx", _freeze(k))
                return self.memo[key]
        if "v" in k:
            return ("k", k["v"], k.get("ty"), k.get("def"))
        if "s" in k:
            return ("s", k["s"])
        return ("kx", _freeze(k))

    def place(self, p):
        l = pl_local(p)
        elems = [e for e in pl_proj(p) if e != "*"]
        if l == 1 and self.body.fn.kind == "closure" and elems and elems[0][1:].isdigit():
            idx = int(elems[0][1:])
            base = ("upvar", idx, self.body.upvars.get(idx, "upvar%d" % idx))
            return mkproj(base, elems[1:], self)
        base = self.local(l)
        return mkproj(base, elems, self)

    def local(self, l):
        if l in self.memo:
            return self.memo[l]
        body = self.body
        if 1 <= l <= body.argc:
            if body.defs().get(l):
                # a parameter that is overwritten in the body is not the caller's value any more: it gets a name of its own, so that a
                # formula written in terms of the parameter does not silently match after `x = f(x)`
                node = ("var", l, "%s(reassigned)" % body.names.get(l, "_%d" % l))
            else:
                node = ("arg", l, body.names.get(l, "_%d" % l))
            self.memo[l] = node
            return node
        wd = body.whole_defs(l)
        alld = body.defs().get(l, [])
        named_mut = body.locals[l]["mut"] and l in body.names
        if named_mut and len(wd) == 1 and len(alld) == 1 and wd[0][0] == "st" and any("`for` loop" in m for m in (wd[0][3].get("mb") or [])):
            named_mut = False   # the hidden iterator variable of a `for` loop
        if len(wd) != 1 or len(alld) != 1 or l in self.active or named_mut:
            node = ("var", l, body.names.get(l, "_%d" % l))
            self.memo[l] = node
            return node
        self.active.add(l)
        self.count += 1
        if self.count > self.max_nodes:
            raise AnalysisError("expression too large in %s" % self.body.fn.path)
        d = wd[0]
        if d[0] == "call":
            node = self.call_node(d[2], d[1])
        else:
            node = self.rvalue(d[3]["rv"])
        self.active.discard(l)
        self.memo[l] = node
        return node

    def call_node(self, t, bb):
        c = callee_of(t)
        name = (c.get("rfn") or c["fn"]) if c else "<indirect>"
        args = tuple(self.operand(a) for a in t["args"])
        node = ("call", name, args, bb)
        if name.endswith("box_assume_init_into_vec_unsafe") and t["args"]:
            lit = self.vec_literal(t["args"][0])
            if lit is not None:
                node = lit
        if c is None:
            node = ("call", "<indirect>", (self.operand(t["f"]),) + args, bb)
        return node

    def vec_literal(self, boxop):
        """`vec![a, b, ..]` on this toolchain: Box::new_uninit(); (*ptr).value.value.0 = [a, b, ..];
        box_assume_init_into_vec_unsafe(box).  Returns ("agg", "vec", idx, ops) or None."""
        body = self.body
        p = boxop.get("m", boxop.get("c"))
        if p is None:
            return None
        bl = pl_local(p)
        # follow moves back to the Box::new_uninit result
        seen = set()
        while bl not in seen:
            seen.add(bl)
            d = body.single_def(bl)
            if d and d[0] == "st" and d[3]["rv"]["r"] == "use":
                q = d[3]["rv"]["a"].get("m", d[3]["rv"]["a"].get("c"))
                if q is not None and isinstance(q, int):
                    bl = q
                    continue
            break
        if not hasattr(body, "_vecwrites"):
            # pointer local -> box local ; writes through pointer locals
            ptr_of = {}
            writes = {}
            for b, i, s in body.statements():
                if s["s"] != "assign":
                    continue
                rv = s["rv"]
                if rv["r"] == "cast" and isinstance(s["p"], int):
                    q = rv["a"].get("c", rv["a"].get("m"))
                    if q is not None and not isinstance(q, int) and ".pointer" in q["p"]:
                        ptr_of[s["p"]] = q["l"]
                if not isinstance(s["p"], int) and s["p"]["p"] and s["p"]["p"][0] == "*" and rv["r"] == "agg" and rv.get("ak") == "array":
                    writes.setdefault(s["p"]["l"], []).append(rv)
            body._vecwrites = (ptr_of, writes)
        ptr_of, writes = body._vecwrites
        for pl, boxl in ptr_of.items():
            if boxl == bl and pl in writes and len(writes[pl]) == 1:
                rv = writes[pl][0]
                return ("agg", "vec", tuple(str(i) for i in range(len(rv["ops"]))), tuple(self.operand(o) for o in rv["ops"]))
        return None

    def rvalue(self, rv):
        r = rv["r"]
        if r == "use":
            return self.operand(rv["a"])
        if r in ("ref", "rawptr"):
            return self.place(rv["p"])
        if r == "bin":
            return ("bin", rv["op"], self.operand(rv["a"]), self.operand(rv["b"]))
        if r == "un":
            return ("un", rv["op"], self.operand(rv["a"]))
        if r == "cast":
            return ("cast", self.operand(rv["a"]), rv["ty"])
        if r == "discr":
            return ("discr", self.place(rv["p"]))
        if r == "agg":
            label = rv.get("adt", rv["ak"])
            if "variant" in rv and rv.get("adt"):
                label = rv["adt"] + "::" + rv["variant"]
            if rv.get("closure"):
                label = "closure:" + rv["closure"]
            return ("agg", label, tuple(rv.get("fields") or [str(i) for i in range(len(rv["ops"]))]),
                    tuple(self.operand(o) for o in rv["ops"]))
        if r == "repeat":
            return ("agg", "repeat", ("0",), (self.operand(rv["a"]),))
        return ("unk", rv.get("dbg", r))


def _freeze(k):
    return tuple(sorted((a, str(b)) for a, b in k.items() if a in ("fn", "rfn", "static", "closure", "ty", "def", "zst")))


def mkproj(base, elems, builder=None):
    elems = list(elems)
    while elems:
        e = elems[0]
        if base[0] == "agg" and e.startswith("."):
            name = e[1:]
            if name in base[2]:
                base = base[3][base[2].index(name)]
                elems.pop(0)
                continue
            break
        if base[0] == "agg" and e.startswith("@"):
            # downcast on a known aggregate: keep if variant matches
            if base[1].endswith("::" + e[1:]):
                elems.pop(0)
                continue
            break
        break
    if not elems:
        return base
    if base[0] == "proj":
        return ("proj", base[1], tuple(base[2]) + tuple(elems))
    return ("proj", base, tuple(elems))


# --------------------------------------------------------------------------- pretty / canonical leaf names

def leaf_name(n):
    """canonical short name of a leaf-like node: arg/var/upvar with a field path"""
    k = n[0]
    if k == "arg" or k == "upvar":
        return n[2]
    if k == "var":
        return n[2]
    if k == "elem":
        return n[1] + "[]"
    if k == "named":
        return n[1]
    if k == "proj":
        b = leaf_name(n[1])
        if b is None:
            return None
        return b + "".join(n[2])
    if k == "call":
        nm = short_callee(n[1])
        if nm in TRANSPARENT and n[2]:
            return leaf_name(n[2][0])
        return None
    return None


def is_arith_op(name):
    """`<&f32 as std::ops::Div<f32>>::div` and friends"""
    return bool(re.search(r"ops::(arith::)?(Add|Sub|Mul|Div|Neg)\b", name))


def short_callee(name):
    """last path segments of a resolved callee name, without generic noise"""
    s = name
    # <impl X for Y>::m  ->  take method name and self type
    depth = 0
    cut = 0
    for i, ch in enumerate(s):
        if ch == "<":
            depth += 1
        elif ch == ">":
            depth -= 1
        elif ch == ":" and depth == 0 and s[i:i + 2] == "::":
            cut = i + 2
    return s[cut:]


TRANSPARENT = {"deref", "deref_mut", "as_ref", "as_mut", "borrow", "borrow_mut", "clone", "to_owned", "copied",
               "cloned", "as_str", "as_slice", "into", "from", "to_string", "as_deref"}


def show(n, depth=0):
    if depth > 12:
        return "..."
    k = n[0]
    if k == "k":
        return n[1] if not n[3] else "%s" % n[1]
    if k == "s":
        return repr(n[1])
    if k in ("arg", "upvar", "var"):
        return n[2]
    if k == "elem":
        return n[1] + "[]"
    if k == "named":
        return n[1]
    if k == "proj":
        return show(n[1], depth + 1) + "".join(n[2])
    if k == "bin":
        return "(%s %s %s)" % (show(n[2], depth + 1), {"Add": "+", "Sub": "-", "Mul": "*", "Div": "/", "Lt": "<", "Le": "<=", "Gt": ">", "Ge": ">=", "Eq": "==", "Ne": "!="}.get(n[1], n[1]), show(n[3], depth + 1))
    if k == "un":
        return "%s(%s)" % (n[1], show(n[2], depth + 1))
    if k == "call":
        return "%s(%s)" % (short_callee(n[1]), ", ".join(show(a, depth + 1) for a in n[2]))
    if k == "cast":
        return "(%s as %s)" % (show(n[1], depth + 1), n[2])
    if k == "agg":
        return "%s{%s}" % (n[1].split("::")[-1], ", ".join("%s:%s" % (f, show(o, depth + 1)) for f, o in zip(n[2], n[3])))
    if k == "discr":
        return "discr(%s)" % show(n[1], depth + 1)
    return str(n)[:80]


def walk(n):
    yield n
    k = n[0]
    if k == "bin":
        yield from walk(n[2])
        yield from walk(n[3])
    elif k in ("un",):
        yield from walk(n[2])
    elif k == "cast" or k == "discr":
        yield from walk(n[1])
    elif k == "proj":
        yield from walk(n[1])
    elif k == "call":
        for a in n[2]:
            yield from walk(a)
    elif k == "agg":
        for a in n[3]:
            yield from walk(a)


def calls_in(n):
    return [x for x in walk(n) if x[0] == "call"]


def leaves_in(n):
    out = set()
    for x in walk(n):
        if x[0] in ("arg", "var", "upvar"):
            out.add(x[2])
    return out


# --------------------------------------------------------------------------- rational normal form

class Poly:
    """multivariate polynomial with Fraction coefficients; monomial = tuple of (atom, power) sorted"""
    __slots__ = ("t",)

    def __init__(self, t=None):
        self.t = {m: c for m, c in (t or {}).items() if c != 0}

    @staticmethod
    def const(c):
        return Poly({(): Fraction(c)})

    @staticmethod
    def atom(a):
        return Poly({((a, 1),): Fraction(1)})

    def __add__(self, o):
        t = dict(self.t)
        for m, c in o.t.items():
            t[m] = t.get(m, 0) + c
        return Poly(t)

    def __neg__(self):
        return Poly({m: -c for m, c in self.t.items()})

    def __sub__(self, o):
        return self + (-o)

    def __mul__(self, o):
        t = {}
        for m1, c1 in self.t.items():
            for m2, c2 in o.t.items():
                d = dict(m1)
                for a, p in m2:
                    d[a] = d.get(a, 0) + p
                m = tuple(sorted(d.items()))
                t[m] = t.get(m, 0) + c1 * c2
        if len(t) > 4000:
            raise AnalysisError("polynomial blow-up")
        return Poly(t)

    def __eq__(self, o):
        return self.t == o.t

    def is_zero(self):
        return not self.t

    def is_const(self):
        return all(m == () for m in self.t)

    def const_value(self):
        return self.t.get((), Fraction(0))

    def atoms(self):
        s = set()
        for m in self.t:
            for a, _ in m:
                s.add(a)
        return s

    def __str__(self):
        if not self.t:
            return "0"
        parts = []
        for m, c in sorted(self.t.items(), key=lambda x: str(x[0])):
            ms = "*".join(a if p == 1 else "%s^%d" % (a, p) for a, p in m)
            cs = str(c) if c.denominator != 1 else str(c.numerator)
            if not ms:
                parts.append(cs)
            elif c == 1:
                parts.append(ms)
            else:
                parts.append(cs + "*" + ms)
        return " + ".join(parts)


class Rat:
    __slots__ = ("n", "d")

    def __init__(self, n, d=None):
        self.n = n
        self.d = d if d is not None else Poly.const(1)
        if self.d.is_const() and not self.d.is_zero():
            c = self.d.const_value()
            if c != 1:
                self.n = self.n * Poly.const(1 / c)
                self.d = Poly.const(1)

    def __add__(self, o):
        if self.d == o.d:
            return Rat(self.n + o.n, self.d)
        return Rat(self.n * o.d + o.n * self.d, self.d * o.d)

    def __sub__(self, o):
        return self + Rat(-o.n, o.d)

    def __mul__(self, o):
        return Rat(self.n * o.n, self.d * o.d)

    def div(self, o):
        if o.n.is_zero():
            raise AnalysisError("division by literal zero in formula")
        return Rat(self.n * o.d, self.d * o.n)

    def equals(self, o):
        return (self.n * o.d) == (o.n * self.d)

    def __str__(self):
        if self.d.is_const() and self.d.const_value() == 1:
            return str(self.n)
        return "(%s) / (%s)" % (self.n, self.d)


class Normalizer:
    """Normalises expression nodes (code side) and reference strings to Rat over shared atoms."""
    FUNCS = {"ln", "abs", "max", "min", "round", "floor", "ceil", "sqrt", "sin", "cos", "tan", "to_radians",
             "to_degrees", "powi", "powf", "exp", "acos", "asin", "atan2", "atan", "signum", "trunc", "mul_add", "clamp", "log10"}
    # repository helpers kept as function symbols
    REPO_FUNCS = {"fround2": "r2", "fround3": "r3"}

    def __init__(self, leafmap=None, callmap=None, strict=True):
        self.leafmap = leafmap if leafmap is not None else {}
        self.callmap = callmap or {}
        self.fatoms = []       # (fname, [Rat args], atom id)
        self.unknown = []
        self.strict = strict

    def fatom(self, fname, args):
        for (f, a, aid) in self.fatoms:
            if f == fname and len(a) == len(args) and all(x.equals(y) for x, y in zip(a, args)):
                return Poly.atom(aid)
        aid = "%s#%d(%s)" % (fname, len(self.fatoms), ", ".join(str(a) for a in args))
        self.fatoms.append((fname, args, aid))
        return Poly.atom(aid)

    # ---- code side
    def code(self, n):
        k = n[0]
        if k == "k":
            if n[3] and n[3].endswith("consts::PI"):
                return Rat(Poly.atom("PI"))
            try:
                return Rat(Poly.const(Fraction(n[1])))
            except (ValueError, ZeroDivisionError):
                if n[1] in ("true", "false"):
                    return Rat(Poly.atom(n[1]))
                raise AnalysisError("non-numeric constant %r in formula" % (n[1],))
        if k == "bin":
            op = n[1]
            a = self.code(n[2])
            b = self.code(n[3])
            if op in ("Add", "AddWithOverflow", "AddUnchecked"):
                return a + b
            if op in ("Sub", "SubWithOverflow", "SubUnchecked"):
                return a - b
            if op in ("Mul", "MulWithOverflow", "MulUnchecked"):
                return a * b
            if op == "Div":
                return a.div(b)
            return Rat(self.fatom(op, [a, b]))
        if k == "un":
            if n[1] == "Neg":
                return Rat(Poly.const(0)) - self.code(n[2])
            return Rat(self.fatom(n[1], [self.code(n[2])]))
        if k == "cast":
            return self.code(n[1])
        if k == "proj" and n[2] and n[2][-1] == ".0" and n[1][0] == "bin" and "WithOverflow" in n[1][1]:
            return self.code(("bin", n[1][1], n[1][2], n[1][3]))
        if k == "call":
            nm = short_callee(n[1])
            if nm in ("add", "sub", "mul", "div") and is_arith_op(n[1]) and len(n[2]) == 2:
                a, b = self.code(n[2][0]), self.code(n[2][1])
                return {"add": a + b, "sub": a - b, "mul": a * b}[nm] if nm != "div" else a.div(b)
            if nm == "neg" and is_arith_op(n[1]) and len(n[2]) == 1:
                return Rat(Poly.const(0)) - self.code(n[2][0])
            if nm in self.callmap:
                sym = self.callmap[nm]
                if sym is None:      # transparent
                    return self.code(n[2][0])
                return Rat(self.fatom(sym, [self.code(a) for a in n[2]]))
            if nm in self.REPO_FUNCS:
                return Rat(self.fatom(self.REPO_FUNCS[nm], [self.code(a) for a in n[2]]))
            if nm in self.FUNCS and ("f32" in n[1] or "f64" in n[1] or "core::num" in n[1] or "std::" in n[1]):
                return Rat(self.fatom(nm, [self.code(a) for a in n[2]]))
            if nm in TRANSPARENT and len(n[2]) == 1:
                return self.code(n[2][0])
        ln = leaf_name(n)
        if ln is not None:
            if ln in self.leafmap:
                return Rat(Poly.atom(self.leafmap[ln]))
            self.unknown.append(ln)
            return Rat(Poly.atom("?" + ln))
        self.unknown.append(show(n))
        if self.strict:
            raise AnalysisError("formula shape not recognised: %s" % show(n)[:200])
        return Rat(Poly.atom("?" + show(n)))

    # ---- reference side: python expression syntax
    def ref(self, text):
        tree = pyast.parse(text, mode="eval").body
        return self._ref(tree)

    def _ref(self, t):
        if isinstance(t, pyast.BinOp):
            a = self._ref(t.left)
            b = self._ref(t.right)
            if isinstance(t.op, pyast.Add):
                return a + b
            if isinstance(t.op, pyast.Sub):
                return a - b
            if isinstance(t.op, pyast.Mult):
                return a * b
            if isinstance(t.op, pyast.Div):
                return a.div(b)
            raise AnalysisError("bad reference operator")
        if isinstance(t, pyast.UnaryOp) and isinstance(t.op, pyast.USub):
            return Rat(Poly.const(0)) - self._ref(t.operand)
        if isinstance(t, pyast.Constant):
            return Rat(Poly.const(Fraction(str(t.value))))
        if isinstance(t, pyast.Name):
            return Rat(Poly.atom(t.id))
        if isinstance(t, pyast.Call):
            return Rat(self.fatom(t.func.id, [self._ref(a) for a in t.args]))
        raise AnalysisError("bad reference expression")


def parse_float_token(text):
    return Fraction(text)


def strip(n):
    """strip transparent wrappers (deref, clone, as_ref, copied...) from a node"""
    while n[0] == "call" and short_callee(n[1]) in TRANSPARENT and len(n[2]) >= 1:
        n = n[2][0]
    return n


def origin_desc(n, depth=0):
    """short structural descriptor of where a value comes from (no line numbers, no local numbers)"""
    n = strip(n)
    if depth > 3:
        return ".."
    if n[0] == "proj" and strip(n[1])[0] == "call" and short_callee(strip(n[1])[1]) == "branch" and n[2][:2] == ("@Continue", ".0"):
        # `expr?` : name the payload after the fallible call
        return origin_desc(strip(n[1])[2][0], depth) + "?" + "".join(n[2][2:])
    k = n[0]
    if k == "var" and re.match(r"^_\d+$", n[2]):
        return "tmp"
    if k == "kx":
        d = dict(n[1])
        if d.get("static"):
            return d["static"].split("::")[-1]
        if d.get("fn") or d.get("rfn"):
            return short_callee(d.get("rfn") or d.get("fn"))
        return "const"
    ln = leaf_name(n)
    if ln is not None:
        return re.sub(r"\[_\d+\]", "[i]", re.sub(r"(^|\.)_\d+\b", r"\1tmp", ln))
    if k == "call":
        nm = short_callee(n[1])
        # keep self type for workspace methods
        full = n[1]
        m = re.search(r"([A-Za-z_][A-Za-z0-9_]*)(?:::<[^>]*>)?::%s$" % re.escape(nm), full)
        owner = m.group(1) if m and m.group(1) not in ("Option", "Result", "Iterator", "Vec", "T", "impl", "std", "core") else None
        args = n[2][:2]
        inner = ",".join(origin_desc(a, depth + 1) for a in args)
        return "%s%s(%s)" % (owner + "::" if owner else "", nm, inner)
    if k == "k":
        return n[1]
    if k == "s":
        return '"%s"' % n[1][:30]
    if k == "bin":
        return "%s(%s,%s)" % (n[1], origin_desc(n[2], depth + 1), origin_desc(n[3], depth + 1))
    if k == "proj":
        return origin_desc(n[1], depth + 1) + "".join(n[2])
    if k == "agg":
        if n[1].startswith("closure:"):
            return "{closure}"
        return n[1].split("::")[-1] + "{..}"
    if k == "cast":
        return origin_desc(n[1], depth + 1)
    if k == "un":
        return "%s(%s)" % (n[1], origin_desc(n[2], depth + 1))
    if k == "discr":
        return "discr(%s)" % origin_desc(n[1], depth + 1)
    return k


