"""Thorough-tier extras: coverage count of all targets, seeded-variant self-test of a property's rules."""
import glob
import json
import os
import shutil
import subprocess
import sys
import tempfile
import time
from concurrent.futures import ThreadPoolExecutor

from . import facts
from .facts import VERIF, AnalysisError


def header_of(diff):
    """`# property=C08,C09 expect=silent what=...` -> dict"""
    try:
        first = open(diff).readline()
    except OSError:
        return {}
    if not first.startswith("#"):
        return {}
    out = {}
    head, _, what = first[1:].partition("what=")
    for tok in head.split():
        if "=" in tok:
            k, v = tok.split("=", 1)
            out[k] = v
    out["what"] = what.strip()
    return out


def variant_files(prop):
    out = sorted(glob.glob(os.path.join(VERIF, "mutants", prop.lower(), "*.diff")))
    # behaviour-preserving refactors this property's check must stay silent on
    for f in sorted(glob.glob(os.path.join(VERIF, "mutants", "neutral", "*.diff"))):
        if prop in header_of(f).get("property", "").split(","):
            out.append(f)
    for meta in sorted(glob.glob(os.path.join(VERIF, "seeded", "*", "meta.json"))):
        try:
            m = json.load(open(meta))
        except ValueError:
            continue
        if prop in (m.get("property"), *m.get("also_properties", [])):
            p = os.path.join(os.path.dirname(meta), "patch.diff")
            if os.path.exists(p):
                out.append(p)
    return out


def run_variant(prop, diff, worker, repo="/repo"):
    """apply diff to a scratch copy of the current tree, run the property's quick check on it"""
    scratch = tempfile.mkdtemp(prefix="cte-selftest-")
    dst = os.path.join(scratch, "repo")
    t0 = time.time()
    try:
        subprocess.check_call(["rsync", "-a", "--exclude", "target", "--exclude", ".git", repo + "/", dst + "/"])
        subprocess.check_call(["git", "init", "-q"], cwd=dst)
        r = subprocess.run(["git", "apply", "--whitespace=nowarn", diff], cwd=dst, capture_output=True, text=True)
        if r.returncode != 0:
            return {"variant": os.path.relpath(diff, VERIF), "result": "skipped", "why": "patch does not apply to the current tree"}
        env = dict(os.environ)
        env["CTE_TARGET_DIR"] = os.path.join(facts.CACHE, "target-scratch-%d" % worker)
        r = subprocess.run([os.path.join(VERIF, "bin", "check"), prop, "--repo", dst, "--no-evidence", "--no-fixture"], capture_output=True, text=True, cwd=VERIF, env=env)
        keys = [l.split("key=", 1)[1].strip() for l in r.stdout.splitlines() if l.strip().startswith("rule=") and "key=" in l]
        res = {0: "blind", 1: "fired", 2: "error"}.get(r.returncode, "error")
        if header_of(diff).get("expect") == "silent":
            res = {0: "silent", 1: "false-alarm", 2: "undecided"}.get(r.returncode, "error")
        out = {"variant": os.path.relpath(diff, VERIF), "result": res, "keys": keys[:6], "s": round(time.time() - t0, 1)}
        if res in ("error", "undecided"):
            out["why"] = (r.stdout.strip().splitlines() or ["?"])[-1][:300]
        return out
    finally:
        shutil.rmtree(scratch, ignore_errors=True)


def run_variants(prop, files, workers=8, repo="/repo"):
    if not files:
        return []
    workers = max(1, min(workers, len(files)))
    res = []
    with ThreadPoolExecutor(max_workers=workers) as ex:
        futs = []
        for i, f in enumerate(files):
            futs.append(ex.submit(run_variant, prop, f, i % workers, repo))
        for fu in futs:
            res.append(fu.result())
    return res


def thorough_extras(mod, ctx, repo):
    out = {}
    # coverage count of every target the build has (tests, benches, examples): parsed, type-checked and counted
    t0 = time.time()
    fdir, th = facts.ensure_facts(repo, all_targets=True)
    meta = json.load(open(os.path.join(fdir, "META.json")))
    nf = 0
    for f in os.listdir(fdir):
        if f.endswith(".json") and f != "META.json":
            pass
    raws = facts.load_raw(fdir)
    out["all_targets"] = {"targets": meta.get("targets"), "functions_incl_tests": sum(len(r["fns"]) for r in raws), "extract_s": meta.get("extract_s")}
    # seeded-variant self-test
    files = variant_files(ctx.prop)
    seed = ctx.seed
    if seed:
        import random
        random.Random(seed).shuffle(files)
    res = run_variants(ctx.prop, files, workers=int(os.environ.get("CTE_WORKERS", "8")), repo=repo or "/repo")
    summ = {"fired": 0, "blind": 0, "skipped": 0, "error": 0, "silent": 0, "false-alarm": 0, "undecided": 0}
    for r in res:
        summ[r["result"]] += 1
    out["variants"] = {"summary": summ, "results": res, "wall_s": round(time.time() - t0, 1)}
    for r in res:
        if r["result"] == "blind":
            print("SELFTEST-BLIND property=%s variant=%s (reported; does not change the verdict on /repo)" % (ctx.prop, r["variant"]))
        if r["result"] == "false-alarm":
            print("SELFTEST-FALSE-ALARM property=%s variant=%s keys=%s (reported; does not change the verdict on /repo)" % (ctx.prop, r["variant"], r.get("keys")))
    return out
