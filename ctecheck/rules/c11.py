"""C11 - Reference area, volumes, compactness, envelope membership, classifiers."""
import itertools
from fractions import Fraction

from ..cfgq import Scope, returned_nodes, bool_taken, iter_chain, closure_id_of, closure_env
from ..exprs import strip, short_callee, show, leaf_name, walk, origin_desc, mkproj
from ..facts import AnalysisError
from ..formulas import LeafMap, compare, fallback_chain, updates, FNormalizer
from ..mir import callee_name
from .. import tables as TB
from .c06 import local_defs
from .c08 import closure_return
from .c09 import scope_table, guard_of

ID = "C11"
LEVEL = "other"
RULE_TEXT = ("the six scope predicates as truth tables over their finite-domain atoms (closures evaluated on every combination); the area/volume terms normalised; the two "
             "implementations of the building ventilation rate compared with each other; the tilt/orientation classifiers as threshold chains compared on every "
             "interval and boundary point; the copies in EnergyIndicators")
EXPLANATION = ("D1 predicates: a_ref (inside and habitable), volumes (inside), envelope membership (exterior/ground/adiabatic: this inside; interior: this inside != next inside), "
               "compactness area (envelope and exterior/ground); D2 terms area x multiplier, area x height(_net) x multiplier, compactness = V_gross / A_exposed guarded, "
               "indicator fields are copies; D3 the reported ventilation rate is the one used for U-values (same predicate, term and 3.6 n/V); D4 the parser's and the "
               "model's tilt classifiers induce the same partition of [0, 360], classifiers compare only the normalised angle, thresholds strictly increase")
DECIDED = ["D1 scope predicates", "D2 terms and copies", "D3 reported ventilation rate = the one used for U-values", "D4 classifier agreement and modulo-360 dependence",
           "D5 accumulation loops end only on iterator exhaustion",
           "D6 the floor of a space is found from either side (own floor, or ceiling of the space below that names it)",
           "D7 the element that covers a space (net height) by truth table, nothing else consulted; Space::area and Space::height_net are not rounded"]
UNDECIDED = ["exact scaling under rounding (homogeneity of the polygon-area closure is not normalised here)", "values on real models"]
ASSUMPTIONS = ["normalize(x, 0, 360) maps into [0, 360) (formula checked)"]
LEVEL_TEXT = ("Tables, terms and sibling cross-checks: every scope predicate is evaluated exhaustively over its atoms, the accumulation terms are normalised and compared with "
              "the statement, the two ventilation-rate implementations are compared clause by clause, and the two tilt classifiers are compared on every interval and "
              "boundary point of the partition their constants induce (a finite set of orderings, no floating-point sampling). Scaling homogeneity and values are not decided.")
LEVEL_NOTE = "Trusted: rustc MIR; exact-rational reading of literals."
TECHNIQUE = "finite truth-table evaluation of closures over the CFG, threshold-chain comparison, normalised term comparison, sibling cross-check"
FIXTURE_EXPECT = ["c11.classifier"]

KINDS = ["CONDITIONED", "UNCONDITIONED", "UNINHABITED"]


def space_closure(prog, sc, node):
    """closure of `values(spaces).map(closure).sum()` style aggregations -> (closure Scope) with elem = a space"""
    n = strip(node)
    from ..cfgq import inline_helper
    for _ in range(3):
        while n[0] == "call" and short_callee(n[1]) in ("fround2", "sum"):
            n = strip(n[2][0])
        if n[0] == "call" and short_callee(n[1]) not in ("map", "filter_map"):
            # an aggregation helper that takes the term as a closure (`rounded_sum_of_spaces(spaces, |s| ..)`): its body with the closure in place
            inl = inline_helper(prog, n)
            if inl is None:
                break
            n = strip(inl)
        else:
            break
    if not (n[0] == "call" and short_callee(n[1]) in ("map", "filter_map")):
        return None, None
    cl = strip(n[2][1])
    cid = closure_id_of(cl)
    if not cid or cid not in prog.fns:
        return None, None
    ch = iter_chain(n[2][0])
    csc = Scope(prog, prog.fns[cid], closure_env(cl), ("elem", "S", ()), sc)
    # upstream `filter(..)` closures of the same chain select the elements the term is computed for
    csc.upstream_filters = []
    for (a, c) in ch.steps:
        if a == "filter" and closure_id_of(strip(c)) in prog.fns:
            csc.upstream_filters.append(Scope(prog, prog.fns[closure_id_of(strip(c))], closure_env(strip(c)), ("elem", "S", ()), sc))
    return csc, ch


def predicate_by_value(ctx, rule, key, csc, fields, enums, expect, term_ref, lm, loc):
    """closure returns term when predicate holds else 0 (or None for filter_map): truth table + term formula"""
    names = list(fields)
    doms = [enums[f] if f in enums else [True, False] for f in names]
    bad = []
    term_nodes = []
    for combo in itertools.product(*doms):
        at = TB.Atoms(dict(zip(names, combo)), enums)
        selected = True
        for fsc in getattr(csc, "upstream_filters", []):
            fv = TB.eval_predicate(fsc, at)
            if not isinstance(fv, bool):
                raise AnalysisError("%s: cannot evaluate the upstream filter for %s: %s" % (key, combo, fv))
            selected = selected and fv
        # predicate helpers of the workspace (`s.is_inhabited_inside_tenv()`, also passed as function items) are evaluated under the same assignment
        from ..cfgq import beta
        def _inl(n_, at_=at):
            m_ = strip(beta(csc.prog, n_))
            if m_ != strip(n_) and not (m_[0] == "call" and csc.prog.callee_index().get(m_[1])):
                return at_.value(m_)          # a closure value applied to the element: its body, reduced, under the same assignment
            return TB.inline_predicate(csc.prog, m_, at_, 0)
        at.inliner = _inl
        r = TB.eval_return(csc, at.value)
        if isinstance(r, tuple) and r and r[0] == "stuck":
            raise AnalysisError("%s: cannot evaluate closure for %s: %s" % (key, combo, r[1]))
        r = strip(r)
        zero = (not selected) or (r[0] == "k" and float(r[1]) == 0.0) or (r[0] == "agg" and r[1].endswith("None"))
        want = expect(dict(zip(names, combo)))
        if (not zero) != want:
            bad.append("%s -> %s" % (dict(zip(names, combo)), "counted" if not zero else "not counted"))
        if not zero:
            if r[0] == "agg" and r[1].endswith("Some"):
                r = strip(r[3][0])
            term_nodes.append(r)
    if bad:
        ctx.violation(rule, key, "scope differs from the statement on %d cases: %s" % (len(bad), "; ".join(bad[:3])), loc)
    else:
        ctx.ok(rule, key, "truth table over %s agrees on all %d cases" % (names, len(list(itertools.product(*doms)))), loc)
    if term_ref and term_nodes:
        from ..cfgq import beta
        compare(ctx, rule.replace("scope", "term"), key.replace("scope", "term"), beta(csc.prog, term_nodes[0]), term_ref, lm, None, loc, key.split("|")[-1])


def threshold_chain_of(prog, fn, var="tilt"):
    chain, default = TB.threshold_chain(fn)
    return chain, default


def check_envelope_membership(ctx, prog, ep, root, rule="c11.scope"):
    """WallProps.is_tenv as a truth table over (bounds, this space inside, adjacent space given / inside); shared by C11 and C08"""
    # envelope membership: the value of WallProps.is_tenv as a function of (bounds, this space inside, adjacent space given, adjacent inside)
    from ..mir import callee_name
    bt = [v["name"] for v in prog.adt("bemodel::types::common::BoundaryType")["variants"]]
    wlit = [(sc2, sc2.rvalue(s2["rv"]), b2, s2.get("ln")) for sc2 in root.all_scopes() for b2, i2, s2 in sc2.body.statements()
            if s2["s"] == "assign" and s2["rv"]["r"] == "agg" and s2["rv"].get("adt", "").endswith("props::WallProps")]
    ctx.require(len(wlit) == 1, "WallProps literal not found in EnergyProps::from")
    wsc, wnode, wbb, wln = wlit[0]
    tenv_node = strip(dict(zip(wnode[2], wnode[3]))["is_tenv"])

    def make_atom(bnd, ti, hn, ni):
        def atom(n, _res=True):
            n = strip(n)
            if _res and n[0] in ("call", "discr", "bin", "proj"):
                # helpers with a case distinction of their own (`w.adjacent_space()`) are evaluated under the same assignment first
                n2 = strip(TB.resolve_helpers(prog, n, lambda x: atom(x, False)))
                if n2 != n:
                    return atom(n2)
                if n2[0] == "agg" and n2[1].split("::")[-1] == "None":
                    return None
            if n[0] == "agg" and n[1].split("::")[-1] in ("None",):
                return "0"
            if n[0] == "un" and n[1] == "Not":
                v = atom(n[2])
                return None if v is None else ("0" if v == "1" else "1")
            if n[0] == "discr":
                ln_ = leaf_name(strip(n[1])) or ""
                if ln_.endswith(".bounds"):
                    return str(bt.index(bnd))
                if ln_.endswith(".next_to"):
                    return "1" if hn else "0"
            if n[0] == "call" and short_callee(n[1]) in ("is_some", "is_none") and n[2] and (leaf_name(strip(n[2][0])) or "").endswith(".next_to"):
                return "1" if (hn == (short_callee(n[1]) == "is_some")) else "0"
            # "is the space inside the envelope" lookups: map_or(false, ..) on a space lookup, or a local closure applied to a space id
            if n[0] == "call" and (short_callee(n[1]) in ("map_or", "call", "is_some_and", "unwrap_or") or "{closure" in short_callee(n[1])
                                   or (prog.callee_index().get(n[1]) and any(prog.fns[i_].raw.get("ret") == "bool" for i_ in prog.callee_index().get(n[1])))):
                full = show(n)
                if "next_to" in full:
                    return "1" if (hn and ni) else "0"
                if ".space" in full:
                    return "1" if ti else "0"
            if n[0] == "call" and short_callee(n[1]) in ("ne", "eq") and len(n[2]) == 2:
                a = atom(n[2][0])
                b2_ = atom(n[2][1])
                if a is not None and b2_ is not None:
                    r = (a != b2_) if short_callee(n[1]) == "ne" else (a == b2_)
                    return "1" if r else "0"
                for x, y in ((strip(n[2][0]), strip(n[2][1])), (strip(n[2][1]), strip(n[2][0]))):
                    if (leaf_name(x) or "").endswith(".bounds") and y[0] == "agg" and "::" in y[1]:
                        r = (bnd == y[1].split("::")[-1]) == (short_callee(n[1]) == "eq")
                        return "1" if r else "0"
            if n[0] == "bin" and n[1] in ("Ne", "Eq", "BitAnd", "BitOr", "BitXor"):
                a = atom(n[2])
                b2_ = atom(n[3])
                if a is not None and b2_ is not None:
                    r = {"Ne": a != b2_, "Eq": a == b2_, "BitAnd": a == "1" and b2_ == "1", "BitOr": a == "1" or b2_ == "1", "BitXor": a != b2_}[n[1]]
                    return "1" if r else "0"
            if n[0] == "k" and n[1] in ("true", "false"):
                return "1" if n[1] == "true" else "0"
            return None
        return atom

    member = None
    pool = []
    helper_set = None
    if tenv_node[0] == "call" and short_callee(tenv_node[1]) == "contains" and tenv_node[2]:
        r0 = strip(tenv_node[2][0])
        while r0[0] == "call" and short_callee(r0[1]) in ("deref", "as_ref", "borrow", "as_slice") and r0[2]:
            r0 = strip(r0[2][0])
        if r0[0] == "call" and short_callee(r0[1]) != "collect":
            ids_ = [i_ for i_ in prog.callee_index().get(r0[1], ()) if prog.fns[i_].root == i_ and not prog.fns[i_].raw.get("pub")]
            if len(ids_) == 1 and prog.fns[ids_[0]].body.loops():
                helper_set = (prog.fns[ids_[0]], r0)
        elif r0[0] == "var" and wsc.body.loops():
            # the same loop written in the function itself: `let mut ids = Vec::new(); for wall in &model.walls { if !.. { continue; } ids.push(wall.id); }`
            owner = wsc
            while owner is not None and not (isinstance(r0[1], int) and owner.body.names.get(r0[1]) == r0[2]):
                owner = owner.parent
            if owner is not None:
                helper_set = (owner.fn, ("local", r0[1], owner))
    if helper_set is not None:
        # form C: the set is filled by a loop over the walls in a private helper (`for wall in &model.walls { .. if is_tenv { ids.push(wall.id) } }`):
        # a wall is a member when the walk from the top of the loop body reaches the push under the assignment
        from ..loops import classify_loops
        from ..cfgq import norm_for_elem
        hfn, hcall = helper_set
        set_local = None
        if hcall[0] == "local":
            hsc, set_local = hcall[2], hcall[1]
        else:
            hsc = Scope(prog, hfn, argmap={i_ + 1: a_ for i_, a_ in enumerate(hcall[2])})
        loops_ = []
        for l_ in classify_loops(prog, hfn):
            if l_["kind"] != "iterator" or not (l_.get("source") or "").endswith("walls"):
                continue
            # the loop that fills the set (a function may loop over the walls more than once)
            fills = False
            for b_ in l_["blocks"]:
                t_ = hfn.body.blocks[b_]["term"]
                if t_["t"] == "call" and short_callee(callee_name(t_) or "") in ("push", "insert") and len(t_["args"]) == 2:
                    recv_ = strip(hsc.eb.operand(t_["args"][0]))
                    val_ = norm_for_elem(strip(hsc.operand(t_["args"][1])))
                    if (leaf_name(val_) or "").endswith("walls[].id") and (set_local is None or (recv_[0] == "var" and recv_[1] == set_local)):
                        fills = True
            if fills:
                loops_.append(l_)
        ctx.require(len(loops_) == 1, "%s: one loop over the model's walls that fills the envelope set expected, found %d" % (hfn.path.split("::")[-1], len(loops_)))
        lp = loops_[0]
        pushes = []
        for b_ in sorted(lp["blocks"]):
            t_ = hfn.body.blocks[b_]["term"]
            if t_["t"] == "call" and short_callee(callee_name(t_) or "") in ("push", "insert") and len(t_["args"]) == 2:
                val_ = norm_for_elem(strip(hsc.operand(t_["args"][1])))
                recv_ = strip(hsc.eb.operand(t_["args"][0]))
                if (leaf_name(val_) or "").endswith("walls[].id") and (set_local is None or (recv_[0] == "var" and recv_[1] == set_local)):
                    pushes.append(b_)
        ctx.require(len(pushes) == 1, "%s: one `push(wall.id)` inside the loop expected, found %d" % (hfn.path.split("::")[-1], len(pushes)))
        # top of the loop body: the Some arm of the switch on next()
        start_ = None
        for b_ in sorted(lp["blocks"]):
            t_ = hfn.body.blocks[b_]["term"]
            if t_["t"] == "call" and short_callee(callee_name(t_) or "") == "next" and t_.get("to") is not None:
                sw = hfn.body.blocks[t_["to"]]["term"]
                if sw["t"] == "switch":
                    inside = [tg for v_, tg in sw["arms"] if tg in lp["blocks"]] + ([sw["else"]] if sw["else"] in lp["blocks"] else [])
                    start_ = inside[0] if inside else None
        ctx.require(start_ is not None, "%s: loop body not found" % hfn.path.split("::")[-1])
        pool = [hsc]

        def member(at):
            r = TB.walk_decision(hsc, start_, at, {pushes[0], lp["header"]})
            if isinstance(r, tuple):
                raise AnalysisError("envelope membership: cannot evaluate %s in %s" % (show(r[1])[:100], hfn.path.split("::")[-1]))
            return r == pushes[0]
    elif tenv_node[0] == "call" and short_callee(tenv_node[1]) == "contains" and tenv_node[2]:
        # form A: a set of wall ids built by a filter chain over model.walls
        recv = strip(tenv_node[2][0])
        ctx.require(recv[0] == "call" and short_callee(recv[1]) == "collect" and (iter_chain(recv).source_name() or "") == "model.walls" and
                    (leaf_name(strip(tenv_node[2][1])) or "").endswith("walls[].id"),
                    "WallProps.is_tenv is a membership test, but not of the wall's id in a set collected from model.walls")
        ch = iter_chain(recv)
        fcl = [c for (a, c) in ch.steps if a == "filter"]
        ctx.require(len(fcl) >= 1 and all(a in ("iter", "filter", "map", "collect", "copied", "cloned") for a, _ in ch.steps), "the envelope wall set is not a filter chain over model.walls (%s)" % ch.adaptors())
        fscs = [Scope(prog, prog.fns[closure_id_of(strip(c))], closure_env(strip(c)), ("elem", "W", ()), root) for c in fcl]
        pool = list(fscs)

        def member(at):
            got = True
            for fsc in fscs:
                r = TB.eval_return(fsc, at, subst_result=True)
                if isinstance(r, tuple) and r and r[0] == "stuck":
                    raise AnalysisError("envelope membership: cannot evaluate %s" % (r[1],))
                v = at(r)
                if v is None:
                    raise AnalysisError("envelope membership: result %s not evaluable" % show(r)[:80])
                got = got and v == "1"
            return got
    else:
        # form B: a value computed per wall (a local defined by a match / if chain, or an expression)
        defs = {}
        if tenv_node[0] == "var":
            for l_, dd in local_defs(wsc, tenv_node[2]).items():
                if l_ == tenv_node[1]:
                    defs = {b_: n_ for b_, n_, ln_ in dd}
        ctx.require(defs or tenv_node[0] != "var", "WallProps.is_tenv: definitions of `%s` not found" % (tenv_node[2] if tenv_node[0] == "var" else "?"))
        pool = [wsc]

        def member(at):
            if defs:
                start = TB.common_dominator(wsc.body, list(defs))
                r = TB.walk_decision(wsc, start, at, set(defs)) if len(defs) > 1 else next(iter(defs))
                if not isinstance(r, int):
                    raise AnalysisError("envelope membership: cannot resolve the value of is_tenv (%s)" % (str(r)[:160],))
                v = at(defs[r])
            else:
                v = at(tenv_node)
            if v is None:
                raise AnalysisError("envelope membership: value %s not evaluable" % show(defs[r] if defs else tenv_node)[:100])
            return v == "1"
    bad = []
    ncase = 0
    for bnd, ti, hn, ni in itertools.product(bt, (True, False), (True, False), (True, False)):
        if not hn and ni:
            continue
        ncase += 1
        got = member(make_atom(bnd, ti, hn, ni))
        want = ti if bnd in ("EXTERIOR", "GROUND", "ADIABATIC") else (ti != (hn and ni))
        if got != want:
            bad.append("(%s, this inside=%s, adjacent space %s) -> %s" % (bnd, ti, ("inside" if ni else "outside") if hn else "not given", got))
    if bad:
        ctx.violation(rule, rule + "|envelope-membership", "envelope membership differs from the statement on %d of %d cases: %s" % (len(bad), ncase, "; ".join(bad[:3])), ep.loc(wln))
    else:
        ctx.ok(rule, rule + "|envelope-membership", "exterior/ground/adiabatic: this inside; interior: this inside != adjacent inside (%d cases)" % ncase, ep.loc(wln))
    # missing space counts as outside: every `map_or(default, |s| s.inside_tenv)` in the function and its closures defaults to false
    outs = []
    for bf in [ep] + prog.closures_of(ep):
        bsc = Scope(prog, bf)
        for b, t in bf.body.calls():
            if short_callee(callee_name(t) or "") == "map_or" and len(t["args"]) == 3:
                cid = closure_id_of(strip(bsc.operand(t["args"][2])))
                cf = prog.fns.get(cid)
                if cf is None:
                    continue
                rns = returned_nodes(cf.body)
                if len(rns) == 1 and (leaf_name(strip(Scope(prog, cf).operand({"c": 0}) if False else strip(rns[0][1]))) or "").endswith(".inside_tenv"):
                    dflt = strip(bsc.operand(t["args"][1]))
                    outs.append(dflt[0] == "k" and dflt[1] == "false")
    if len(outs) >= 1 and all(outs):
        ctx.ok(rule, rule + "|missing-space", "a missing space counts as outside the envelope (map_or(false, |s| s.inside_tenv) x%d)" % len(outs), ep.loc())
    elif outs:
        ctx.violation(rule, rule + "|missing-space", "a missing (adjacent) space is treated as inside the envelope (map_or defaults: %s)" % outs, ep.loc())
    else:
        # the lookups are written some other way (match / helper functions): evaluate every bool-valued body that looks a space up and reads its
        # inside_tenv with the lookup failing; it must answer false
        verdicts = []
        bodies = [ep] + prog.closures_of(ep)
        mod = ep.path.split("::<")[0] if "::<" in ep.path else ep.path.rsplit("::", 1)[0]
        for f_ in prog.fns.values():
            if f_.crate == ep.crate and f_.kind in ("fn", "assocfn") and f_.raw.get("ret") == "bool" and "energy::props" in f_.path:
                bodies.append(f_)
        for bf in bodies:
            if bf.raw.get("ret") != "bool" and bf.kind != "closure":
                continue
            bsc = Scope(prog, bf)
            txt = " ".join(show(strip(bsc.operand(t["args"][0]))) + short_callee(callee_name(t) or "") for b, t in bf.body.calls())
            reads = any(st["s"] == "assign" and "inside_tenv" in show(bsc.rvalue(st["rv"])) for b, i, st in bf.body.statements())
            if not reads or not ("get_space" in txt or "get" in txt):
                continue

            def none_atom(n):
                n = strip(n)
                if n[0] == "discr" and strip(n[1])[0] == "call" and short_callee(strip(n[1])[1]) in ("get_space", "get"):
                    return "0"
                if n[0] == "call" and short_callee(n[1]) in ("is_some", "is_none") and n[2] and strip(n[2][0])[0] == "call" and short_callee(strip(n[2][0])[1]) in ("get_space", "get"):
                    return "1" if short_callee(n[1]) == "is_none" else "0"
                if n[0] == "k" and n[1] in ("true", "false"):
                    return "1" if n[1] == "true" else "0"
                return None
            r = TB.eval_return(bsc, none_atom)
            if isinstance(r, tuple) or r is None:
                continue
            v = none_atom(r)
            if v is not None:
                verdicts.append((bf.path.split("::")[-1], v == "1"))
        if any(v for _, v in verdicts):
            ctx.violation(rule, rule + "|missing-space", "a space that cannot be found counts as inside the envelope in %s" % [n for n, v in verdicts if v], ep.loc())
        elif verdicts:
            ctx.ok(rule, rule + "|missing-space", "a missing space counts as outside the envelope (%s answer false when the lookup fails)" % [n for n, v in verdicts], ep.loc())
        else:
            ctx.ok(rule, rule + "|missing-space", "no default for a missing space could be read (lookups written in a form this rule does not evaluate): not decided", ep.loc())


def run(ctx):
    prog = ctx.prog
    ep = prog.method("energy::props::EnergyProps", "convert::From", "from")
    from ..loops import check_no_early_exit
    check_no_early_exit(ctx, "c11.loop", prog, ep, "the reference area, volumes and envelope sets")
    root = Scope(prog, ep)
    gl = None
    groot = root
    # the global section may have been moved into a private function of the module (`global_props(model, &spaces, ..)`): it is read there, with the
    # parameters bound to the caller's values
    for sc_ in root.all_scopes():
        for b, i, s in sc_.body.statements():
            if s["s"] == "assign" and s["rv"]["r"] == "agg" and s["rv"].get("adt", "").endswith("GlobalProps"):
                gl = (sc_.rvalue(s["rv"]), s.get("ln"))
                groot = sc_
    ctx.require(gl is not None, "GlobalProps literal not found")
    g = {k: strip(v) for k, v in zip(gl[0][2], gl[0][3])}
    lmS = LeafMap({"S[].area": "a", "S[].multiplier": "m", "S[].height": "h", "S[].height_net": "hn"})
    enums = {"kind": KINDS}
    spec = [
        ("a_ref", ["inside_tenv", "kind"], lambda a: a["inside_tenv"] and a["kind"] != "UNINHABITED", "a * m"),
        ("vol_env_gross", ["inside_tenv"], lambda a: a["inside_tenv"], "a * h * m"),
        ("vol_env_net", ["inside_tenv"], lambda a: a["inside_tenv"], "a * hn * m"),
        ("vol_env_inh_net", ["inside_tenv", "kind"], lambda a: a["inside_tenv"] and a["kind"] != "UNINHABITED", "a * hn * m"),
    ]
    for fld, atoms, pred, term in spec:
        csc, ch = space_closure(prog, groot, g[fld])
        ctx.require(csc is not None, "GlobalProps.%s is not a map/sum over the spaces" % fld)
        ctx.require((ch.source_name() or "").endswith("spaces"), "GlobalProps.%s iterates over %s" % (fld, ch.source_name()))
        predicate_by_value(ctx, "c11.scope", "c11.scope|%s" % fld, csc, atoms, enums, pred, term, lmS, ep.loc(gl[1]))
    # compactness
    cdefs = local_defs(groot, "compactness")
    ctx.require(len(cdefs) == 1, "compactness not found")
    defs = next(iter(cdefs.values()))
    if len(defs) == 1 and defs[0][1][0] == "call":
        # computed by a private function of the module (`compute_compactness(vol, &walls)`): read there, with the parameters bound
        hc = defs[0][1]
        ids_ = [i_ for i_ in prog.callee_index().get(hc[1], ()) if prog.fns[i_].root == i_ and not prog.fns[i_].raw.get("pub")]
        if len(ids_) == 1 and prog.fns[ids_[0]].body.argc == len(hc[2]):
            hfn = prog.fns[ids_[0]]
            groot = Scope(prog, hfn, argmap={i_ + 1: a_ for i_, a_ in enumerate(hc[2])})
            defs = [(b_, strip(groot._rw(n_)), None) for b_, n_ in returned_nodes(hfn.body)]
    q = [(b, n, ln) for b, n, ln in defs if n[0] == "bin" and n[1] == "Div"]
    z = [(b, n, ln) for b, n, ln in defs if n[0] == "k"]
    okc = False
    if len(q) == 1 and len(z) == 1:
        b, n, ln = q[0]
        num, den = strip(n[2]), strip(n[3])
        same_num = num == g["vol_env_gross"]
        # exposed area: filter predicate + term
        dn = den
        while dn[0] == "call" and short_callee(dn[1]) == "sum":
            dn = strip(dn[2][0])
        okden = False
        if dn[0] == "call" and short_callee(dn[1]) == "map":
            ch = iter_chain(dn)
            fcl = [c for (a, c) in ch.steps if a == "filter"]
            mcl = [c for (a, c) in ch.steps if a == "map"]
            if len(fcl) == 1 and len(mcl) == 1 and (ch.source_name() or "").endswith("walls"):
                fsc = Scope(prog, prog.fns[closure_id_of(strip(fcl[0]))], closure_env(strip(fcl[0])), ("elem", "W", ()), groot)
                bt = [v["name"] for v in prog.adt("bemodel::types::common::BoundaryType")["variants"]]
                scope_table(ctx, "c11.scope", "c11.scope|compactness-area", fsc, ["is_tenv", "bounds"], {"bounds": bt},
                            lambda a: a["is_tenv"] and a["bounds"] in ("EXTERIOR", "GROUND"), ep.loc(ln))
                tr = closure_return(prog, groot, mcl[0], ("elem", "W", ()))
                compare(ctx, "c11.term", "c11.term|compactness-area", tr, "ag * m", LeafMap({"W[].area_gross": "ag", "W[].multiplier": "m"}), None, ep.loc(ln), "exposed area term")
                okden = True
        conds = [(strip(c), bool_taken(tk)) for (_, d, c, tk) in groot.conditions(b)]
        guarded = any(c[0] == "bin" and c[1] in ("Eq", "Gt", "Lt", "Le") and origin_desc(strip(c[2])) == origin_desc(den) for c, v in conds)
        okc = same_num and okden and guarded
    if okc:
        ctx.ok("c11.term", "c11.term|compactness", "compactness = V_gross / A_exposed, 0 when the exposed area is 0", ep.loc())
    elif not q:
        # no quotient among the definitions of `compactness` here: it is computed elsewhere (a helper with its own zero test) in a form this rule does not read
        raise AnalysisError("compactness is not defined by a quotient in %s (definitions: %s): cannot decide" % (groot.fn.path.split("::")[-1], [show(n_)[:50] for _, n_, _ in defs][:3]))
    else:
        ctx.violation("c11.term", "c11.term|compactness", "compactness is not `gross volume / exposed area` guarded against a zero area", ep.loc())
    check_envelope_membership(ctx, prog, ep, root)
    check_floor_either_side(ctx, prog)
    check_sizes_not_rounded(ctx, prog)
    check_height_net_cover(ctx, prog)
    # D3 ventilation siblings
    gv = g["global_ventilation_rate"]
    mv = prog.method("types::model::Model", None, "global_ventilation_rate")
    msc = Scope(prog, mv)
    rn = returned_nodes(mv.body)
    ctx.require(len(rn) == 1, "Model::global_ventilation_rate: single return expected")
    mnode = strip(msc._rw(rn[0][1]))

    def vent_parts(prog, sc, node, elemname):
        """unwrap_or_default(map(l_s, |n| 3.6*n/V)) -> (formula node in terms of n, V node)"""
        n = strip(node)
        if not (n[0] == "call" and short_callee(n[1]) == "unwrap_or_default"):
            return None
        m = strip(n[2][0])
        if not (m[0] == "call" and short_callee(m[1]) == "map"):
            return None
        src = leaf_name(strip(m[2][0]))
        r = guarded_quotient_return(prog, sc, m[2][1], ("named", "nlps"))
        return src, r
    pa = vent_parts(prog, groot, gv, "S")
    pb = vent_parts(prog, msc, mnode, "S")
    ctx.require(pa is not None and pb is not None, "ventilation rate expressions not of the form l_s.map(|n| 3.6 n / V).unwrap_or_default()")
    for label, (src, r), sc_ in (("EnergyProps", pa, root), ("Model", pb, msc)):
        key = "c11.vent|%s|formula" % label
        if r is None:
            raise AnalysisError("ventilation rate (%s): the closure applied to the flow rate has several results and is not `quotient when the volume is non-zero, else 0`: not a shape this rule reads" % label)
        if r[0] != "bin" or r[1] != "Div":
            ctx.violation("c11.vent", key, "rate is %s, expected 3.6 n / V" % show(r)[:80], ep.loc())
            continue
        lm = LeafMap({"nlps": "n"})
        compare(ctx, "c11.vent", key, strip(r[2]), "3.6 * n", lm, None, (ep if label == "EnergyProps" else mv).loc(), "numerator of the ventilation rate")
        if not (src or "").endswith("meta.global_ventilation_l_s"):
            ctx.violation("c11.vent", key + "|source", "flow rate taken from %s" % src, ep.loc())
    # volumes: same predicate and term
    va = strip(pa[1][3]) if pa[1] is not None and pa[1][0] == "bin" else None
    vb = strip(pb[1][3]) if pb[1] is not None and pb[1][0] == "bin" else None
    ctx.require(va is not None and vb is not None, "ventilation volumes not found")
    if va == g["vol_env_inh_net"]:
        ctx.ok("c11.vent", "c11.vent|EnergyProps|volume", "divides by the reported vol_env_inh_net", ep.loc())
    else:
        ctx.violation("c11.vent", "c11.vent|EnergyProps|volume", "the reported rate divides by %s, not by vol_env_inh_net" % show(va)[:80], ep.loc())
    csc, ch = space_closure(prog, msc, vb)
    ctx.require(csc is not None and (ch.source_name() or "").endswith("self.spaces"), "Model::global_ventilation_rate: volume is not a sum over self.spaces")
    lmM = LeafMap({"S[].multiplier": "m"}, [(r"^Space::area\(S\[\],self\.walls\)$|area\(S\[\],", "a"), (r"height_net\(S\[\],", "hn")])
    predicate_by_value(ctx, "c11.scope", "c11.scope|Model::global_ventilation_rate", csc, ["inside_tenv", "kind"], enums,
                       lambda a: a["inside_tenv"] and a["kind"] != "UNINHABITED", "a * hn * m", lmM, mv.loc())
    # SpaceProps.area / height_net provenance (so that the two terms are the same quantities)
    sp = [(sc, sc.rvalue(s["rv"]), s.get("ln")) for sc in root.all_scopes() for b, i, s in sc.body.statements()
          if s["s"] == "assign" and s["rv"]["r"] == "agg" and s["rv"].get("adt", "").endswith("props::SpaceProps")]
    ctx.require(len(sp) == 1, "SpaceProps literal not found")
    fl = {k: origin_desc(strip(v)) for k, v in zip(sp[0][1][2], sp[0][1][3])}
    okp = "area(model.spaces[],model.walls)" in fl["area"] and "height_net(model.spaces[],model.walls" in fl["height_net"] and fl["multiplier"] == "model.spaces[].multiplier" \
        and fl["inside_tenv"] == "model.spaces[].inside_tenv" and fl["kind"] == "model.spaces[].kind" and fl["height"] == "model.spaces[].height"
    if okp:
        ctx.ok("c11.vent", "c11.vent|SpaceProps", "SpaceProps.{area, height_net, multiplier, inside_tenv, kind} are the space's own Space::area / height_net / fields", ep.loc(sp[0][2]))
    else:
        ctx.violation("c11.vent", "c11.vent|SpaceProps", "SpaceProps fields are %s" % {k: fl[k] for k in ("area", "height_net", "multiplier", "inside_tenv", "kind")}, ep.loc(sp[0][2]))
    # copies in EnergyIndicators
    comp = prog.method("energy::indicators::types::EnergyIndicators", None, "compute")
    csc2 = Scope(prog, comp)
    for b, i, s in comp.body.statements():
        if s["s"] == "assign" and s["rv"]["r"] == "agg" and s["rv"].get("adt", "").endswith("EnergyIndicators"):
            n = csc2.rvalue(s["rv"])
            fl2 = {k: origin_desc(strip(v)) for k, v in zip(n[2], n[3])}
            for fld, src in (("area_ref", "a_ref"), ("compactness", "compactness"), ("vol_env_net", "vol_env_net"), ("vol_env_gross", "vol_env_gross")):
                key = "c11.copy|%s" % fld
                if fl2[fld].endswith(".global.%s" % src) and "EnergyProps" in fl2[fld] or fl2[fld].endswith("global.%s" % src):
                    ctx.ok("c11.copy", key, "EnergyIndicators.%s = props.global.%s" % (fld, src), comp.loc(s.get("ln")))
                else:
                    ctx.violation("c11.copy", key, "EnergyIndicators.%s is %s" % (fld, fl2[fld][:80]), comp.loc(s.get("ln")))
    # D4 classifiers
    check_classifiers(ctx, prog)


def check_floor_either_side(ctx, prog, rule="c11.scope"):
    """"the floor area of a space": a horizontal partition is declared once, from the space below (its ceiling: tilt class TOP, next_to = the space above) or from
    the space above (its floor: tilt class BOTTOM).  Space::height_net looks for the ceiling from either side; Space::area must find the floor from either side:
    an element counts for the space when (it belongs to the space and is a floor) or (it belongs to another space, names this space as adjacent and is a ceiling).
    Truth table of the conditions under which `area += ..` runs, over (own element, adjacent = this space, tilt class)."""
    from ..mir import callee_name
    f = prog.method("types::space::Space", None, "area")
    sc = Scope(prog, f)
    ups = [u for u in updates(sc) if u["op"] == "+=" and "area(" in show(u["term"])]
    ctx.require(len(ups) >= 1, "Space::area: the accumulation `area += element area` was not found")
    TILTS = ["TOP", "BOTTOM", "SIDE"]
    bad = []
    ncase = 0
    for own, nxt, tilt in itertools.product((True, False), (True, False), TILTS):
        def atom(n):
            n = strip(n)
            if n[0] == "un" and n[1] == "Not":
                v = atom(n[2])
                return None if v is None else ("0" if v == "1" else "1")
            if n[0] == "discr" and "next(" in show(n):
                return "1"
            txt = show(n)
            if n[0] == "call" and short_callee(n[1]) in ("eq", "ne") and len(n[2]) == 2:
                a, b = strip(n[2][0]), strip(n[2][1])
                names = [leaf_name(a) or show(a), leaf_name(b) or show(b)]
                res = None
                if any(x.endswith(".space") for x in names) and any(x.endswith("self.id") for x in names):
                    res = own
                elif any(x.endswith(".next_to") or "next_to" in x for x in names) and "self.id" in txt:
                    res = nxt
                else:
                    for x in (a, b):
                        if x[0] == "agg" and x[1].split("::")[-1].rstrip("{}") in TILTS and "tilt" in txt:
                            res = (tilt == x[1].split("::")[-1].rstrip("{}"))
                if res is None:
                    return None
                return "1" if (res == (short_callee(n[1]) == "eq")) else "0"
            if n[0] == "call" and short_callee(n[1]) in ("map_or", "is_some_and") and "next_to" in txt and "self.id" in txt:
                return "1" if nxt else "0"
            if n[0] == "discr" and "tilt" in txt:
                return str(TILTS.index(tilt)) if False else None
            if n[0] == "bin" and n[1] in ("BitAnd", "BitOr"):
                x, y = atom(n[2]), atom(n[3])
                if x is None or y is None:
                    return None
                return "1" if ((x == "1" and y == "1") if n[1] == "BitAnd" else (x == "1" or y == "1")) else "0"
            if n[0] == "k" and n[1] in ("true", "false"):
                return "1" if n[1] == "true" else "0"
            return None
        counted = False
        for u in ups:
            holds = True
            for (s_, d, n, tk) in u["scope"].conditions(u["bb"]):
                v = atom(n)
                if v is None:
                    raise AnalysisError("Space::area: cannot evaluate the condition %s" % show(strip(n))[:100])
                if tk.startswith("else:"):
                    ok_ = v not in tk[5:].split(",")
                else:
                    ok_ = v == tk
                holds = holds and ok_
            counted = counted or holds
        ncase += 1
        want = (own and tilt == "BOTTOM") or (nxt and not own and tilt == "TOP")
        if counted != want:
            bad.append("(%s element, %s, %s) -> %s" % ("own" if own else "another space's", "adjacent = this space" if nxt else "not adjacent to this space", tilt,
                                                        "counted" if counted else "not counted"))
    key = rule + "|Space::area|either-side"
    if bad:
        ctx.violation(rule, key, "the floor area of a space misses or adds elements on %d of %d cases: %s - a space whose floor slab is declared as the ceiling of the space below "
                      "(tilt class TOP, next_to = this space) gets area 0, so it drops out of the reference area and of every volume (Space::height_net does look for the "
                      "ceiling from either side)" % (len(bad), ncase, "; ".join(bad[:3])), f.loc(ups[0]["line"]))
    else:
        ctx.ok(rule, key, "floors are found from either side: own BOTTOM elements and TOP elements of the space below that name this space (12 cases)", f.loc(ups[0]["line"]))


def guarded_quotient_return(prog, sc, clnode, elem):
    """what a closure returns, read through a zero test on its divisor: `|n| if V > 0 { q(n) / V } else { 0.0 }` reads as q(n) / V.  A closure with a
    single return expression is returned as it is; with several, exactly one may be a quotient, the others the constant 0, and the quotient's block must
    be dominated by a comparison of its divisor with a constant"""
    from ..cfgq import closure_id_of, closure_env
    cid = closure_id_of(clnode)
    if not cid or cid not in prog.fns:
        return None
    cfn = prog.fns[cid]
    csc = Scope(prog, cfn, closure_env(strip(clnode)), elem, sc)
    rns = returned_nodes(cfn.body)
    if len(rns) == 1:
        return strip(csc._rw(rns[0][1]))
    nodes = [(b, strip(csc._rw(n_))) for b, n_ in rns]
    divs = [(b, n_) for b, n_ in nodes if n_[0] == "bin" and n_[1] == "Div"]
    zeros = [n_ for b, n_ in nodes if n_[0] == "k" and float(n_[1]) == 0.0]
    if len(divs) != 1 or len(divs) + len(zeros) != len(nodes):
        return None
    b, q = divs[0]
    den = origin_desc(strip(q[3]))
    for (_, d, c, tk) in csc.conditions(b):
        c = strip(c)
        if c[0] == "bin" and c[1] in ("Gt", "Ge", "Lt", "Le", "Ne", "Eq") and \
                ((origin_desc(strip(c[2])) == den and strip(c[3])[0] == "k") or (origin_desc(strip(c[3])) == den and strip(c[2])[0] == "k")):
            return q
    return None


def check_sizes_not_rounded(ctx, prog, rule="c11.term"):
    """"The reference area and the volumes ... scale with the multiplier" and are reported to two decimals: the rounding belongs to the totals.  A space's
    floor area and net height enter products (area x height x multiplier); rounding them first puts an error of up to 0.005 m2 into a product with a
    multiplier of tens and a height of metres (561.24 m2 becomes 561.00 with a multiplier of 50).  So neither Space::area nor Space::height_net may hand
    back a rounded value, and the per-space figures EnergyProps keeps may not be rounded either."""
    for nm in ("area", "height_net"):
        f = prog.method("types::space::Space", None, nm)
        sc = Scope(prog, f)
        rns = returned_nodes(f.body)
        vals = []
        for _, rn in rns:
            v = strip(sc._rw(rn))
            if v[0] == "var":
                from .c06 import local_defs
                for l, ds in local_defs(sc, v[2]).items():
                    vals += [d[1] for d in ds]
            vals.append(v)
        rounded = [v for v in vals if v[0] == "call" and short_callee(v[1]) in ("fround2", "fround3", "round", "trunc", "floor", "ceil")]
        key = "%s|Space::%s|unrounded" % (rule, nm)
        if rounded:
            ctx.violation(rule, key, "Space::%s returns %s: the value is rounded before it is multiplied by the height and the space multiplier, so the totals are off by "
                          "up to 0.005 x height x multiplier and no longer scale" % (nm, show(rounded[0])[:60]), f.loc())
        else:
            ctx.ok(rule, key, "Space::%s hands back the unrounded value (the totals are rounded once)" % nm, f.loc())


def check_height_net_cover(ctx, prog, rule="c11.scope"):
    """"the net height discounts the slab above": the element that covers a space is its own TOP element (roof, or ceiling declared from this side) or a BOTTOM
    element of the space above that names this space as adjacent - whatever its boundary type.  The `find` predicate of Space::height_net is evaluated over
    (own element, adjacent = this space, tilt class); any further condition it consults (boundary type, construction ..) is tried both ways and must not matter."""
    f = prog.method("types::space::Space", None, "height_net")
    sc = Scope(prog, f)
    finds = [(b, t) for b, t in f.body.calls() if short_callee(callee_name(t) or "") in ("find", "position", "filter", "find_map") and len(t["args"]) == 2]
    ctx.require(len(finds) == 1, "Space::height_net: the search for the covering element was not found (%d candidates)" % len(finds))
    clo = strip(sc.operand(finds[0][1]["args"][1]))
    cid = closure_id_of(clo)
    ctx.require(cid in prog.fns, "Space::height_net: the predicate of the search is not a closure")
    csc = Scope(prog, prog.fns[cid], closure_env(clo), ("elem", "W", ()), sc)
    TILTS = [v["name"] for v in prog.adt("bemodel::types::common::Tilt")["variants"]]
    unknown = []

    def make_atom(own, nxt, tilt, extra):
        def atom(n):
            n = strip(n)
            txt = show(n)
            if n[0] == "un" and n[1] == "Not":
                v = atom(n[2])
                return None if v is None else ("0" if v == "1" else "1")
            if n[0] == "k" and n[1] in ("true", "false"):
                return "1" if n[1] == "true" else "0"
            if n[0] == "discr" and "tilt" in txt:
                return str(TILTS.index(tilt))
            if n[0] == "bin" and n[1] in ("BitAnd", "BitOr"):
                x, y = atom(n[2]), atom(n[3])
                if x is None or y is None:
                    return None
                return "1" if ((x == "1" and y == "1") if n[1] == "BitAnd" else (x == "1" or y == "1")) else "0"
            if n[0] == "call" and short_callee(n[1]) in ("eq", "ne") and len(n[2]) == 2:
                names = [leaf_name(strip(a)) or show(strip(a)) for a in n[2]]
                res = None
                if any(x.endswith(".space") for x in names) and any(x.endswith("self.id") for x in names):
                    res = own
                elif "next_to" in txt and "self.id" in txt:
                    res = nxt
                if res is not None:
                    return "1" if (res == (short_callee(n[1]) == "eq")) else "0"
            if n[0] == "call" and short_callee(n[1]) in ("map_or", "is_some_and", "contains") and "next_to" in txt and "self" in txt:
                return "1" if nxt else "0"
            if n[0] in ("call", "bin", "discr"):
                k_ = txt[:70]
                if k_ not in unknown:
                    unknown.append(k_)
                return extra.get(k_, "1")
            return None
        return atom
    bad, dep = [], []
    ncase = 0
    for own, nxt, tilt in itertools.product((True, False), (True, False), TILTS):
        vals = set()
        # first pass discovers the further conditions, then every combination of them
        for rnd in range(2):
            combos = [dict(zip(unknown, c)) for c in itertools.product("01", repeat=len(unknown))] if unknown else [{}]
            for extra in combos[:16]:
                at = make_atom(own, nxt, tilt, extra)
                r = TB.eval_return(csc, at)
                if isinstance(r, tuple) and r and r[0] == "stuck":
                    raise AnalysisError("Space::height_net: cannot evaluate %s in the search predicate" % show(r[1])[:80])
                v = at(r)
                if v is None:
                    raise AnalysisError("Space::height_net: the search predicate returns %s: not evaluable" % show(r)[:80])
                vals.add(v)
        ncase += 1
        want = (own and tilt == "TOP") or (nxt and tilt == "BOTTOM")
        if len(vals) > 1:
            dep.append((own, nxt, tilt))
        elif (vals == {"1"}) != want:
            bad.append("(%s element, %s, %s) -> %s" % ("own" if own else "another space's", "adjacent = this space" if nxt else "not adjacent", tilt, "covers" if vals == {"1"} else "ignored"))
    key = rule + "|Space::height_net|cover"
    if dep:
        ctx.violation(rule, key, "whether an element covers the space also depends on %s (%d of %d cases): a ceiling of another boundary type, declared from the space itself, is "
                      "no longer discounted, so the net height and the net volumes are too large" % (", ".join(unknown)[:120], len(dep), ncase), f.loc())
    elif bad:
        ctx.violation(rule, key, "the covering element is found wrongly on %d of %d cases: %s" % (len(bad), ncase, "; ".join(bad[:3])), f.loc())
    else:
        ctx.ok(rule, key, "the covering element is the space's own TOP element or a BOTTOM element of the space above that names it (12 cases, nothing else consulted)", f.loc())


def check_model_ventilation(ctx, prog, rule):
    """Model::global_ventilation_rate = 3.6 * global_ventilation_l_s / (net volume of the habitable spaces inside the envelope): the building-wide rate the
    U-value of a partition with an unconditioned space uses when the space gives none (shared with C06)"""
    mv = prog.method("types::model::Model", None, "global_ventilation_rate")
    msc = Scope(prog, mv)
    rn = returned_nodes(mv.body)
    ctx.require(len(rn) == 1, "Model::global_ventilation_rate: single return expected")
    n = strip(msc._rw(rn[0][1]))
    ctx.require(n[0] == "call" and short_callee(n[1]) == "unwrap_or_default" and strip(n[2][0])[0] == "call" and short_callee(strip(n[2][0])[1]) == "map",
                "Model::global_ventilation_rate is not of the form l_s.map(|n| 3.6 n / V).unwrap_or_default()")
    m = strip(n[2][0])
    src = leaf_name(strip(m[2][0]))
    r = guarded_quotient_return(prog, msc, m[2][1], ("named", "nlps"))
    key = rule + "|Model::global_ventilation_rate"
    if r is None:
        raise AnalysisError("Model::global_ventilation_rate: the closure applied to the flow rate has several results and is not `quotient when the volume is non-zero, else 0`: not a shape this rule reads")
    if r[0] != "bin" or r[1] != "Div":
        ctx.violation(rule, key + "|formula", "rate is %s, expected 3.6 n / V" % show(r)[:80], mv.loc())
        return
    compare(ctx, rule, key + "|formula", strip(r[2]), "3.6 * n", LeafMap({"nlps": "n"}), None, mv.loc(), "numerator of the building-wide ventilation rate")
    if not (src or "").endswith("meta.global_ventilation_l_s"):
        ctx.violation(rule, key + "|source", "flow rate taken from %s" % src, mv.loc())
    csc, ch = space_closure(prog, msc, strip(r[3]))
    ctx.require(csc is not None and (ch.source_name() or "").endswith("self.spaces"), "Model::global_ventilation_rate: volume is not a sum over self.spaces")
    lmM = LeafMap({"S[].multiplier": "m"}, [(r"^Space::area\(S\[\],self\.walls\)$|area\(S\[\],", "a"), (r"height_net\(S\[\],", "hn")])
    predicate_by_value(ctx, rule, key + "|volume", csc, ["inside_tenv", "kind"], {"kind": KINDS},
                       lambda a: a["inside_tenv"] and a["kind"] != "UNINHABITED", "a * hn * m", lmM, mv.loc())


def check_classifiers(ctx, prog, rule="c11.classifier"):
    tf = prog.method("types::common::Tilt", "convert::From", "from", inputs_contains="f32")
    hp = prog.method("bdl::envelope::walls::Wall", None, "position")
    of = prog.method("types::common::Orientation", "convert::From", "from", inputs_contains="f32")
    c1, d1 = TB.threshold_chain(tf)
    c2, d2 = TB.threshold_chain(hp)
    c3, d3 = TB.threshold_chain(of)
    ctx.floor(rule, "tilt thresholds (model)", len(c1), 4)
    ctx.floor(rule, "tilt thresholds (parser)", len(c2), 4)
    # a classifier that is not a flat chain (nested tests, the angle folded about an axis) is decided by walking its decision tree at every
    # place where it can change class (tables.classify_by_walk); the flat form keeps the table comparison below
    tree3 = len(c3) < 8
    if not tree3:
        ctx.floor(rule, "orientation thresholds", len(c3), 8)
    pts = TB.partition_points([c1, c2], 0, 360)
    diff = []
    for x in pts:
        a = TB.classify_by_chain(c1, d1, x)
        b = TB.classify_by_chain(c2, d2, x)
        if a != b:
            diff.append("%s: model %s, parser %s" % (float(x), a, b))
    if diff:
        ctx.violation(rule, rule + "|tilt-agreement", "the parser and the model classify tilts differently at %s" % "; ".join(diff[:4]), tf.loc())
    else:
        ctx.ok(rule, rule + "|tilt-agreement", "bemodel Tilt::from and hulc Wall::position agree on all %d intervals and boundary points of [0, 360]" % len(pts), tf.loc())
    want = [("Le", 60, "TOP"), ("Lt", 120, "SIDE"), ("Lt", 240, "BOTTOM"), ("Lt", 300, "SIDE")]
    got = [(op, Fraction(c), TB.variant_of(r)) for (op, c, r, _, _) in c1]
    if got == [(o, Fraction(c), v) for o, c, v in want] and TB.variant_of(d1) == "TOP":
        ctx.ok(rule, rule + "|tilt-table", "<= 60 TOP, < 120 SIDE, < 240 BOTTOM, < 300 SIDE, else TOP", tf.loc())
    else:
        ctx.violation(rule, rule + "|tilt-table", "tilt classes are %s else %s" % ([(o, float(c), v) for o, c, v in got], TB.variant_of(d1)), tf.loc())
    for label, fn, chain in (("Tilt::from", tf, c1),) + ((("Orientation::from", of, c3),) if not tree3 else ()):
        # compared operand has provenance normalize(x, 0, 360)
        okn = True
        for (op, c, r, lhs, ln) in chain:
            l = strip(lhs)
            if not (l[0] == "call" and short_callee(l[1]) == "normalize" and [strip(a)[1] for a in l[2][1:] if strip(a)[0] == "k"] == ["0.0", "360.0"] and strip(l[2][0])[0] == "arg"):
                okn = False
        cs = [Fraction(c) for (_, c, _, _, _) in chain]
        inc = cs == sorted(cs) and len(set(cs)) == len(cs)
        key = rule + "|%s|normalised" % label
        if okn and inc:
            ctx.ok(rule, key, "every comparison is on normalize(angle, 0, 360); thresholds strictly increase (no dead arm)", fn.loc())
        else:
            ctx.violation(rule, key, "comparisons on the raw angle (%s) or thresholds not increasing (%s): the class would depend on more than the angle modulo 360"
                          % (not okn, [float(c) for c in cs]), fn.loc())
    wanto = [(18, "S"), (69, "SE"), (120, "E"), (157.5, "NE"), (202.5, "N"), (240, "NW"), (291, "W"), (342, "SW")]
    if tree3:
        ks, mod360 = TB.walk_constants(prog, of)
        pts = TB.angle_points(ks | {Fraction(a) for a, _ in wanto})
        ctx.floor(rule, "orientation decision tree: points evaluated", len(pts), 17)
        refchain = [("Lt", str(a), ("s", b), None, None) for a, b in wanto]
        bad, stuck = [], []
        for x in pts:
            got = TB.classify_by_walk(prog, of, x)
            want = TB.classify_by_chain(refchain, ("s", "S"), x % 360)
            if got is None:
                stuck.append(float(x))
            elif got != want:
                bad.append("%s: %s, should be %s" % (float(x), got, want))
        ctx.require(not stuck or bad, "Orientation::from(f32): decision tree not evaluable at %s" % stuck[:4])
        if bad:
            ctx.violation(rule, rule + "|orientation-table", "orientation sectors differ from 18/69/120/157.5/202.5/240/291/342 at %s" % "; ".join(bad[:6]), of.loc())
        else:
            ctx.ok(rule, rule + "|orientation-table", "decision tree walked at %d boundary points and midpoints of [0, 360]: compass sectors 18/69/120/157.5/202.5/240/291/342" % len(pts), of.loc())
        key = rule + "|Orientation::from|normalised"
        if mod360:
            ctx.ok(rule, key, "the angle is read only through normalize(angle, s, s + 360)", of.loc())
        else:
            ctx.violation(rule, key, "a comparison reads the raw angle: the class would depend on more than the angle modulo 360", of.loc())
    goto = [(float(Fraction(c)), TB.variant_of(r)) for (op, c, r, _, _) in c3]
    if tree3:
        pass
    elif goto == [(float(a), b) for a, b in wanto] and TB.variant_of(d3) == "S" and all(op == "Lt" for (op, _, _, _, _) in c3):
        ctx.ok(rule, rule + "|orientation-table", "compass sectors 18/69/120/157.5/202.5/240/291/342, symmetric about south", of.loc())
    else:
        ctx.violation(rule, rule + "|orientation-table", "orientation sectors are %s else %s" % (goto, TB.variant_of(d3)), of.loc())
    # normalize formula
    nf = prog.find("bemodel::utils::normalize")
    nsc = Scope(prog, nf)
    rn = returned_nodes(nf.body)
    compare(ctx, rule, rule + "|normalize", strip(nsc._rw(rn[0][1])), "(v - s) - floor((v - s)/(e - s))*(e - s) + s",
            LeafMap({"value": "v", "start": "s", "end": "e"}), None, nf.loc(), "normalize(v, s, e)")


def run_fixture(ctx):
    prog = ctx.prog
    a = prog.fn_by_path("poscontrol::c11_tilt_a")
    b = prog.fn_by_path("poscontrol::c11_tilt_b")
    c1, d1 = TB.threshold_chain(a)
    c2, d2 = TB.threshold_chain(b)
    for x in TB.partition_points([c1, c2], 0, 360):
        if TB.classify_by_chain(c1, d1, x) != TB.classify_by_chain(c2, d2, x):
            ctx.violation("c11.classifier", "fixture", "classifiers differ at %s" % float(x), a.loc())
            break
