"""C03 - Conversion preserves geometry and orientation conventions (partial: provenance conditions plus the geometry formulas of walls and shades)."""
from ..cfgq import Scope, returned_nodes
from ..exprs import strip, short_callee, show, leaf_name, walk, mkproj, Normalizer
from ..facts import AnalysisError
from .c02 import literals, var_values

ID = "C03"
LEVEL = "other"
RULE_TEXT = ("the WinGeom literal of the converter as a field-to-field copy table; the dependence sets (on the building's deviation from north) of position, azimuth, "
             "tilt and polygon of every WallGeom literal built from BDL data; the provenance form of every converted azimuth; the formula of orientation_bdl_to_52016")
EXPLANATION = ("D1 windows keep size, offset and setback (plain copies of the source attributes); D2 rotating the building changes exactly position and azimuth "
               "(both depend on global_deviation_from_north, tilt and polygon extents do not; window-attached shades derive from the rotated wall geometry); "
               "D3 every stored azimuth goes through the single convention conversion orientation_bdl_to_52016 / normalize(., -180, 180), or is a wall azimuth +- const")
DECIDED = ["D1 window geometry is copied field by field", "D2 rotation covariance, necessary part (dependence sets)", "D3 one convention-conversion point for azimuths",
           "D4 wall azimuth / tilt / position / edge polygon and both kinds of shade (rectangle, vertex-defined) as formulas in the BDL quantities, incl. the sign of the building rotation "
           "and the three-vertex threshold (rules/_c03geom.py)", "D5 a storey's data wins over the space's own where the statement says so",
           "D6 the default tilt of an element without TILT (16 cells); the parser's Polygon helpers do not round",
           "D8 a polygon's area is the unsigned shoelace sum (abs on the way to the return), in the parser and in the model",
           "D9 the wall angle the parser hands over is relative to the space (reads neither the space's rotation nor the global deviation): G + As + Aw counts each once"]
UNDECIDED = ["positions, normals, areas within 1 cm as numbers", "outline reproduction of floors/ceilings (polygon of a horizontal element)", "the 2D turn that carries vertex-defined shade corners into their plane"]
ASSUMPTIONS = ["nalgebra point/rotation constructors"]
LEVEL_TEXT = ("Partial: necessary conditions of the geometry property are decided from def-use provenance and normalised formulas of the converter's geometry literals - window "
              "size/offset/setback are untouched copies, the building rotation enters exactly the position and the azimuth of every element, every azimuth is produced by the "
              "single BDL->EN ISO 52016 conversion function whose formula is checked, and the azimuth, tilt, position and polygon expressions of walls and shades equal the "
              "reference expressions of rules/_c03geom.py for all inputs. The numeric statement (1 cm, areas, normals on concrete projects) is NOT decided by this family.")
LEVEL_NOTE = "Trusted: rustc MIR; the field names of the hulc and bemodel geometry types."
TECHNIQUE = "def-use provenance / dependence sets of struct-literal fields + normalised formula comparison"
FIXTURE_EXPECT = ["c03.copy"]

DEV = "global_deviation_from_north"


def depends_on_dev(prog, sc, node, depth=0, seen=None):
    """does the value depend on global_deviation_from_north(bdl)? multi-definition locals are followed through their
    definitions, projection-aware (a field of a tuple-valued local only follows that component)"""
    seen = seen if seen is not None else set()
    node = strip(node)
    k = node[0]
    if k == "call":
        if short_callee(node[1]) == DEV:
            return True
        return any(depends_on_dev(prog, sc, a, depth, seen) for a in node[2])
    if k == "proj" and strip(node[1])[0] == "var":
        base = strip(node[1])
        keyv = (id(sc), base[1], node[2])
        if depth > 8 or keyv in seen:
            return False
        seen.add(keyv)
        for v in var_values(sc, base[1], node[2]):
            if v[0] == "partial":
                rest = [e for e in node[2] if not e.startswith("[")][len(v[1]):]
                vv = mkproj(strip(v[2]), rest)
            elif v[0] == "pushed":
                vv = mkproj(strip(v[1]), [e for e in node[2] if not e.startswith("[")])
            else:
                vv = mkproj(strip(v), node[2])
            if depends_on_dev(prog, sc, vv, depth + 1, seen):
                return True
        return False
    if k == "var":
        keyv = (id(sc), node[1], ())
        if depth > 8 or keyv in seen:
            return False
        seen.add(keyv)
        for v in var_values(sc, node[1]):
            vv = v[2] if v[0] == "partial" else (v[1] if v[0] == "pushed" else v)
            if depends_on_dev(prog, sc, vv, depth + 1, seen):
                return True
        return False
    if k == "proj":
        return depends_on_dev(prog, sc, node[1], depth, seen)
    if k == "bin":
        return depends_on_dev(prog, sc, node[2], depth, seen) or depends_on_dev(prog, sc, node[3], depth, seen)
    if k in ("un",):
        return depends_on_dev(prog, sc, node[2], depth, seen)
    if k in ("cast", "discr"):
        return depends_on_dev(prog, sc, node[1], depth, seen)
    if k == "agg":
        return any(depends_on_dev(prog, sc, a, depth, seen) for a in node[3])
    return False


def check_copy(ctx, lits, rule="c03.copy", tname="WinGeom", table=None, src_prefix="bdl.windows[]"):
    table = table or {"width": ".width", "height": ".height", "setback": ".setback"}
    found = [(sc, n, loc) for (sc, t, n, loc) in lits if t == tname]
    for (sc, n, loc) in found:
        for f, want in sorted(table.items()):
            key = "%s|%s.%s" % (rule, tname, f)
            v = strip(n[3][n[2].index(f)])
            got = leaf_name(v)
            if got == src_prefix + want:
                ctx.ok(rule, key, "%s = %s" % (f, got), loc)
            else:
                ctx.violation(rule, key, "%s.%s is %s, expected an untouched copy of %s%s" % (tname, f, show(v)[:80], src_prefix, want), loc)
        if "position" in n[2]:
            v = strip(n[3][n[2].index("position")])
            comps = None
            for x in walk(v):
                if x[0] == "agg" and x[1] == "array" and len(x[3]) == 2 and all(strip(c)[0] != "agg" for c in x[3]):
                    comps = [leaf_name(strip(c)) for c in x[3]]
            key = "%s|%s.position" % (rule, tname)
            if comps == [src_prefix + ".x", src_prefix + ".y"]:
                ctx.ok(rule, key, "position = (x, y) of the source window", loc)
            else:
                ctx.violation(rule, key, "position components are %s, expected (win.x, win.y)" % comps, loc)
    return len(found)


def check_storey_data(ctx, prog, rule="c03.storey"):
    """FLOOR data merged into its SPACE blocks by the parser: the storey height replaces the space's height unconditionally (walls on an
    outline edge span the storey height), the storey level is added to z, the storey multiplier is copied"""
    from ..cfgq import dominating_conditions
    from ..exprs import ExprBuilder
    from ..mir import pl_local, pl_proj
    found = {"height": [], "z": [], "floor_multiplier": []}
    for f in sorted(prog.fns.values(), key=lambda f: f.id):
        if f.crate != "hulc" or f.raw.get("impl_derived"):
            continue
        body = f.body
        eb = None
        for b, i, st in body.statements():
            if st["s"] != "assign" or isinstance(st["p"], int):
                continue
            pr = [e for e in pl_proj(st["p"]) if e != "*"]
            if len(pr) != 1 or pr[0].lstrip(".") not in found:
                continue
            if "envelope::space::Space" not in body.local_ty(pl_local(st["p"])):
                continue
            eb = eb or ExprBuilder(body)
            val = strip(eb.rvalue(st["rv"]))
            conds = [(strip(n), tk) for (d, n, tk) in dominating_conditions(body, b, eb)]
            found[pr[0].lstrip(".")].append((f, st.get("ln"), val, conds))
    for fld, want in (("height", "height"), ("z", "z"), ("floor_multiplier", "multiplier")):
        key = "%s|%s" % (rule, fld)
        sites = found[fld]
        if len(sites) != 1:
            raise AnalysisError("storey data: expected one assignment of Space.%s from its FLOOR block in the parser, found %d" % (fld, len(sites)))
        f, ln, val, conds = sites[0]
        txt = show(val)
        from_floor = ("floor" in txt.lower()) and txt.endswith("." + want) or (fld == "z" and "floor" in txt.lower() and ".z" in txt)
        # conditions that look at the space itself (its own height / z): the merge must not depend on them
        own = [show(n)[:60] for n, tk in conds if ("." + fld) in show(n) and "floor." not in show(n).lower().replace("floor_multiplier", "")]
        if not from_floor:
            ctx.violation(rule, key, "Space.%s is set to %s, expected the FLOOR block's %s" % (fld, txt[:60], want), f.loc(ln))
        elif own:
            ctx.violation(rule, key, "the storey's %s is merged into the space only when %s: a SPACE block that carries its own value keeps it, so walls placed on an edge "
                          "of the outline no longer span the storey height (and ceilings are no longer at ceiling level)" % (want, " and ".join(own)), f.loc(ln))
        else:
            ctx.ok(rule, key, "Space.%s %s the FLOOR block's %s, unconditionally" % (fld, "accumulates" if fld == "z" else "is", want), f.loc(ln))


def check_polygon_helpers_exact(ctx, prog, rule="c03.exact"):
    """"positions to one centimetre": the helpers of the parser's Polygon (area, perimeter, edge length, the angle of an edge's normal, rotation, mirroring) feed
    the position and azimuth of every wall placed on an edge of its space.  None of them may round: half a degree on the azimuth of a 20 m wall moves its far
    end by 17 cm."""
    from ..mir import callee_name as _cn
    n = 0
    for f in sorted(prog.fns.values(), key=lambda f: f.id):
        if not (f.crate == "hulc" and "bdl::envelope::geom::Polygon" in f.path) or f.raw.get("impl_derived") or "fmt::" in f.path:
            continue
        n += 1
        for b, t in f.body.calls():
            nm = short_callee(_cn(t) or "")
            if nm in ("round", "floor", "ceil", "trunc", "fround2", "fround3", "round_ties_even"):
                ctx.violation(rule, "%s|%s|%s" % (rule, prog.root_of(f).path.split("::")[-1], nm), "%s() in %s: an angle or length of the space outline is rounded before the walls "
                              "on its edges are placed and oriented with it" % (nm, prog.root_of(f).path.split("::")[-1]), f.loc(t.get("ln")))
    ctx.floor(rule, "Polygon helper bodies scanned", n, 8)
    if not any(i.rule == rule and i.verdict == "violation" for i in ctx.instances):
        ctx.ok(rule, rule + "|Polygon", "none of the %d Polygon helper bodies rounds an angle or a length" % n, None)


def check_area_unsigned(ctx, prog, rule="c03.area"):
    """"every area equals the source polygon's area": the shoelace sum is signed (negative for an outline listed clockwise), so what an `area` of a polygon
    returns has to pass through a sign fix.  Decided structurally: the value returned is (a constant multiple of) `abs(..)` -> held; it is the bare sum, or
    a helper's bare sum, with no abs / comparison / negation anywhere between the sum and the return -> violation; any other sign fix -> cannot decide."""
    from ..cfgq import Scope as _Scope
    from ..mir import callee_name as _cn
    cands = [g for g in prog.fns.values() if g.root == g.id and not g.raw.get("impl_derived") and
             ((g.crate == "bemodel" and g.path.endswith("types::geometry::HasSurface>::area") and "OPoint" in g.path and "Vec<" in g.path) or
              (g.crate == "hulc" and "bdl::envelope::geom::Polygon" in g.path and g.path.endswith("::area")))]
    ctx.floor(rule, "polygon area functions", len(cands), 2)
    for f in cands:
        label = "%s|%s" % (f.crate, "Polygon::area")
        key = "%s|unsigned|%s" % (rule, label)
        # everything the function can call inside the workspace, one level of private helpers deep
        bodies = [f] + prog.closures_of(f)
        for g in list(bodies):
            for b, t in g.body.calls():
                ids = prog.callee_index().get(_cn(t) or "", ())
                for i in ids:
                    h = prog.fns.get(i)
                    if h is not None and h.crate == f.crate and h not in bodies and len(bodies) < 12:
                        bodies += [h] + prog.closures_of(h)
        names = set()
        branches = False
        for g in bodies:
            for b, t in g.body.calls():
                names.add(short_callee(_cn(t) or ""))
            for b, i, st in g.body.statements():
                if st["s"] == "assign" and st["rv"]["r"] == "un" and st["rv"].get("op") == "Neg":
                    names.add("neg")
                if st["s"] == "assign" and st["rv"]["r"] == "bin" and st["rv"].get("op") in ("Lt", "Le", "Gt", "Ge"):
                    v = strip(_Scope(prog, g).rvalue(st["rv"]))
                    if any(strip(x)[0] == "k" and "." in str(strip(x)[1]) for x in v[2:4]):
                        branches = True     # a float compared with a float constant: may be a hand-written sign test
        if "abs" in names:
            ctx.ok(rule, key, "the shoelace sum goes through abs() before it is returned", f.loc())
        elif "sum" in names and not ({"neg", "max", "min", "copysign", "signum", "hypot", "sqrt", "norm", "powi"} & names) and not branches:
            ctx.violation(rule, key, "Polygon::area returns the signed shoelace sum (no abs, no sign test, no negation on the way): an outline listed clockwise "
                          "gets a negative area, and with it every area, volume and area-weighted indicator built on it", f.loc())
        else:
            raise AnalysisError("%s: how the sign of the shoelace sum is removed was not recognised" % label)


def run(ctx):
    prog = ctx.prog
    check_storey_data(ctx, prog)
    check_area_unsigned(ctx, prog)
    # the tilt an element gets when the file gives none decides which way its polygon is turned (shared with C18)
    from .c18 import check_default_tilt
    check_default_tilt(ctx, prog, rule="c03.default")
    check_polygon_helpers_exact(ctx, prog)
    from ._c03geom import check_wall, check_shades
    check_wall(ctx, prog)
    check_shades(ctx, prog)
    lits = literals(prog)
    n = check_copy(ctx, lits)
    ctx.floor("c03.copy", "WinGeom literals", n, 1)
    # D2 / D3 on WallGeom literals
    walls = [(sc, nn, loc) for (sc, t, nn, loc) in lits if t == "WallGeom"]
    ctx.floor("c03.rot", "WallGeom literals", len(walls), 5)
    counts = {}
    for (sc, nn, loc) in walls:
        fnname = prog.root_of(sc.fn).path.split("::")[-1]
        idx = counts.get(fnname, 0)
        counts[fnname] = idx + 1
        f = dict(zip(nn[2], [strip(x) for x in nn[3]]))
        tag = "%s#%d" % (fnname, idx)
        # which kind: from BDL data (wall_geometry, shades_from_bdl) or attached to an already converted wall
        attached = any(x[0] == "call" and short_callee(x[1]) == "to_global_coords_matrix" for x in walk(f["position"]))
        if attached:
            # position derives from the wall's global matrix, azimuth from the wall's azimuth +- const
            az = f["azimuth"]
            base = az
            if az[0] == "bin" and az[1] in ("Add", "Sub") and strip(az[3])[0] == "k":
                base = strip(az[2])
            lb = leaf_name(base) or show(base)
            key = "c03.rot|%s|attached" % tag
            if lb.endswith(".geometry.azimuth"):
                ctx.ok("c03.rot", key, "window-attached shade: position = wall matrix * local point, azimuth = wall azimuth %s" % (show(az)[-8:] if az is not base else ""), loc)
            else:
                ctx.violation("c03.rot", key, "azimuth of a window-attached shade is %s, expected the (already rotated) wall azimuth +- const" % show(az)[:80], loc)
            tl = f["tilt"]
            tb = strip(tl[2]) if tl[0] == "bin" else tl
            if not (leaf_name(tb) or show(tb)).endswith(".geometry.tilt"):
                ctx.violation("c03.rot", key + "|tilt", "tilt of a window-attached shade is %s" % show(tl)[:80], loc)
            continue
        deps = {k: depends_on_dev(prog, sc, v) for k, v in f.items()}
        key = "c03.rot|%s" % tag
        probs = []
        if not deps["position"]:
            probs.append("position does not depend on the building's deviation from north")
        if not deps["azimuth"]:
            probs.append("azimuth does not depend on the building's deviation from north")
        if deps["tilt"]:
            probs.append("tilt depends on the deviation from north")
        if deps["polygon"]:
            probs.append("polygon depends on the deviation from north")
        if probs:
            ctx.violation("c03.rot", key, "; ".join(probs) + ": turning the building would not turn this element consistently", loc)
        else:
            ctx.ok("c03.rot", key, "position and azimuth depend on global_deviation_from_north; tilt and polygon do not", loc)
        # D3 azimuth form
        az = f["azimuth"]
        forms = []
        cands = [az]
        if az[0] in ("var", "proj"):
            base = az[1] if az[0] == "proj" else az
            if base[0] == "var":
                cands = []
                for v in var_values(sc, base[1]):
                    vv = v[2] if v[0] == "partial" else v
                    vv = strip(vv)
                    if az[0] == "proj":
                        vv = strip(mkproj(vv, az[2]))
                    cands.append(vv)
        okf = True
        for c in cands:
            c = strip(c)
            inner = c
            if c[0] == "call" and short_callee(c[1]) == "fround2":
                inner = strip(c[2][0])
            if inner[0] == "call" and short_callee(inner[1]) == "orientation_bdl_to_52016":
                forms.append("orientation_bdl_to_52016")
            elif inner[0] == "call" and short_callee(inner[1]) == "normalize_azimuth":
                forms.append("normalize_azimuth")
            elif inner[0] == "call" and short_callee(inner[1]) == "normalize" and [strip(a)[1] for a in inner[2][1:] if strip(a)[0] == "k"] == ["-180.0", "180.0"]:
                forms.append("normalize(.., -180, 180)")
            elif inner[0] in ("var",):
                continue
            else:
                okf = False
                forms.append("?" + show(inner)[:60])
        key = "c03.azimuth|%s" % tag
        if okf and forms:
            ctx.ok("c03.azimuth", key, "azimuth = fround2(%s)" % " | ".join(sorted(set(forms))), loc)
        else:
            ctx.violation("c03.azimuth", key, "azimuth is stored without the BDL->52016 convention conversion: %s" % forms, loc)
    # formula of the conversion point
    f = prog.find("bemodel::convert::from_ctehexml::orientation_bdl_to_52016")
    sc = Scope(prog, f)
    rn = returned_nodes(f.body)
    n0 = strip(sc._rw(rn[0][1])) if len(rn) == 1 else None
    okc = False
    if n0 is not None and n0[0] == "call" and short_callee(n0[1]) == "normalize_azimuth" and len(n0[2]) == 1:
        # helper: normalize_azimuth(a) must be normalize(a, -180, 180)
        h = prog.find("bemodel::convert::from_ctehexml::normalize_azimuth")
        hs = Scope(prog, h)
        hr = returned_nodes(h.body)
        hn = strip(hs._rw(hr[0][1])) if len(hr) == 1 else None
        if (hn is not None and hn[0] == "call" and short_callee(hn[1]) == "normalize" and len(hn[2]) == 3 and strip(hn[2][0])[0] == "arg"
                and [strip(x)[1] for x in hn[2][1:] if strip(x)[0] == "k"] == ["-180.0", "180.0"]):
            n0 = ("call", "normalize", (n0[2][0], ("k", "-180.0", "f32", None), ("k", "180.0", "f32", None)), 0)
    if n0 is not None and n0[0] == "call" and short_callee(n0[1]) == "normalize" and len(n0[2]) == 3:
        a, lo, hi = [strip(x) for x in n0[2]]
        nz = Normalizer({f.body.names.get(1, "azimuth"): "a"})
        try:
            okc = nz.code(a).equals(nz.ref("180 - a")) and lo[0] == "k" and float(lo[1]) == -180.0 and float(hi[1]) == 180.0
        except AnalysisError:
            okc = False
    if okc:
        ctx.ok("c03.azimuth", "c03.azimuth|formula", "orientation_bdl_to_52016(a) = normalize(180 - a, -180, 180)", f.loc())
    elif n0 is not None and n0[0] == "call" and short_callee(n0[1]) == "normalize_azimuth" and len(n0[2]) == 1 and \
            Normalizer({f.body.names.get(1, "azimuth"): "a"}).code(strip(n0[2][0])).equals(Normalizer({}).ref("180 - a")):
        # the argument is right; the wrapping helper is written in a way this rule cannot read (loops instead of the closed form)
        raise AnalysisError("normalize_azimuth is not the closed form normalize(a, -180, 180): the wrap into [-180, 180) cannot be decided from its shape")
    else:
        ctx.violation("c03.azimuth", "c03.azimuth|formula", "orientation_bdl_to_52016 is %s, expected normalize(180 - a, -180, 180)" % (show(n0)[:100] if n0 else "?"), f.loc())


def run_fixture(ctx):
    prog = ctx.prog
    lits = literals(prog, prefix="poscontrol::c03", adt_prefix="poscontrol::")
    lits = [(sc, "WinGeom" if t == "C03Geom" else t, n, loc) for (sc, t, n, loc) in lits]
    check_copy(ctx, lits, src_prefix="win")
