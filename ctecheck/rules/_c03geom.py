"""C03 - formula rules for the geometry the converter writes: wall azimuth / tilt / position, rectangular and vertex-defined shades.

Reference expressions (BDL conventions: angles clockwise from north, the model stores azimuths S=0 E=+90 through orientation_bdl_to_52016):
  wall:   azimuth = r2(conv(G + As + Aw)); tilt = r2(T); position = Rz(-(As + G)) * P with
          P = (p1.x + wx + sx, p1.y + wy + sy, wz + sz)          for a wall on an edge of the outline (p1 = first vertex of the edge)
          P = (wx + sx, wy + sy, wz + sz + [space height for a TOP taken from the outline, else 0])   otherwise
          polygon on an edge = [(0,0), (|p2-p1|, 0), (|p2-p1|, space height), (0, space height)]
  shade (rectangle):  position = Rz(-G) * (x, y, z); azimuth = r2(conv(a + G)); tilt = t; polygon = [(0,0),(w,0),(w,h),(0,h)]
  shade (vertices):   kept when it has at least three vertices; position = Rz(-G) * v0; azimuth = r2(normalize(deg(shade_azimuth) - G, -180, 180))
G = global deviation from north, As = space angle, Aw = wall angle within the space."""
from ..cfgq import Scope, bool_taken
from ..exprs import strip, short_callee, show, leaf_name, walk
from ..facts import AnalysisError
from ..formulas import LeafMap, compare

LM = [(r"global_deviation_from_north\(", "G"), (r"angle_with_building_north$", "As"), (r"angle_with_space_north$", "Aw"),
      (r"(^|\.)wall\.tilt$", "T"), (r"(^|\.)wall\.x$", "wx"), (r"(^|\.)wall\.y$", "wy"), (r"(^|\.)wall\.z$", "wz"),
      (r"edge_vertices\(.*\?\[c0\]\.x$", "p1x"), (r"edge_vertices\(.*\?\[c0\]\.y$", "p1y"),
      (r"^ok_or_else\(find\(slice::iter\(bdl\.spaces\).*\)\?\.x$", "sx"), (r"^ok_or_else\(find\(slice::iter\(bdl\.spaces\).*\)\?\.y$", "sy"),
      (r"^ok_or_else\(find\(slice::iter\(bdl\.spaces\).*\)\?\.z$", "sz"), (r"^ok_or_else\(find\(slice::iter\(bdl\.spaces\).*\)\?\.height$", "sh")]
CM = {"orientation_bdl_to_52016": "conv", "to_radians": "rad", "to_degrees": "deg", "normalize": "normalize"}

from ..mir import callee_name


def point_coords(n):
    n = strip(n)
    for x in walk(n):
        if x[0] == "agg" and x[1] == "array" and len(x[3]) in (2, 3) and not (strip(x[3][0])[0] == "agg" and strip(x[3][0])[1] == "array"):
            return [strip(c) for c in x[3]]
    return None


def defs_of_local(sc, l):
    out = []
    for d in sc.body.defs().get(l, []):
        if d[0] == "st" and isinstance(d[3]["p"], int):
            out.append((d[1], strip(sc.rvalue(d[3]["rv"])), d[3].get("ln")))
        elif d[0] == "call" and isinstance(d[2]["dest"], int):
            out.append((d[1], strip(sc._rw(sc.eb.call_node(d[2], d[1]))), d[2].get("ln")))
    return out


def rot_angle(node):
    """angle node of Rotation3::from_euler_angles(0, 0, a) / from_axis_angle(z_axis, a)"""
    n = strip(node)
    if n[0] == "call" and short_callee(n[1]) == "from_euler_angles" and len(n[2]) == 3:
        return strip(n[2][2])
    if n[0] == "call" and short_callee(n[1]) == "from_axis_angle" and len(n[2]) == 2 and "z_axis" in show(n[2][0]):
        return strip(n[2][1])
    # `rot.inverse()` / `rot.transpose()` of a rotation about Z: the rotation by the opposite angle
    if n[0] == "call" and short_callee(n[1]) in ("inverse", "transpose") and len(n[2]) == 1:
        a = rot_angle(n[2][0])
        if a is not None:
            return ("un", "Neg", a)
    return None


def check_wall(ctx, prog, rule="c03.formula"):
    f = prog.find("bemodel::convert::from_ctehexml::wall_geometry")
    sc = Scope(prog, f)
    lits = [(sc.rvalue(s["rv"]), s.get("ln")) for b, i, s in f.body.statements() if s["s"] == "assign" and s["rv"]["r"] == "agg" and s["rv"].get("adt", "").endswith("::WallGeom")]
    ctx.require(len(lits) == 1, "wall_geometry: one WallGeom literal expected, found %d" % len(lits))
    n, ln = lits[0]
    fl = dict(zip(n[2], n[3]))
    lm = LeafMap({}, LM)
    compare(ctx, rule, rule + "|wall.azimuth", fl["azimuth"], "r2(conv(G + As + Aw))", lm, CM, f.loc(ln), "wall azimuth")
    compare(ctx, rule, rule + "|wall.tilt", fl["tilt"], "r2(T)", lm, CM, f.loc(ln), "wall tilt")
    # the other half of `G + As + Aw`: Aw is computed by the parser (compute_wall_angle_with_space_north) and has to be relative to the space, i.e. must not
    # itself contain the space's rotation in its floor (As) nor the global deviation - the sum above adds each of them exactly once
    hf = [g for g in prog.fns.values() if g.crate == "hulc" and g.root == g.id and g.path.endswith("::compute_wall_angle_with_space_north")]
    ctx.require(len(hf) == 1, "hulc: compute_wall_angle_with_space_north not found (%d)" % len(hf))
    hf = hf[0]
    reads, nnodes = [], 0
    for g in [hf] + prog.closures_of(hf):
        gsc = Scope(prog, g)
        for b, i, st in g.body.statements():
            if st["s"] == "assign":
                try:
                    txt = show(gsc.rvalue(st["rv"]))
                except Exception:
                    continue
                nnodes += 1
                for fld in ("angle_with_building_north", "global_deviation", "angle_with_true_north"):
                    if fld in txt:
                        reads.append((fld, st.get("ln")))
        for b, t in g.body.calls():
            txt = " ".join(show(gsc.operand(a)) for a in t["args"]) + " " + (callee_name(t) or "")
            nnodes += 1
            for fld in ("angle_with_building_north", "global_deviation", "angle_with_true_north"):
                if fld in txt:
                    reads.append((fld, t.get("ln")))
    ctx.floor(rule, "compute_wall_angle_with_space_north: values read", nnodes, 10)
    key = rule + "|wall.angle_with_space_north|space-relative"
    if reads:
        ctx.violation(rule, key, "the wall's angle *with its space's north* is computed from %s: wall_geometry adds the space's rotation and the global deviation "
                      "to it again (G + As + Aw), so that angle is counted twice for walls of a space turned inside its floor" % reads[0][0], hf.loc(reads[0][1]))
    else:
        ctx.ok(rule, key, "Aw is computed from the wall and the outline of its space only; As and G enter the azimuth once, in wall_geometry", hf.loc())
    pos = strip(fl["position"])
    if pos[0] == "agg" and pos[1].endswith("Some"):
        pos = strip(pos[3][0])
    ctx.require(pos[0] == "call" and short_callee(pos[1]) == "mul" and len(pos[2]) == 2, "wall_geometry: position is not `rotation * point`")
    ang = rot_angle(pos[2][0])
    ctx.require(ang is not None, "wall_geometry: the rotation of the position is not a rotation about Z")
    compare(ctx, rule, rule + "|wall.position.rotation", ang, "0 - rad(As + G)", lm, CM, f.loc(ln), "rotation of the wall origin about Z")
    pt = strip(pos[2][1])
    pts = []
    if pt[0] == "var":
        pts = defs_of_local(sc, pt[1])
    elif point_coords(pt):
        pts = [(None, pt, ln)]
    ctx.require(len(pts) in (1, 2), "wall_geometry: the point that is rotated has %d definitions" % len(pts))
    seen = set()
    for (b, pn, pln) in pts:
        cs = point_coords(pn)
        ctx.require(cs is not None and len(cs) == 3, "wall_geometry: origin point not readable")
        on_edge = "edge_vertices" in show(pn)
        kind = "edge" if on_edge else "outline"
        seen.add(kind)
        if on_edge:
            refs = ("p1x + wx + sx", "p1y + wy + sy", "wz + sz")
            for c, r, ax in zip(cs, refs, "xyz"):
                compare(ctx, rule, rule + "|wall.position.edge.%s" % ax, c, r, lm, CM, f.loc(pln), "origin of a wall on an outline edge (%s)" % ax)
        else:
            compare(ctx, rule, rule + "|wall.position.outline.x", cs[0], "wx + sx", lm, CM, f.loc(pln), "origin of a floor/ceiling/polygon element (x)")
            compare(ctx, rule, rule + "|wall.position.outline.y", cs[1], "wy + sy", lm, CM, f.loc(pln), "origin of a floor/ceiling/polygon element (y)")
            # z = wz + sz + height, height in {space height (TOP from the outline), 0}
            z = cs[2]
            hv = [x for x in walk(z) if x[0] == "var"]
            hs = sorted({show(v)[:40] for (_, v, _) in defs_of_local(sc, hv[0][1])}) if len(hv) == 1 else []
            lmz = LeafMap(dict({hv[0][2]: "hh"} if len(hv) == 1 else {}), LM)
            compare(ctx, rule, rule + "|wall.position.outline.z", z, "wz + sz + hh", lmz, CM, f.loc(pln), "origin of a floor/ceiling/polygon element (z)")
            okh = len(hs) == 2 and "0.0" in hs and any(".height" in show(v) and "spaces" in show(v) for (_, v, _) in defs_of_local(sc, hv[0][1]))
            if okh:
                ctx.ok(rule, rule + "|wall.position.outline.height", "the storey height is added for a ceiling taken from the outline, 0 otherwise", f.loc(pln))
            else:
                ctx.violation(rule, rule + "|wall.position.outline.height", "the height added to the origin takes the values %s, expected {space height, 0}" % hs, f.loc(pln))
    ctx.require(seen == {"edge", "outline"}, "wall_geometry: origin cases found: %s" % sorted(seen))
    # polygon of a wall on an edge: width = |p2 - p1|, height = storey height
    pol = strip(fl["polygon"])
    pdefs = defs_of_local(sc, pol[1]) if pol[0] == "var" else []
    rect = [(b, v, l_) for (b, v, l_) in pdefs if v[0] == "agg" and v[1] == "vec" and len(v[3]) == 4]
    ctx.require(len(rect) == 1, "wall_geometry: the rectangle of a wall on an edge was not found")
    b, v, l_ = rect[0]
    pts4 = [point_coords(p) for p in v[3]]
    lmp = LeafMap({}, LM + [(r"magnitude\(", "w")])
    want = [("0", "0"), ("w", "0"), ("w", "sh"), ("0", "sh")]
    for k, (cs, (rx, ry)) in enumerate(zip(pts4, want)):
        compare(ctx, rule, rule + "|wall.polygon.edge.%d.x" % k, cs[0], rx, lmp, CM, f.loc(l_), "corner %d of a wall on an edge (x)" % k)
        compare(ctx, rule, rule + "|wall.polygon.edge.%d.y" % k, cs[1], ry, lmp, CM, f.loc(l_), "corner %d of a wall on an edge (y)" % k)
    wnode = [x for x in walk(pts4[1][0]) if x[0] == "call" and short_callee(x[1]) == "magnitude"]
    okw = bool(wnode) and "edge_vertices" in show(wnode[0]) and ("sub(" in show(wnode[0]) or "Sub" in show(wnode[0]))
    if okw:
        ctx.ok(rule, rule + "|wall.polygon.edge.width", "width = |p2 - p1| of the outline edge", f.loc(l_))
    else:
        ctx.violation(rule, rule + "|wall.polygon.edge.width", "the width of a wall on an edge is %s, expected the length of the edge" % show(pts4[1][0])[:80], f.loc(l_))


def check_shades(ctx, prog, rule="c03.formula"):
    f = prog.find("bemodel::convert::from_ctehexml::shades_from_bdl")
    root = Scope(prog, f)
    cls = [ch for (b, t, ch) in root.children() if ch.via and ch.via[0] == "filter_map"]
    ctx.require(len(cls) == 1, "shades_from_bdl: filter_map closure not found")
    sc = cls[0]
    body = sc.body
    lm = LeafMap({}, [(r"global_deviation_from_north\(", "G"), (r"geometry@Some\.0\.azimuth$", "a"), (r"geometry@Some\.0\.tilt$", "t"),
                      (r"geometry@Some\.0\.x$", "x"), (r"geometry@Some\.0\.y$", "y"), (r"geometry@Some\.0\.z$", "z"),
                      (r"geometry@Some\.0\.width$", "w"), (r"geometry@Some\.0\.height$", "h")])
    # rotations of the origin
    rots = []
    for b, t in body.calls():
        nm = short_callee((t.get("f") or {}).get("k", {}).get("fn", "") if False else "")
    muls = []
    for b, i, s in body.statements():
        pass
    for b, t in body.calls():
        from ..mir import callee_name
        if short_callee(callee_name(t) or "") == "mul" and len(t["args"]) == 2:
            n = strip(sc._rw(sc.eb.call_node(t, b)))
            ang = rot_angle(n[2][0])
            if ang is not None:
                muls.append((n, ang, t.get("ln")))
    ctx.require(len(muls) == 2, "shades_from_bdl: expected two `Rz * point` origins (rectangle and vertex list), found %d" % len(muls))
    for (n, ang, ln) in muls:
        kind = "rectangle" if point_coords(n[2][1]) else "vertices"
        compare(ctx, rule, rule + "|shade.%s.position.rotation" % kind, ang, "0 - rad(G)", lm, CM, f.loc(ln), "rotation of the shade origin about Z (%s)" % kind)
        if kind == "rectangle":
            cs = point_coords(n[2][1])
            for c, r, ax in zip(cs, ("x", "y", "z"), "xyz"):
                compare(ctx, rule, rule + "|shade.rectangle.position.%s" % ax, c, r, lm, CM, f.loc(ln), "origin of a rectangular shade (%s)" % ax)
        else:
            v0 = origin_of(n[2][1])
            if v0.endswith("vertices@Some.0[c0]") or v0.endswith("vertices@Some.0[0]") or "[c0]" in v0 or v0.replace(" ", "").endswith("vertices@Some.0,0)"):
                ctx.ok(rule, rule + "|shade.vertices.position.point", "the origin of a vertex-defined shade is its first vertex", f.loc(ln))
            else:
                ctx.violation(rule, rule + "|shade.vertices.position.point", "the origin of a vertex-defined shade is %s, expected its first vertex" % v0[:60], f.loc(ln))
    # azimuths: the two named definitions of `azimuth`
    from .c06 import local_defs
    azs = [(b, n, ln) for l, dd in local_defs(sc, "azimuth").items() for (b, n, ln) in dd if n[0] == "call"]
    ctx.require(len(azs) == 2, "shades_from_bdl: two azimuth definitions expected, found %d" % len(azs))
    for (b, n, ln) in azs:
        if "shade_azimuth" in show(n) or "to_degrees" in show(n):
            sv = [x for x in walk(n) if x[0] == "var"]
            lmv = LeafMap({x[2]: "sa" for x in sv}, [(r"global_deviation_from_north\(", "G")])
            compare(ctx, rule, rule + "|shade.vertices.azimuth", n, "r2(normalize(deg(sa) - G, 0 - 180, 180))", lmv, CM, f.loc(ln), "azimuth of a vertex-defined shade")
        else:
            compare(ctx, rule, rule + "|shade.rectangle.azimuth", n, "r2(conv(a + G))", lm, CM, f.loc(ln), "azimuth of a rectangular shade")
    # rectangle polygon
    pols = [(b, n, ln) for l, dd in local_defs(sc, "polygon").items() for (b, n, ln) in dd if n[0] == "agg" and n[1] == "vec" and len(n[3]) == 4]
    ctx.require(len(pols) == 1, "shades_from_bdl: rectangle polygon not found")
    b, v, ln = pols[0]
    for k, (p, (rx, ry)) in enumerate(zip(v[3], [("0", "0"), ("w", "0"), ("w", "h"), ("0", "h")])):
        cs = point_coords(p)
        compare(ctx, rule, rule + "|shade.rectangle.polygon.%d.x" % k, cs[0], rx, lm, CM, f.loc(ln), "corner %d of a rectangular shade (x)" % k)
        compare(ctx, rule, rule + "|shade.rectangle.polygon.%d.y" % k, cs[1], ry, lm, CM, f.loc(ln), "corner %d of a rectangular shade (y)" % k)
    # a vertex-defined shade is kept when it has three or more vertices
    thr = None
    for b in range(body.n):
        t = body.blocks[b]["term"]
        if t["t"] == "switch":
            c = strip(sc.operand(t["d"]))
            if c[0] == "bin" and c[1] in ("Lt", "Le", "Gt", "Ge") and "len(" in show(c) and "vertices" in show(c) and strip(c[3])[0] == "k":
                thr = (c[1], int(strip(c[3])[1]), t.get("ln"))
    ctx.require(thr is not None, "shades_from_bdl: the minimum number of vertices test was not found")
    dropped_below = thr[1] if thr[0] == "Lt" else thr[1] + 1 if thr[0] == "Le" else None
    if dropped_below == 3:
        ctx.ok(rule, rule + "|shade.vertices.minimum", "vertex-defined shades with fewer than three vertices are skipped, triangles are kept", f.loc(thr[2]))
    else:
        ctx.violation(rule, rule + "|shade.vertices.minimum", "vertex-defined shades are skipped when len %s %d: a shade with %s vertices is lost"
                      % ({"Lt": "<", "Le": "<=", "Gt": ">", "Ge": ">="}[thr[0]], thr[1], "three" if dropped_below and dropped_below > 3 else "?"), f.loc(thr[2]))


def origin_of(n):
    from ..exprs import origin_desc
    return origin_desc(strip(n))
