"""C15 - The model checker reports exactly the broken links."""
from ..cfgq import Scope, bool_taken, iter_chain, strip, closure_id_of, returned_nodes
from ..exprs import ExprBuilder, leaf_name, short_callee, show, walk
from ..mir import callee_name
from ..facts import AnalysisError
from ..spec.refgraph import CHECKER_LINKS, REFS

ID = "C15"
LEVEL = "proof"
RULE_TEXT = ("finite obligations read off the checker's MIR: id-set provenance, one negated membership condition per warning push "
             "(control dependence via dominating switch edges), warning payload, the bridge-length predicate vs K's inclusion predicate, "
             "signature/Freeze, and provenance of EnergyIndicators.warnings")
EXPLANATION = ("D1 each id set is built from the ids of the collection the reference graph prescribes and each warning push is guarded by exactly the "
               "negated membership (plus is_some for the optional link) and carries Some(element.id); no other push; D2 the bridge predicate is the "
               "complement of the predicate under which K includes a bridge; D3 check: fn(&Model)->Vec<Warning>, Model: Freeze, no unsafe; "
               "D4 EnergyIndicators.warnings = check(model)")
DECIDED = ["D1 membership table (5 links) + bridge test, one push each, payload Some(element.id)", "D2 negative-length predicate is the complement of K's inclusion predicate",
           "D3 the checker cannot modify the model (types)", "D4 the indicators' warnings are the checker's"]
UNDECIDED = ["message wording"]
ASSUMPTIONS = ["HashSet::contains and Iterator adaptors have their documented semantics"]
LEVEL_TEXT = ("Proof over a finite set of obligations extracted from the type-checked checker: for every link the statement lists, the id set tested is built "
              "from the ids of the prescribed collection, the warning push is control-dependent on exactly the negated membership test (and is_some for the "
              "optional link) and carries Some(element.id); there is no other push; the negative-length predicate is K's exclusion predicate; the signature "
              "fn(&Model)->Vec<Warning> with Model: Freeze and no unsafe shows the model cannot be modified; EnergyIndicators.warnings is check(model). "
              "This holds for every model, not for sampled ones.")
LEVEL_NOTE = "Trusted: rustc MIR/type information, std HashSet/iterator semantics, the driver and rules."
TECHNIQUE = "control-dependence + def-use provenance on MIR, type facts (Freeze, signature)"
FIXTURE_EXPECT = ["c15.link"]


def set_prov(prog, n):
    """(source collection leaf, mapped element field leaf) of a set/vec built as coll.iter().map(|x| x.f).collect()"""
    n = strip(n)
    if n[0] == "proj" and strip(n[1])[0] == "call" and len(n[2]) == 1:
        # a field of a struct of id sets built by a helper (`ModelIds::new(model).spaces`)
        from ..cfgq import inline_helper
        inl = inline_helper(prog, strip(n[1]))
        if inl is not None and strip(inl)[0] == "agg" and n[2][0].lstrip(".") in strip(inl)[2]:
            a = strip(inl)
            n = strip(a[3][a[2].index(n[2][0].lstrip("."))])
    if n[0] != "call" or short_callee(n[1]) != "collect":
        return None
    ch = iter_chain(n)
    src = ch.source_name()
    field = None
    for (ad, cl) in ch.steps:
        if ad == "map":
            cid = closure_id_of(cl)
            if cid and cid in prog.fns:
                cb = prog.fns[cid]
                sc = Scope(prog, cb, {}, ("elem", src, ()))
                rn = returned_nodes(cb.body)
                if len(rn) == 1:
                    field = leaf_name(strip(sc._rw(rn[0][1])))
        elif ad not in ("iter", "into_iter", "copied", "cloned", "collect"):
            return (src, "<%s>" % ad)
    return (src, field)


def classify_cond(node, val, sets):
    """-> canonical condition tuple"""
    n = strip(node)
    while n[0] == "un" and n[1] == "Not" and val is not None:
        n = strip(n[2])
        val = not val
    if n[0] == "call":
        from ..cfgq import inline_helper
        inl = inline_helper(sets, n)
        if inl is not None and strip(inl)[0] in ("call", "un", "bin"):
            return classify_cond(inl, val, sets)       # a predicate method that only names the test (`ids.has_space(&id)`)
        sc = short_callee(n[1])
        if sc == "contains" and len(n[2]) == 2:
            setn = set_prov(sets, n[2][0])
            x = strip(n[2][1])
            unwrapped = False
            if x[0] == "call" and short_callee(x[1]) in ("unwrap", "expect"):
                x = strip(x[2][0])
                unwrapped = True
            xl = leaf_name(x)
            if xl is None and x[0] in ("call", "proj"):
                from ..exprs import origin_desc
                xl = origin_desc(x)        # e.g. a helper applied to the element: named, so that the report can say what is tested instead
            if xl and xl.endswith("@Some.0"):
                xl = xl[:-len("@Some.0")]
            return ("member", setn, xl, val)
        if sc in ("is_some", "is_none"):
            v = val if sc == "is_some" else (not val)
            return ("is_some", leaf_name(strip(n[2][0])), v)
        if sc == "is_sign_negative":
            return ("sign_negative", leaf_name(strip(n[2][0])), val)
    if n[0] == "bin" and n[1] in ("Lt", "Le", "Gt", "Ge"):
        a, b = strip(n[2]), strip(n[3])
        if b[0] == "k":
            return ("cmp", n[1], leaf_name(a), b[1], val)
        if a[0] == "k":
            flip = {"Lt": "Gt", "Le": "Ge", "Gt": "Lt", "Ge": "Le"}[n[1]]
            return ("cmp", flip, leaf_name(b), a[1], val)
    if n[0] == "discr":
        return ("discr", leaf_name(strip(n[1])), val)
    return ("other", show(n)[:100], val)


def collect_sites(prog, check_fn):
    """every `Warning { .. }` literal built while check() runs - in check itself, its closures, or the helper functions of its module (each
    instantiated per call site) - with the conditions under which it is built: (scope, bb, literal node, conditions, where it goes)"""
    from ..cfgq import scope_instances
    mod = check_fn.path.rsplit("::", 1)[0]
    out = []
    for (sc, ctx_conds, chain) in scope_instances(prog, check_fn, lambda f: f.path.startswith(mod + "::") and f.crate == check_fn.crate):
        for b, i, s in sc.body.statements():
            if s["s"] == "assign" and s["rv"]["r"] == "agg" and s["rv"].get("adt", "").endswith("::Warning"):
                val = strip(sc.rvalue(s["rv"]))
                conds = list(ctx_conds) + [(n, tk) for (s2, d, n, tk) in sc.conditions(b)]
                # destination: pushed onto a vector of this scope, or returned (Some(..)/value) to the caller
                dest = None
                from ..dataflow import uses_of
                from ..mir import pl_local
                for u in uses_of(sc.body, pl_local(s["p"])):
                    if u[0] == "term" and u[2]["t"] == "call" and short_callee(callee_name(u[2]) or "") == "push":
                        dest = leaf_name(strip(sc.operand(u[2]["args"][0])))
                out.append((sc, b, s, val, conds, dest))
    return out


def expand_option_helpers(prog, conds):
    """a condition `helper(..) is Some` where helper is a function of the workspace that returns Some at exactly one place: replaced by the
    conditions under which the helper gets there (with its parameters bound to the call's arguments)"""
    out = []
    for (n, tk) in conds:
        m = strip(n)
        if m[0] == "discr" and tk in ("1", "else:0") and strip(m[1])[0] == "call":
            call = strip(m[1])
            ids = prog.callee_index().get(call[1], ())
            if len(ids) == 1:
                h = prog.fns[next(iter(ids))]
                if h.kind in ("fn", "assocfn") and h.body.argc == len(call[2]) and "Option" in (h.raw.get("ret") or ""):
                    hsc = Scope(prog, h, argmap={i + 1: a for i, a in enumerate(call[2])})
                    somes = [(b, s) for b, i, s in h.body.statements() if s["s"] == "assign" and s["p"] == 0 and s["rv"]["r"] == "agg" and s["rv"].get("variant") == "Some"]
                    if len(somes) == 1:
                        for (s2, d, c, tk2) in hsc.conditions(somes[0][0]):
                            out.append((c, tk2))
                        continue
        out.append((n, tk))
    return out


def analyse_checker(ctx, check_fn, links, rule="c15.link", bridge=True):
    prog = ctx.prog
    sets = prog
    results = []
    for (sc, b, s, val, conds, dest) in collect_sites(prog, check_fn):
        loc = sc.fn.loc(s.get("ln"))
        canon = []
        conds = expand_option_helpers(prog, conds)
        for (n, tk) in conds:
            bv = bool_taken(tk)
            c = classify_cond(n, bv, sets)
            # the discriminant of an Option matched as Some(x): same as is_some
            if c[0] == "discr" and tk in ("1", "else:0"):
                c = ("is_some", c[1], True)
            elif c[0] == "discr" and tk in ("0", "else:1"):
                c = ("is_some", c[1], False)
            if c not in canon:
                canon.append(c)
        idn = None
        if val[0] == "agg" and "id" in val[2]:
            idf = strip(val[3][val[2].index("id")])
            if idf[0] == "agg" and idf[1].endswith("Option::Some"):
                idn = leaf_name(strip(idf[3][0]))
            else:
                idn = "not-Some:" + show(idf)[:40]
        results.append((canon, idn, loc, dest, sc))
    return sets, results


def run(ctx):
    prog = ctx.prog
    check = prog.fn_by_path("bemodel::checks::check")
    sets, results = analyse_checker(ctx, check, CHECKER_LINKS)
    # the obligations are phrased over `warnings.push(Warning {..})` sites and their dominating conditions; a checker written in another
    # style (helpers returning Option<Warning>, collected through an iterator) is not understood: cannot decide, rather than a finding per link
    ctx.require(len(results) >= 1, "check(): no `Warning {..}` literal found in check(), its closures or the helpers of its module: the checker's structure is not the one this rule reads")
    nsets = {c[1] for r in results for c in r[0] if c[0] == "member" and c[1]}
    ctx.floor("c15.sets", "distinct id sets tested", len(nsets), 4)
    ctx.floor("c15.link", "warning pushes", len(results), 6)
    # expected: per link one push with conditions exactly {not member(set(target ids), elem.field)} (+ is_some for optional)
    opt = {(o, f): op for (o, f, tgt, op) in REFS}
    used = set()
    for (owner, field, target) in CHECKER_LINKS:
        key = "c15.link|%s%s->%s" % (owner, field, target)
        want_elem = "model.%s[]%s" % (owner, field)
        cands = []
        for idx, (canon, idn, loc, recv, sc) in enumerate(results):
            mem = [c for c in canon if c[0] == "member" and c[2] == want_elem]
            if mem:
                cands.append((idx, canon, idn, loc, mem))
        # the warning *about* this link is the one built when the membership fails; sites that merely run after the test passed are
        # other links' warnings with an extra guard (reported there)
        neg = [c for c in cands if any(m[3] is False for m in c[4])]
        if len(neg) == 1:
            cands = [(idx, canon, idn, loc, [m for m in mem if m[3] is False]) for (idx, canon, idn, loc, mem) in neg]
        if len(cands) != 1:
            tested = sorted({c[2] for (canon, idn, loc, recv, sc) in results for c in canon if c[0] == "member" and c[2] and c[2].startswith(("model.%s[]" % owner, owner)) or
                             (c[0] == "member" and c[2] and "model.%s[]" % owner in c[2])})
            ctx.violation("c15.link", key, "expected exactly one warning guarded by a membership test of %s, found %d (membership tests on elements of model.%s: %s)"
                          % (want_elem, len(cands), owner, tested), check.loc())
            continue
        idx, canon, idn, loc, mem = cands[0]
        used.add(idx)
        m = mem[0]
        prov = m[1]
        setname = "ids"
        problems = []
        if m[3] is not False:
            problems.append("warning is pushed when the id IS in the set (negation missing)")
        if not prov or prov[0] != "model." + target or prov[1] != "model.%s[].id" % target:
            problems.append("the set tested is built from %s, expected the ids of model.%s" % (prov, target))
        others = [c for c in canon if c is not m]
        if opt.get((owner, field)):
            iss = [c for c in others if c[0] == "is_some" and c[1] == want_elem and c[2] is True]
            others = [c for c in others if c not in iss]
            if not iss:
                problems.append("optional link tested without is_some guard")
        if others:
            extra_links = [c[2] for c in others if c[0] == "member" and c[3] is True]
            if extra_links and len(extra_links) == len(others):
                problems.append("the warning is produced only when %s resolve(s): an element with several broken links gets a warning for the first one only"
                                % " and ".join(extra_links))
            else:
                problems.append("extra guard conditions %s" % (others,))
        if idn != "model.%s[].id" % owner:
            problems.append("warning id is %s, expected Some(element.id)" % idn)
        if problems:
            ctx.violation("c15.link", key, "; ".join(problems), loc)
        else:
            ctx.ok("c15.link", key, "push guarded by !%s.contains(%s), set = ids of model.%s, id = Some(element.id)" % (setname, want_elem, target), loc)
    # bridge
    bkey = "c15.bridge|thermal_bridges.l"
    bc = [(i, r) for i, r in enumerate(results) if any(c[0] in ("sign_negative", "cmp") and c[-1] is not None and "thermal_bridges[]" in str(c) for c in r[0])]
    # K's inclusion predicate
    kfn = prog.method("energy::indicators::k::KData", "convert::From", "from")
    kroot = Scope(prog, kfn)
    kpred = None
    for sc in kroot.all_scopes():
        body = sc.body
        for b in range(body.n):
            t = body.blocks[b]["term"]
            if t["t"] == "switch":
                n = strip(sc.operand(t["d"]))
                if n[0] == "bin" and n[1] in ("Lt", "Le", "Gt", "Ge"):
                    ln_ = leaf_name(strip(n[2])) or ""
                    if ln_.endswith(".l") and "thermal_bridges" in ln_ and strip(n[3])[0] == "k":
                        kpred = (n[1], strip(n[3])[1])
    ctx.require(kpred is not None, "cannot find K's thermal-bridge length test (l < 0.0) in KData::from")
    if len(bc) != 1:
        ctx.violation("c15.bridge", bkey, "expected exactly one warning guarded by a test of the bridge length, found %d" % len(bc), check.loc())
    else:
        i, (canon, idn, loc, recv, sc) = bc[0]
        used.add(i)
        c = canon[0]
        if len(canon) == 1 and c[0] == "cmp" and (c[1], c[3]) == kpred and c[4] is True and c[2] == "model.thermal_bridges[].l":
            if idn == "model.thermal_bridges[].id":
                ctx.ok("c15.bridge", bkey, "warning iff l %s %s, the predicate under which K skips the bridge" % (kpred[0], kpred[1]), loc)
            else:
                ctx.violation("c15.bridge", bkey, "warning id is %s" % idn, loc)
        else:
            ctx.violation("c15.bridge", bkey,
                          "checker warns on %s but K excludes a bridge iff l %s %s: the two predicates differ (e.g. l = -0.0 is warned about yet counted in K)"
                          % (canon, kpred[0], kpred[1]), loc)
    for i, (canon, idn, loc, recv, sc) in enumerate(results):
        if i not in used:
            ctx.violation("c15.extra", "c15.extra|%s" % (canon,), "warning push not covered by the statement's list (conditions %s)" % (canon,), loc)
    # all pushes go to the returned vector
    rn = returned_nodes(check.body)
    rname = leaf_name(strip(rn[0][1])) if len(rn) == 1 else None
    # (warnings built in helpers that return them are handed to the caller by value, not pushed)
    bad = [r for r in results if r[3] is not None and r[3] != rname]
    if bad or (rname is None and any(r[3] is not None for r in results)):
        ctx.violation("c15.ret", "c15.ret|warnings", "warnings are pushed to %s but the function returns %s" % ({r[3] for r in results}, rname), check.loc())
    else:
        ctx.ok("c15.ret", "c15.ret|warnings", "all pushes target the returned vector `%s`" % rname, check.loc())

    # D3 types
    sig_ok = check.raw["inputs"] == ["&types::model::Model"] and check.raw["output"].startswith("std::vec::Vec<types::reporting::Warning")
    madt = prog.adt("bemodel::types::model::Model")
    unsafe_in = [u for u in prog.unsafe if u["span"][0] == check.file and check.span[1] <= u["span"][1] <= 10 ** 9 and "checks.rs" in u["span"][0]]
    if sig_ok and madt["freeze"] and not unsafe_in and not check.raw["unsafe_fn"]:
        ctx.ok("c15.types", "c15.types|check", "check: fn(&Model) -> Vec<Warning>; Model: Freeze; no unsafe in checks.rs", check.loc())
    else:
        ctx.violation("c15.types", "c15.types|check", "signature %s -> %s, Model freeze=%s, unsafe=%s" % (check.raw["inputs"], check.raw["output"], madt["freeze"], bool(unsafe_in)), check.loc())
    # D4
    comp = prog.method("energy::indicators::types::EnergyIndicators", None, "compute")
    okd4 = False
    loc = comp.loc()
    det = "?"
    # the literal may sit in compute itself or in a private helper it calls (instantiated with its arguments)
    for sc in Scope(prog, comp).all_scopes():
        for b, i, s in sc.body.statements():
            if s["s"] == "assign" and s["rv"]["r"] == "agg" and s["rv"].get("adt", "").endswith("EnergyIndicators"):
                n = sc.rvalue(s["rv"])
                w = strip(n[3][n[2].index("warnings")])
                if w[0] == "call" and w[1] == "bemodel::checks::check" and strip(w[2][0]) == ("arg", 1, comp.body.names.get(1, "_1")):
                    okd4 = True
                det = show(w)[:120]
                loc = sc.fn.loc(s.get("ln"))
    if okd4:
        ctx.ok("c15.indicators", "c15.indicators|warnings", "EnergyIndicators.warnings = check(model) with compute's own argument", loc)
    else:
        ctx.violation("c15.indicators", "c15.indicators|warnings", "EnergyIndicators.warnings is not check(model)", comp.loc())


def run_fixture(ctx):
    prog = ctx.prog
    f = prog.fn_by_path("poscontrol::c15_check")
    sets, results = analyse_checker(ctx, f, [])
    # fixture: membership test against the wrong set (built from names, not ids) and not negated
    for (canon, idn, loc, recv, sc) in results:
        for c in canon:
            if c[0] == "member" and c[3] is not False:
                ctx.violation("c15.link", "fixture", "non-negated membership", loc)
