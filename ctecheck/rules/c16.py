"""C16 - Purging removes exactly the unreachable items."""
from ..cfgq import (Scope, iter_chain, strip, closure_id_of, closure_env, returned_nodes, elem_prov, value_prov,
                    UnknownTransfer, dominating_conditions, beta, fn_item_of, inline_helper)
from ..exprs import leaf_name, short_callee, show, walk
from ..facts import AnalysisError
from ..mir import callee_name, callee_id, pl_local, pl_proj
from ..spec.refgraph import REFS

ID = "C16"
LEVEL = "proof"
RULE_TEXT = ("per purge stage: read set of the used-id set (element provenance through iterator chains and closures) vs the reference graph; "
             "write set; order of stages vs the reads (reachability order); retain shape (order-preserving adaptors, same source as target)")
EXPLANATION = ("D1 every used set is built from all reference fields that point at the target collection; D2 a stage that reads collection X runs after "
               "the stage that purges X; D3 each stage assigns its target from target.iter().cloned().filter(p).collect() (order kept) and nothing else "
               "of the model is written; D4 bridges are kept iff |l| > eps, eps <= 1e-6; D5 follows from D1")
DECIDED = ["D1 used sets complete w.r.t. the reference graph", "D2 stage order = reachability order", "D3 order kept, nothing else written",
           "D4 zero-length bridge predicate", "D5 no broken link introduced (consequence of D1)",
           "D6 the ids in use are collected from all referring elements (no filter/take/skip on the way)"]
UNDECIDED = ["'changes no indicator' (needs the indicators' read set)"]
ASSUMPTIONS = ["std iterator adaptors iter/cloned/filter/collect::<Vec<_>> preserve order; HashSet::contains is membership"]
LEVEL_TEXT = ("Proof from extracted read/write sets: for each of the 12 purge stages the set of ids that protects items from removal is shown to be built from "
              "exactly the reference fields the model's reference graph (transcribed from the statement) points at that collection, read from collections that "
              "have already been purged; the retained collection is an order-preserving filter of the old one and no other model field is written. "
              "Together these give 'removes exactly the unreachable items', idempotence and 'no broken link' for every model; 'changes no indicator' is not decided.")
LEVEL_NOTE = "Trusted: rustc MIR, std iterator/HashSet semantics, the reference graph transcribed in ctecheck/spec/refgraph.py."
TECHNIQUE = "def-use element provenance through iterator chains + write-set/ordering analysis on MIR (incl. staleness of precomputed reference sets)"
FIXTURE_EXPECT = ["c16.used"]

ORDER_KEEPING = {"iter", "into_iter", "cloned", "copied", "filter", "collect", "drain"}


def model_field_of_place(p, body):
    """field path (e.g. 'cons.wallcons') if place is a field of the &mut Model argument (local 1)"""
    if pl_local(p) != 1:
        return None
    pr = [e for e in pl_proj(p) if e != "*"]
    if not pr or not all(e.startswith(".") for e in pr):
        return None
    return "".join(pr)[1:]


def branch_conditions(body, b):
    """dominating conditions of block b other than loop exits (`while let Some(..) = it.next()` falling through) and `?`"""
    from ..exprs import ExprBuilder
    eb = ExprBuilder(body)
    out = []
    for (d, n, tk) in dominating_conditions(body, b, eb):
        n = strip(n)
        if n[0] == "discr" and ("next(" in show(n) or "branch(" in show(n)):
            continue
        out.append((d, n, tk))
    return out


def stale_snapshots(ctx, prog, fn, sc, arg_name="model", rule="c16.order"):
    """stages that receive a precomputed set of references (`purge_unused_loads(model, &refs)`): the one thing decided about them is the order.  A set
    collected from model.X before a stage purged model.X still holds what the removed X elements referred to, so a later stage that keeps what the set names
    keeps too much (a second purge removes more).  Where each field of the record comes from is read off the collecting function: an insert/extend into
    `<record>.<field>` inside a loop over `model.<collection>`."""
    from ..loops import classify_loops
    body = fn.body
    order = {b: i for i, b in enumerate(body.rpo())}
    stages = []
    for b, t in body.calls():
        cid = callee_id(t)
        g = prog.fns.get(cid)
        if g is None or not g.path.startswith("bemodel::purge::") or (g.raw.get("inputs") or [""])[0] != "&mut types::model::Model":
            continue
        gsc = Scope(prog, g)
        targets, fields = set(), set()
        for b2, t2 in g.body.calls():
            for a in t2["args"][:1]:
                ln_ = leaf_name(strip(gsc.operand(a))) or ""
                if ln_.startswith(arg_name + ".") and short_callee(callee_name(t2) or "") in ("retain", "retain_mut", "retain_used", "drain", "clear", "truncate", "dedup") or \
                        (ln_.startswith(arg_name + ".") and (prog.fns.get(callee_id(t2)) is not None and (prog.fns[callee_id(t2)].raw.get("inputs") or [""])[0].startswith("&mut std::vec::Vec"))):
                    targets.add(ln_[len(arg_name) + 1:].split(".")[0] if not ln_[len(arg_name) + 1:].startswith(("cons.", "schedules.")) else ln_[len(arg_name) + 1:])
            for a in t2["args"]:
                for x in walk(strip(gsc.operand(a))):
                    if x[0] == "proj" and strip(x[1])[0] == "arg" and strip(x[1])[1] == 2 and x[2]:
                        fields.add(str(x[2][-1]).lstrip(".") if not str(x[2][0]).startswith("*") or len(x[2]) == 1 else str(x[2][1]).lstrip("."))
        for b2, i2, s2 in g.body.statements():
            if s2["s"] == "assign":
                tg = model_field_of_place(s2["p"], g.body)
                if tg is not None and not isinstance(s2["p"], int):
                    targets.add(tg)
        extra = [strip(sc.operand(a)) for a in t["args"][1:]]
        stages.append((order[b], g, targets, fields, extra, t))
    stages.sort(key=lambda x: x[0])
    # the records handed to the stages, and the function that collected each
    for pos, g, targets, fields, extra, t in stages:
        for e in extra:
            base = e
            while base[0] in ("ref", "un") and len(base) > 1 and isinstance(base[-1], tuple):
                base = strip(base[-1])
            if not (base[0] == "call" and base[2] and (leaf_name(strip(base[2][0])) or "").split(".")[0] == arg_name):
                continue
            cids = prog.callee_index().get(base[1], ())
            if len(cids) != 1:
                continue
            C = prog.fns[next(iter(cids))]
            csc = Scope(prog, C)
            cpos = order.get(base[3], -1) if len(base) > 3 else -1
            src_of = {}
            for info in classify_loops(prog, C):
                src = (info.get("source") or "")
                if not src.startswith(arg_name + "."):
                    continue
                coll = src[len(arg_name) + 1:]
                for b3 in info["blocks"]:
                    t3 = C.body.blocks[b3]["term"]
                    if t3["t"] == "call" and short_callee(callee_name(t3) or "") in ("insert", "extend", "push") and t3["args"]:
                        r_ = strip(csc.operand(t3["args"][0]))
                        if r_[0] == "proj" and r_[2]:
                            src_of.setdefault(str(r_[2][-1]).lstrip("."), set()).add(coll)
            for f_ in sorted(fields):
                for coll in sorted(src_of.get(f_, ())):
                    late = [g2 for (p2, g2, tg2, _, _, _) in stages if cpos < p2 < pos and coll in tg2]
                    for tg in sorted(targets):
                        key = "%s|%s<-%s|snapshot" % (rule, tg, coll)
                        if late:
                            ctx.violation(rule, key, "what model.%s keeps is decided by ids collected from model.%s before %s purged model.%s: the references of the removed %s are "
                                          "still in the set, so items only they referred to survive (a second purge removes more)"
                                          % (tg, coll, late[0].path.split("::")[-1], coll, coll), fn.loc(t.get("ln")))


def stage_events(prog, fn, arg_name="model", ctx=None):
    """ordered events of one purge function: ('write', target, info) and the calls to other purge functions"""
    body = fn.body
    sc = Scope(prog, fn)
    order = {b: i for i, b in enumerate(body.rpo())}
    events = []
    for b in body.rpo():
        if body.is_cleanup(b):
            continue
        for i, s in enumerate(body.blocks[b]["st"]):
            if s["s"] != "assign":
                continue
            tgt = model_field_of_place(s["p"], body)
            if tgt is not None and not isinstance(s["p"], int):
                if branch_conditions(body, b):
                    raise AnalysisError("purge write to model.%s under a branch in %s: not analysable as a stage sequence" % (tgt, fn.path))
                events.append((order[b], i, "write", tgt, sc.rvalue(s["rv"]), fn.loc(s.get("ln"))))
        t = body.blocks[b]["term"]
        if t["t"] == "call":
            nm = callee_name(t) or ""
            cid = callee_id(t)
            if short_callee(nm) == "retain" and "vec::Vec" in nm:
                recv = sc.operand(t["args"][0])
                ln_ = leaf_name(strip(recv))
                if ln_ and ln_.startswith(arg_name + "."):
                    events.append((order[b], 10 ** 6, "retain", ln_[len(arg_name) + 1:], strip(sc.operand(t["args"][1])), fn.loc(t.get("ln"))))
            elif cid in prog.fns and prog.fns[cid].raw.get("inputs") == ["&mut types::model::Model"]:
                if branch_conditions(body, b):
                    raise AnalysisError("purge stage call under a branch in %s" % fn.path)
                events.append((order[b], 10 ** 6, "call", cid, None, fn.loc(t.get("ln"))))
            elif cid in prog.fns and prog.fns[cid].path.rsplit("::", 1)[0] == fn.path.rsplit("::", 1)[0] and t["args"] and \
                    (leaf_name(strip(sc.operand(t["args"][0]))) or "").startswith(arg_name + ".") and (prog.fns[cid].raw.get("inputs") or [""])[0].startswith("&mut std::vec::Vec"):
                # a helper of this module that filters the vector it is given in place (`retain_used(&mut model.x, &used, |v| v.id)`): instantiated here
                h = prog.fns[cid]
                hsc = Scope(prog, h, argmap={i2 + 1: sc.operand(a) for i2, a in enumerate(t["args"])})
                rets = [(b2, t2) for b2, t2 in h.body.calls() if short_callee(callee_name(t2) or "") == "retain" and "vec::Vec" in (callee_name(t2) or "")]
                writes_other = [1 for b2, i2, s2 in h.body.statements() if s2["s"] == "assign" and not isinstance(s2["p"], int) and pl_local(s2["p"]) == 1 and "*" in pl_proj(s2["p"])]
                if len(rets) != 1 or writes_other or h.body.loops() or leaf_name(strip(hsc.operand(rets[0][1]["args"][0]))) != leaf_name(strip(sc.operand(t["args"][0]))):
                    raise AnalysisError("purge helper %s is not a single in-place `retain` of its first argument: not read by this rule" % h.path.split("::")[-1])
                if branch_conditions(body, b) or branch_conditions(h.body, rets[0][0]):
                    raise AnalysisError("purge helper call under a branch in %s" % fn.path)
                kids = [ch for (b3, t3, ch) in hsc.children() if b3 == rets[0][0]]
                if len(kids) != 1 or len(returned_nodes(kids[0].body)) != 1:
                    raise AnalysisError("purge helper %s: retain predicate not readable" % h.path.split("::")[-1])
                pred = beta(prog, kids[0]._rw(returned_nodes(kids[0].body)[0][1]))
                ln_ = leaf_name(strip(sc.operand(t["args"][0])))
                events.append((order[b], 10 ** 6, "pred", ln_[len(arg_name) + 1:], strip(pred), fn.loc(t.get("ln"))))
            elif cid in prog.fns and (prog.fns[cid].raw.get("inputs") or [""])[0] == "&mut types::model::Model" and prog.fns[cid].path.startswith("bemodel::purge::"):
                if ctx is not None:
                    stale_snapshots(ctx, prog, fn, sc, arg_name)       # positive evidence, if any, is recorded before giving up on the rest
                raise AnalysisError("purge stage %s takes %s: stages that receive precomputed reference sets (or other extra arguments) are not read by this rule; "
                                    "which set protects which collection, and when it was collected, cannot be decided" % (prog.fns[cid].path.split("::")[-1], prog.fns[cid].raw.get("inputs")))
            else:
                # any other call receiving &mut model or a &mut field of it
                for a in t["args"]:
                    n = strip(sc.operand(a))
        # mutable borrows of model fields handed elsewhere are caught by the write-set rule below
    events.sort(key=lambda e: (e[0], e[1]))
    return events


def flatten(prog, fn, depth=0, ctx=None):
    out = []
    for ev in stage_events(prog, fn, ctx=ctx):
        if ev[2] == "call":
            if depth > 3:
                raise AnalysisError("purge call nesting too deep")
            out.extend(flatten(prog, prog.fns[ev[3]], depth + 1, ctx=ctx))
        else:
            out.append((fn,) + ev[2:] + ((ev[0], ev[1]),))
    return out


def analyse_filter(prog, fn, kind, target, rhs):
    """returns dict(source, adaptors, pred) for a write `model.target = <chain>` or retain(closure)"""
    if kind == "pred":
        return {"source": "model." + target, "adaptors": ["retain"], "pred": strip(rhs), "why": None}
    if kind == "retain":
        closure = rhs
        source = "model." + target
        adaptors = ["retain"]
        chain_src_elem = ("elem", source, ())
    else:
        n = strip(rhs)
        ch = iter_chain(n)
        source = ch.source_name()
        adaptors = ch.adaptors()
        filters = [c for (a, c) in ch.steps if a == "filter"]
        if len(filters) != 1:
            return {"source": source, "adaptors": adaptors, "pred": None, "why": "expected exactly one filter, found %d" % len(filters)}
        closure = strip(filters[0])
        chain_src_elem = ("elem", source or "?", ())
    cid = closure_id_of(closure)
    if (not cid or cid not in prog.fns) and fn_item_of(strip(closure)):
        # a named predicate function: `retain(has_length)`
        ids = prog.callee_index().get(fn_item_of(strip(closure)), ()) or {f.id for f in prog._by_path.get(fn_item_of(strip(closure)), [])}
        if len(ids) == 1:
            pf = prog.fns[next(iter(ids))]
            rns = returned_nodes(pf.body)
            if len(rns) == 1 and pf.body.argc == 1:
                psc = Scope(prog, pf, argmap={1: chain_src_elem})
                return {"source": source, "adaptors": adaptors, "pred": strip(psc._rw(rns[0][1])), "why": None}
    if not cid or cid not in prog.fns:
        return {"source": source, "adaptors": adaptors, "pred": None, "why": "filter predicate is not a closure"}
    cfn = prog.fns[cid]
    sc = Scope(prog, cfn, closure_env(closure), chain_src_elem)
    rns = returned_nodes(cfn.body)
    if len(rns) != 1:
        return {"source": source, "adaptors": adaptors, "pred": None, "why": "predicate with %d return sites" % len(rns)}
    pred = strip(sc._rw(rns[0][1]))
    return {"source": source, "adaptors": adaptors, "pred": pred, "why": None}


def set_prov(prog, fn, node, depth=0):
    """element provenance of a used-id set: an iterator chain collected in place, or a set local filled with insert/extend in loops"""
    n = strip(node)
    if n[0] == "call":
        inl = inline_helper(prog, n)
        if inl is not None and depth < 3:
            return set_prov(prog, fn, inl, depth + 1)
        ids = prog.callee_index().get(n[1], ())
        if len(ids) == 1 and depth < 3 and prog.fns[next(iter(ids))].path.rsplit("::", 1)[0] == fn.path.rsplit("::", 1)[0]:
            # a helper of the module that builds and returns the set: its returned local, with the parameters bound
            h = prog.fns[next(iter(ids))]
            hsc = Scope(prog, h, argmap={i + 1: a for i, a in enumerate(n[2])})
            rns = returned_nodes(h.body)
            if len(rns) == 1:
                return local_set_prov(prog, h, hsc, strip(hsc._rw(rns[0][1])), depth + 1)
    if n[0] == "var":
        return local_set_prov(prog, fn, Scope(prog, fn), n, depth)
    return elem_prov(prog, n)


def local_set_prov(prog, fn, sc, n, depth):
    if n[0] != "var":
        return set_prov(prog, fn, n, depth + 1) if n[0] == "call" else elem_prov(prog, n)
    l = n[1]
    out = set()
    body = sc.body
    for d in body.defs().get(l, []):
        v = strip(sc.rvalue(d[3]["rv"])) if d[0] == "st" else strip(sc._rw(sc.eb.call_node(d[2], d[1])))
        if v[0] == "call" and short_callee(v[1]) in ("new", "default", "with_capacity") and not v[2]:
            continue
        if v[0] == "call" and short_callee(v[1]) in ("new", "default", "with_capacity"):
            continue
        out |= elem_prov(prog, v)
    for b, t in body.calls():
        nm = short_callee(callee_name(t) or "")
        if nm in ("insert", "push", "extend") and t["args"]:
            recv = strip(sc.operand(t["args"][0]))
            if recv[0] == "var" and recv[1] == l:
                a = strip(beta(prog, sc.operand(t["args"][-1])))
                if nm == "extend":
                    if a[0] == "call":
                        inl = inline_helper(prog, a)
                        a = strip(inl) if inl is not None else a
                    try:
                        out |= {x[:-2] if x.endswith("[]") and False else x for x in elem_prov(prog, a)}
                    except UnknownTransfer:
                        out |= value_prov(prog, a)
                else:
                    out |= value_prov(prog, a)
    # the values inserted are ids (Option payloads and array elements are transparent): drop the element marker of one-element options
    return {x[:-2] if x.endswith("@Some.0[]") else x for x in out}


def restricting_adaptors(prog, fn, node, depth=0):
    """adaptors in the chain(s) that build a used-id set which drop referring elements: a reference held by ANY element keeps its target, so the set has
    to be collected from all of them"""
    RESTRICT = ("filter", "take", "skip", "take_while", "skip_while", "step_by", "nth", "find", "first", "last")
    n = strip(node)
    out = []
    if n[0] == "var":
        sc = Scope(prog, fn)
        for d in sc.body.defs().get(n[1], []):
            v = strip(sc.rvalue(d[3]["rv"])) if d[0] == "st" else strip(sc._rw(sc.eb.call_node(d[2], d[1])))
            if depth < 3:
                out += restricting_adaptors(prog, fn, v, depth + 1)
        return out
    for x in walk(n):
        if x[0] == "call" and short_callee(x[1]) in RESTRICT and x[2] and ("iter" in x[1].lower() or "Iterator" in x[1]):
            out.append(short_callee(x[1]))
    return out


def run_on(ctx, root, rule_prefix="c16", arg="model"):
    prog = ctx.prog
    events = flatten(prog, root, ctx=ctx)
    stages = [e for e in events if e[1] in ("write", "retain", "pred")]
    purge_targets = {e[2] for e in stages}
    # spec: target -> set of referrer value names
    want = {}
    for (owner, field, target, opt) in REFS:
        want.setdefault(target, set()).add("%s.%s[]%s" % (arg, owner, field))
    written_before = []
    results = []
    for idx, (fn, kind, target, rhs, loc, pos) in enumerate(stages):
        key = "%s.stage|%s" % (rule_prefix, target)
        info = analyse_filter(prog, fn, kind, target, rhs)
        problems = []
        if info["source"] != "%s.%s" % (arg, target):
            problems.append("retained collection is built from %s, not from %s.%s itself" % (info["source"], arg, target))
        bad = [a for a in info["adaptors"] if a not in ORDER_KEEPING and a != "retain"]
        if bad:
            problems.append("adaptors %s may not keep the relative order" % bad)
        if info["adaptors"].count("collect") > 1:
            problems.append("intermediate collect in the retain chain (order may be lost)")
        if problems:
            ctx.violation(rule_prefix + ".retain", key.replace(".stage", ".retain"), "; ".join(problems), loc)
        else:
            ctx.ok(rule_prefix + ".retain", key.replace(".stage", ".retain"), "model.%s = model.%s.iter().cloned().filter(p).collect() (order kept)" % (target, target), loc)
        pred = info["pred"]
        if pred is None:
            ctx.violation(rule_prefix + ".used", key.replace(".stage", ".used"), "cannot read the retain predicate: %s" % info["why"], loc)
            continue
        if target == "thermal_bridges":
            # |l| > eps
            okb = (pred[0] == "bin" and pred[1] == "Gt" and strip(pred[2])[0] == "call" and short_callee(strip(pred[2])[1]) == "abs"
                   and leaf_name(strip(strip(pred[2])[2][0])) == "%s.thermal_bridges[].l" % arg and strip(pred[3])[0] == "k")
            if okb:
                eps = float(strip(pred[3])[1])
                if 0 <= eps <= 1e-6:
                    ctx.ok(rule_prefix + ".bridges", rule_prefix + ".bridges|zero-length", "bridges kept iff |l| > %g" % eps, loc)
                else:
                    ctx.violation(rule_prefix + ".bridges", rule_prefix + ".bridges|zero-length", "zero-length threshold is %g (> 1e-6): bridges of real length would be purged" % eps, loc)
            else:
                ctx.violation(rule_prefix + ".bridges", rule_prefix + ".bridges|zero-length", "bridge retain predicate is %s, expected |l| > eps" % show(pred)[:120], loc)
            continue
        # membership predicate
        if not (pred[0] == "call" and short_callee(pred[1]) == "contains" and len(pred[2]) == 2):
            ctx.violation(rule_prefix + ".used", key.replace(".stage", ".used"), "retain predicate is %s, expected used_ids.contains(&item.id)" % show(pred)[:120], loc)
            continue
        tested = leaf_name(strip(pred[2][1]))
        try:
            used = set_prov(prog, fn, pred[2][0])
        except UnknownTransfer as e:
            raise AnalysisError("C16: %s in stage %s (%s)" % (e, target, loc))
        exp = want.get(target)
        if exp is None:
            ctx.violation(rule_prefix + ".used", key.replace(".stage", ".used"), "stage purges model.%s which the reference graph does not list as a referenced collection" % target, loc)
            continue
        problems = []
        restr = restricting_adaptors(prog, fn, pred[2][0])
        if restr:
            problems.append("the ids in use are collected from only some of the referring elements (%s on the way): what the others refer to is removed"
                            % ", ".join(restr))
        if tested != "%s.%s[].id" % (arg, target):
            problems.append("membership is tested on %s, expected the item's own id" % tested)
        if used != exp:
            missing = sorted(exp - used)
            extra = sorted(used - exp)
            if missing:
                problems.append("used set misses references %s (items referenced only through them would be removed)" % missing)
            if extra:
                problems.append("used set also contains %s" % extra)
        if problems:
            ctx.violation(rule_prefix + ".used", key.replace(".stage", ".used"), "; ".join(problems), loc)
        else:
            ctx.ok(rule_prefix + ".used", key.replace(".stage", ".used"), "kept iff id in {%s}" % ", ".join(sorted(used)), loc)
        # order: collections read must not be purged later, and if purged at all, purged before this stage
        reads = {u.split("[]")[0][len(arg) + 1:] for u in used}
        for r in sorted(reads):
            okey = "%s.order|%s<-%s" % (rule_prefix, target, r)
            if r in purge_targets:
                posl = [i for i, e in enumerate(stages) if e[2] == r]
                same_fn_late = False
                setn = strip(pred[2][0])
                if setn[0] == "call":
                    rpo_index = {b: i for i, b in enumerate(fn.body.rpo())}
                    cpos = rpo_index.get(setn[3], -1)
                    for i in posl:
                        if stages[i][0] is fn and stages[i][5][0] >= cpos:
                            same_fn_late = True   # the used set is collected before model.r is purged
                if all(p < idx for p in posl) and not same_fn_late:
                    ctx.ok(rule_prefix + ".order", okey, "model.%s is purged before it is read to protect model.%s" % (r, target), loc)
                else:
                    ctx.violation(rule_prefix + ".order", okey,
                                  "model.%s is read to decide what model.%s keeps, but is itself purged only later: items referenced only by removed %s survive (second purge removes more)" % (r, target, r), loc)
            else:
                ctx.ok(rule_prefix + ".order", okey, "model.%s is never purged" % r, loc)
        results.append((target, used))
    return stages, purge_targets


def run(ctx):
    prog = ctx.prog
    root = prog.fn_by_path("bemodel::purge::purge_unused")
    stages, targets = run_on(ctx, root)
    ctx.floor("c16", "purge stages", len(stages), 12)
    # every collection the statement names is purged exactly once
    want_targets = {"spaces", "thermal_bridges", "cons.wallcons", "cons.wincons", "cons.materials", "cons.glasses", "cons.frames",
                    "loads", "thermostats", "schedules.year", "schedules.week", "schedules.day"}
    for t in sorted(want_targets):
        n = sum(1 for s in stages if s[2] == t)
        if n == 1:
            ctx.ok("c16.targets", "c16.targets|%s" % t, "purged by exactly one stage", root.loc())
        else:
            ctx.violation("c16.targets", "c16.targets|%s" % t, "model.%s is purged by %d stages, expected 1" % (t, n), root.loc())
    for t in sorted(targets - want_targets):
        ctx.violation("c16.targets", "c16.targets|%s" % t, "model.%s is written by purge_unused but the statement does not list it (walls, windows, shades must never be touched)" % t, root.loc())
    # nothing else is written: any &mut borrow of a model field other than via the stage writes
    write_other = []
    seen = ctx.cg.reachable([root.id])
    for fid in seen:
        fn = prog.fns[fid]
        if not fn.path.startswith("bemodel::purge::"):
            continue
        b = fn.body
        for bb, i, s in b.statements():
            if s["s"] == "assign" and s["rv"]["r"] == "ref" and s["rv"]["mut"]:
                f = model_field_of_place(s["rv"]["p"], b)
                if f is not None and fn.raw.get("inputs") == ["&mut types::model::Model"]:
                    if only_retain_receiver(b, s["p"], 0, prog):
                        continue     # `model.x.retain(..)`: a purge stage, its predicate is examined by c16.used
                    write_other.append((fn, f, s.get("ln")))
    for (fn, f, ln) in write_other:
        # &mut model.field: allowed only as receiver of retain (handled as stage) -- otherwise flag
        ctx.violation("c16.writes", "c16.writes|%s|%s" % (prog.display(fn), f), "mutable borrow of model.%s outside the retain idiom" % f, fn.loc(ln))
    ctx.ok("c16.writes", "c16.writes|scan", "no other mutable access to the model in %d purge bodies" % sum(1 for f in seen if prog.fns[f].path.startswith("bemodel::purge::")), root.loc())


def only_retain_receiver(body, place, depth=0, prog=None):
    """is the &mut reference stored in `place` used only to filter a vector in place - as the receiver of Vec::retain or as the vector handed to
    a retain helper of the purge module - possibly through reborrows?  Shared reborrows (reads) are harmless."""
    from ..dataflow import uses_of
    from ..mir import pl_local, callee_name, callee_id
    if not isinstance(place, int) or depth > 4:
        return False
    uses = uses_of(body, place)
    if not uses:
        return False
    for u in uses:
        if u[0] == "term":
            t = u[2]
            first = t["t"] == "call" and t["args"] and isinstance(t["args"][0], dict) and pl_local(t["args"][0].get("m", t["args"][0].get("c", -1))) == place
            if first and short_callee(callee_name(t) or "") == "retain" and "Vec" in (callee_name(t) or ""):
                continue
            if first and prog is not None and callee_id(t) in prog.fns and prog.fns[callee_id(t)].path.startswith("bemodel::purge::") and \
                    (prog.fns[callee_id(t)].raw.get("inputs") or [""])[0].startswith("&mut std::vec::Vec"):
                continue       # the helper's shape (a single in-place retain of its first argument) is established by stage_events
            return False
        s = u[3]
        if s["rv"]["r"] == "ref" and not s["rv"].get("mut"):
            continue           # a shared reborrow: read only
        if s["rv"]["r"] in ("ref", "use") and isinstance(s["p"], int) and only_retain_receiver(body, s["p"], depth + 1, prog):
            continue
        return False
    return True


def run_fixture(ctx):
    prog = ctx.prog
    root = prog.fn_by_path("poscontrol::c16_purge")
    from ..spec import refgraph
    saved = list(refgraph.REFS)
    try:
        import ctecheck.rules.c16 as me
        me.REFS = [("items", ".parent", "parents", False), ("items", ".other", "parents", True)]
        run_on(ctx, root, "c16", arg="model")
    finally:
        me.REFS = saved
