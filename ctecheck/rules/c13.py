"""C13 - Ray casting (partial): construction terminates and is total; boxes contain their corners; box-before-polygon."""
import re
from ..exprs import ExprBuilder, Normalizer
from .. import tables as TB
from ..cfgq import Scope, returned_nodes, iter_chain
from ..dataflow import consumption
from ..exprs import strip, short_callee, show, leaf_name, walk
from ..facts import AnalysisError
from ..mir import callee_name, pl_local
from ..panics import Inventory, assign_keys
from ._totality import report_sites, report_loops, sanitize
from ..spec.triage import C14_EXCEPTIONS, C14_LOOP_EXCEPTIONS, CUSTOM_ITER_OK

ID = "C13"
LEVEL = "other"
RULE_TEXT = ("loops and may-panic sites of the BVH code (construction and traversal), the node-list construction sites, the six min/max accumulators of "
             "WallGeom::aabb and AABB::join, and the order box test -> polygon test in Occluder::intersects")
EXPLANATION = ("D1 every loop of the BVH construction/traversal is pop-only, iterator-driven or a worklist whose pushes are dominated by a progress test; "
               "D2 no unguarded may-panic site under the premise 'elements may be empty', the node-list construction sites have the shape the "
               "consumer relies on, and every entry that carries elements is consumed (the entries the consumer's loop leaves behind carry none, or are taken after it); D3 bounding boxes are built by min/max over every polygon point with matching coordinates; D4 a box miss returns None "
               "before the polygon is tested and the polygon test's answer is returned")
DECIDED = ["D1 construction terminates", "D2 construction is total on every size including none", "D3 boxes contain their corners (accumulator shape)", "D4 box test before polygon test", "D5 reveal surfaces span wall plane to window plane on the four edges, for every wall tilt (exact symbolic geometry)", "D6 no element list is dropped while the node list is generated (obstacle conservation)", "D7 the box test is the slab method (max-of-mins / min-of-maxes, two miss conditions)", "D8 point_in_poly classifies the closing vertex and the loop vertices with the same comparison",
           "D9 the side test of the crossing-number algorithm is the cross product (v_i - p) x (v_j - v_i); nothing sits between the box test and its `?`"]
UNDECIDED = ["accelerated answer = exhaustive answer beyond node-list protocol, obstacle conservation and the slab formula (e.g. the traversal order of PreorderIter)", "exact ray/plane crossing geometry of Ray::intersects_with_data"]
ASSUMPTIONS = ["f32::min/max semantics; nalgebra point construction"]
LEVEL_TEXT = ("Partial: necessary conditions of the ray-casting property are decided from the code's shape - the build loops terminate (worklist pushes are "
              "guarded by a both-halves-non-empty test), no construct in the build can panic for any element list including the empty one, every bounding "
              "box is the coordinate-wise min/max over all points of its polygon (or of two boxes), the occluder tests its box before its polygon, no element "
              "list is dropped on a normal path of the node-list generation, the first entry of the node list is one the consumer takes, the box test is the slab "
              "formula, the crossing-number flags are consistent, and the four reveal rectangles are where the statement puts them as polynomial identities in "
              "sin/cos of the wall tilt. The remaining core of the statement (traversal = exhaustive scan, exact ray/plane crossing) is NOT decided by this family.")
LEVEL_NOTE = "Trusted: rustc MIR; the producer/consumer reasoning written next to the BVH exceptions in ctecheck/spec/triage.py."
TECHNIQUE = "loop classification + may-panic inventory + def-use expression queries on MIR + drop-site (ownership) audit + normalised formula comparison + exact symbolic geometry over sin/cos of the tilt"
FIXTURE_EXPECT = ["c13.box"]


def check_box_accumulators(ctx, fn, rule="c13.box", label="WallGeom::aabb", src_prefix=None):
    """min_k/max_k accumulators: var = min(var, p.k) / max(var, p.k); all points visited"""
    prog = ctx.prog
    sc = Scope(prog, fn)
    b = fn.body
    found = {}
    for l, name in sorted(b.names.items()):
        updates = []
        for d in b.defs().get(l, []):
            if d[0] == "call":
                t = d[2]
                nm = short_callee(callee_name(t) or "")
                if nm in ("min", "max") and len(t["args"]) == 2:
                    a0 = strip(sc.operand(t["args"][0]))
                    a1 = strip(sc.operand(t["args"][1]))
                    updates.append((nm, a0, a1, t.get("ln")))
            elif isinstance(d[3]["p"], int):
                nn = strip(sc.rvalue(d[3]["rv"]))
                if nn[0] == "call" and short_callee(nn[1]) in ("min", "max") and len(nn[2]) == 2:
                    updates.append((short_callee(nn[1]), strip(nn[2][0]), strip(nn[2][1]), d[3].get("ln")))
        if updates:
            found[name] = (l, updates)
    n = 0
    for name, (l, updates) in found.items():
        for (fnm, a0, a1, ln) in updates:
            n += 1
            key = "%s|%s|%s" % (rule, label, name)
            self_ref = a0 if (a0[0] == "var" and a0[1] == l) else (a1 if (a1[0] == "var" and a1[1] == l) else None)
            other = a1 if self_ref is a0 else a0
            problems = []
            if self_ref is None:
                problems.append("accumulator is not updated from its own previous value")
            on = leaf_name(other) or show(other)
            coord = on.rsplit(".", 1)[-1] if "." in on else "?"
            want_fn = "min" if name.startswith("min") else ("max" if name.startswith("max") else None)
            want_coord = name[-1]
            if want_fn and fnm != want_fn:
                problems.append("`%s` is updated with f32::%s" % (name, fnm))
            if want_coord in "xyz" and coord != want_coord:
                problems.append("`%s` is updated from coordinate .%s" % (name, coord))
            # all points visited: element of a chain without filtering adaptors
            elems = [x for x in walk(other) if x[0] == "elem"]
            if elems:
                bad = [a for a in elems[0][2] if a not in ("iter", "into_iter", "map", "copied", "cloned")]
                if bad:
                    problems.append("points are taken through %s: not every polygon point is visited" % bad)
            if problems:
                ctx.violation(rule, key, "; ".join(problems) + " (a box built this way may not contain all corners)", fn.loc(ln))
            else:
                ctx.ok(rule, key, "%s = %s(%s, p.%s) over every point" % (name, fnm, name, coord), fn.loc(ln))
    return found


def check_box_result(ctx, fn, rule, label, expect):
    """returned AABB aggregate: min/max built from the expected leaves in x,y,z order; expect(field, i) -> predicate on node"""
    prog = ctx.prog
    sc = Scope(prog, fn)
    done = False
    for bb, rn in returned_nodes(fn.body):
        n = strip(sc._rw(rn))
        if n[0] != "agg" or not n[1].endswith("AABB"):
            continue
        done = True
        for field in ("min", "max"):
            v = n[3][n[2].index(field)]
            comps = None
            for x in walk(v):
                if x[0] == "agg" and x[1] == "array" and len(x[3]) == 3 and all(strip(c)[0] != "agg" for c in x[3]):
                    comps = [strip(c) for c in x[3]]
            key = "%s|%s|result.%s" % (rule, label, field)
            if comps is None:
                raise AnalysisError("cannot read the %s point of the AABB returned by %s" % (field, fn.path))
            probs = []
            for i, c in enumerate(comps):
                why = expect(field, "xyz"[i], c)
                if why:
                    probs.append(why)
            if probs:
                ctx.violation(rule, key, "; ".join(probs), fn.loc())
            else:
                ctx.ok(rule, key, "AABB.%s = [%s]" % (field, ", ".join(show(c)[:40] for c in comps)), fn.loc())
    if not done:
        raise AnalysisError("no AABB literal returned by %s" % fn.path)


class MinMaxNormalizer(Normalizer):
    """min/max are associative and commutative: nested calls are flattened and their arguments ordered, so that every spelling of one slab formula compares equal"""

    def fatom(self, fname, args):
        if fname in ("min", "max"):
            flat = []
            for a in args:
                inner = None
                if a.d.is_const() and len(a.n.t) == 1:
                    (m, cf), = a.n.t.items()
                    if cf == a.d.const_value() and len(m) == 1 and m[0][1] == 1:
                        for (f1, a1, id1) in self.fatoms:
                            if id1 == m[0][0] and f1 == fname:
                                inner = a1
                flat.extend(inner if inner is not None else [a])
            flat.sort(key=str)
            args = flat
        return Normalizer.fatom(self, fname, args)


def check_slab_test(ctx, prog, rule="c13.slab"):
    """AABB::intersects is the slab test: with t_lo/t_hi the ray parameters at the two faces of each axis,
         t_enter = max over axes of min(t_lo, t_hi),   t_leave = min over axes of max(t_lo, t_hi),
       a miss iff t_leave < 0 (box behind the origin) or t_enter > t_leave; otherwise a hit at t_enter"""
    fs = [f for f in prog.fns.values() if f.path.endswith("Intersectable>::intersects") and "aabb::AABB" in f.path]
    ctx.require(len(fs) == 1, "AABB::intersects not found")
    f = fs[0]
    sc = Scope(prog, f)
    lm = {}
    for ax in "xyz":
        lm["self.min." + ax] = "a" + ax
        lm["self.max." + ax] = "b" + ax
        lm["ray.origin." + ax] = "o" + ax
        lm["ray.dir." + ax] = "d" + ax
    nz = MinMaxNormalizer(lm, {"min": "min", "max": "max"}, strict=False)
    T = {ax: ("(a%s - o%s) / d%s" % (ax, ax, ax), "(b%s - o%s) / d%s" % (ax, ax, ax)) for ax in "xyz"}
    tenter = nz.ref("max(max(min(%s, %s), min(%s, %s)), min(%s, %s))" % (T["x"] + T["y"] + T["z"]))
    tleave = nz.ref("min(min(max(%s, %s), max(%s, %s)), max(%s, %s))" % (T["x"] + T["y"] + T["z"]))
    zero = nz.ref("0")
    bad = []
    undecided = []
    for behind, crossed in ((True, False), (True, True), (False, True), (False, False)):
        def atom_value(n_):
            n_ = strip(n_)
            if n_[0] == "bin" and n_[1] in ("Lt", "Le", "Gt", "Ge"):
                l_, r_ = nz.code(strip(n_[2])), nz.code(strip(n_[3]))
                op = n_[1]
                if op in ("Gt", "Ge"):
                    l_, r_ = r_, l_          # l < r
                if l_.equals(tleave) and r_.equals(zero):
                    return "1" if behind else "0"
                if l_.equals(tleave) and r_.equals(tenter):
                    return "1" if crossed else "0"
            return None
        r = TB.eval_return(sc, atom_value)
        if isinstance(r, tuple) and r and r[0] == "stuck":
            undecided.append(r[1])
            continue
        r = strip(r)
        hit = r[0] == "agg" and r[1].endswith("Some")
        want_hit = not behind and not crossed
        if hit != want_hit:
            bad.append("box %s, t_enter %s t_leave -> %s" % ("behind the origin" if behind else "ahead", ">" if crossed else "<=", "hit" if hit else "miss"))
        elif hit and not nz.code(strip(r[3][0])).equals(tenter):
            bad.append("a hit is reported at %s instead of t_enter" % str(nz.code(strip(r[3][0])))[:80])
    helper_calls = [nm for nm in re.findall(r"([A-Za-z_][\w:]*)\(", undecided[0]) if nm.split("::")[-1] not in ("min", "max", "abs", "index", "deref", "clone", "as_ref", "borrow")] if undecided else []
    if undecided and helper_calls:
        # the test goes through a helper of the workspace this rule does not read (per-axis crossing computed elsewhere): cannot decide
        raise AnalysisError("AABB::intersects branches on %s: written through helpers this rule cannot read" % undecided[0][:160])
    if undecided:
        # the tests of the function are not the two questions of the slab method on the quantities of the reference
        ctx.violation(rule, rule + "|AABB::intersects", "the box test branches on %s, which is neither `t_leave < 0` nor `t_enter > t_leave` with t_enter = max_axes min(t_lo, t_hi) and "
                      "t_leave = min_axes max(t_lo, t_hi) over the three axes: a box can be reported as missed by a ray that crosses it, and the obstacles inside are then skipped"
                      % undecided[0][:200], f.loc())
    elif bad:
        ctx.violation(rule, rule + "|AABB::intersects", "the box test differs from the slab method: %s" % "; ".join(bad[:3]), f.loc())
    else:
        ctx.ok(rule, rule + "|AABB::intersects", "slab test: miss iff t_leave < 0 or t_enter > t_leave, with t_enter/t_leave the max-of-mins / min-of-maxes over the three axes; hit at t_enter",
               f.loc())


def check_point_in_poly(ctx, prog, rule="c13.pip"):
    """crossing-number test: the flag "this vertex is on or above the horizontal through the point" is computed once for the closing vertex before the loop and once per
    vertex inside it; both must be the same comparison (same operator against the same coordinate), otherwise an edge whose end is level with the point is counted as
    crossing on one side and not on the other, and points level with a corner are classified wrongly"""
    fs = [f for f in prog.fns.values() if f.path.endswith("raytracing::ray::point_in_poly")]
    ctx.require(len(fs) == 1, "point_in_poly not found")
    f = fs[0]
    body = f.body
    eb = ExprBuilder(body)
    nflags = 0
    for l, nm in sorted(body.names.items()):
        if body.local_ty(l) != "bool":
            continue
        forms = []
        for d in body.defs().get(l, []):
            if d[0] != "st":
                continue
            n = strip(eb.rvalue(d[3]["rv"]))
            if n[0] == "bin" and n[1] in ("Lt", "Le", "Gt", "Ge"):
                a, b = leaf_name(strip(n[2])) or show(strip(n[2])), leaf_name(strip(n[3])) or show(strip(n[3]))
                forms.append((n[1], a.rsplit(".", 1)[-1], b, d[3].get("ln")))
        if len(forms) < 2:
            continue
        nflags += 1
        ops = sorted({(op, coord, rhs) for op, coord, rhs, _ in forms})
        key = "%s|vertex-flag|%s" % (rule, nm)
        if len(ops) == 1:
            ctx.ok(rule, key, "`%s` is `vertex.%s %s %s` both for the closing vertex and inside the loop" % (nm, ops[0][1], {"Ge": ">=", "Gt": ">", "Le": "<=", "Lt": "<"}[ops[0][0]], ops[0][2]),
                   f.loc(forms[0][3]))
        else:
            ctx.violation(rule, key, "`%s` classifies the closing vertex and the loop's vertices with different comparisons (%s): a vertex exactly level with the point is \"above\" in one "
                          "and \"below\" in the other, so the crossing count of a point level with a corner is wrong" % (nm, ", ".join("%s %s %s" % (c, o, r) for o, c, r in ops)), f.loc(forms[0][3]))
    ctx.floor(rule, "loop-carried vertex flags in point_in_poly", nflags, 1)


def check_crossing_side(ctx, prog, rule="c13.pip"):
    """crossing-number test, second half: an edge (v_i -> v_j) that straddles the horizontal through the point counts when the point is on one side of it, i.e.
    by the sign of the cross product (v_i - p) x (v_j - v_i) = (x_i - x)(y_j - y_i) - (y_i - y)(x_j - x_i).  The comparison in point_in_poly is brought to the
    form `lhs - rhs` and compared, up to sign, with that polynomial: a coordinate of the wrong vertex (v_j.y for v_i.y) leaves rectangles right and breaks every
    slanted edge."""
    fs = [f for f in prog.fns.values() if f.path.endswith("raytracing::ray::point_in_poly")]
    ctx.require(len(fs) == 1, "point_in_poly not found")
    f = fs[0]
    sc = Scope(prog, f)
    cands = []
    for b in range(f.body.n):
        for st in f.body.blocks[b]["st"]:
            if st["s"] == "assign" and st["rv"]["r"] == "bin" and st["rv"]["op"] in ("Ge", "Le", "Gt", "Lt"):
                n = strip(sc.rvalue(st["rv"]))
                if any(strip(x)[0] == "bin" and strip(x)[1] == "Mul" for x in (n[2], n[3])):
                    cands.append((n, st.get("ln")))
    if len(cands) != 1:
        raise AnalysisError("point_in_poly: the side test of the crossing edge (a comparison of two products) was not found (%d candidates)" % len(cands))
    n, ln = cands[0]
    lm = {"poly[].x": "xi", "poly[].y": "yi", "v_j.x": "xj", "v_j.y": "yj", "pt.x": "x", "pt.y": "y", "v_i.x": "xi", "v_i.y": "yi"}
    nz = Normalizer(lm, {}, strict=False)
    diff = nz.code(("bin", "Sub", n[2], n[3]))
    ref = nz.ref("(yi - y)*(xj - xi) - (xi - x)*(yj - yi)")
    key = rule + "|crossing-side"
    if nz.unknown:
        raise AnalysisError("point_in_poly: the side test uses quantities this rule cannot name: %s" % sorted(set(nz.unknown))[:4])
    neg = nz.ref("0 - ((yi - y)*(xj - xi) - (xi - x)*(yj - yi))")
    if diff.equals(ref) or diff.equals(neg):
        ctx.ok(rule, key, "the side of a straddling edge is the sign of (v_i - p) x (v_j - v_i)", f.loc(ln))
    else:
        ctx.violation(rule, key, "the side test compares %s with 0; the cross product (v_i - p) x (v_j - v_i) is %s: a coordinate of the wrong vertex - right for axis-parallel "
                      "edges, wrong for slanted ones (triangles, gables)" % (str(diff)[:160], str(ref)[:120]), f.loc(ln))


def check_node_list_conservation(ctx, prog, rule):
    gen = prog.find("energy::raytracing::bvh::BVH::<T>::generate_node_list")
    # conservation of obstacles in the node list: an element list (Vec<T>, Option<Vec<T>>) that generate_node_list owns is moved on - into a work item, a
    # node-list entry, another list (extend/append) or the partition - and never dropped on a normal path; a dropped list is a set of obstacles the tree forgets
    ndrops = 0
    eb_g = ExprBuilder(gen.body)
    cloned = set()
    for b, t in gen.body.calls():
        if short_callee(callee_name(t) or "") in ("clone", "to_vec", "cloned", "to_owned") and t["args"]:
            r_ = strip(eb_g.operand(t["args"][0]))
            if r_[0] in ("var", "arg"):
                cloned.add(r_[1])
    for b in range(gen.body.n):
        blk = gen.body.blocks[b]
        t = blk["term"]
        if t["t"] != "drop" or t.get("p") is None:
            continue
        loc_ = t["p"] if isinstance(t["p"], int) else t["p"]["l"]
        ty = gen.body.local_ty(loc_)
        if not re.search(r"(^|<)std::vec::Vec<T>", ty):
            continue
        ndrops += 1
        if blk.get("cleanup") or loc_ in cloned:
            continue
        nm = gen.body.names.get(loc_, "_%d" % loc_)
        ctx.violation(rule, rule + "|generate_node_list|%s" % nm, "the element list `%s` is dropped on a normal path of generate_node_list: the obstacles it holds at that point "
                      "are in no leaf of the tree, so a ray they block is reported as free" % nm, gen.loc(t.get("ln")))
    ctx.floor(rule, "element-list drop sites (unwind paths) seen in generate_node_list", ndrops, 4)
    if not any(i.rule == rule and i.verdict == "violation" for i in ctx.instances):
        ctx.ok(rule, rule + "|generate_node_list", "every element list is moved on (work item, leaf entry, extend, partition); the %d drops of such lists are all on unwind paths"
               % ndrops, gen.loc())


def check_tree_element_shapes(ctx, prog, rule="c13.protocol"):
    """construction-site shape of every TreeElement generate_node_list pushes (support of the BVH protocol exceptions: build_from_node_list unwraps
    `elements` of a Leaf and `parent` of a pending element)"""
    gen = prog.find("energy::raytracing::bvh::BVH::<T>::generate_node_list")
    sc = Scope(prog, gen)
    for b, i, s in gen.body.statements():
        if s["s"] == "assign" and s["rv"]["r"] == "agg" and s["rv"].get("adt", "").endswith("TreeElement"):
            n_ = sc.rvalue(s["rv"])
            ops = [strip(o) for o in n_[3]]
            ntype = show(ops[1])
            parent, elems = ops[3], ops[4]
            # where is it pushed?
            dest = None
            from ..dataflow import uses_of
            from ..mir import pl_local
            for u in uses_of(gen.body, pl_local(s["p"])):
                if u[0] == "term" and u[2]["t"] == "call" and short_callee(callee_name(u[2]) or "") == "push":
                    dest = leaf_name(strip(sc.operand(u[2]["args"][0])))
            key = rule + "|%s|%s|%s" % (dest, ntype.split("{")[0], "root" if (parent[0] == "agg" and parent[1].endswith("None")) else "child")
            k2 = key
            c = 1
            while any(x.key == k2 for x in ctx.instances):
                c += 1
                k2 = "%s|%d" % (key, c)
            is_some = lambda x: (x[0] == "agg" and x[1].endswith("::Some")) or (x[0] in ("var", "proj", "arg") )
            is_none = lambda x: x[0] == "agg" and x[1].endswith("::None")
            probs = []
            if dest == "pending":
                if not (parent[0] == "agg" and parent[1].endswith("::Some")):
                    probs.append("pending element without Some(parent)")
                if not (elems[0] == "agg" and elems[1].endswith("::Some")):
                    probs.append("pending element without Some(elements)")
            elif dest == "node_list":
                if "Leaf" in ntype and is_none(elems):
                    probs.append("leaf without elements")
                if "Node" in ntype and not is_none(elems):
                    probs.append("inner node carrying elements")
            else:
                probs.append("TreeElement not pushed onto pending/node_list")
            if probs:
                ctx.violation(rule, k2, "; ".join(probs) + ": build_from_node_list unwraps these fields", gen.loc(s.get("ln")))
            else:
                ctx.ok(rule, k2, "TreeElement(%s) parent=%s elems=%s" % (ntype, show(parent)[:20], show(elems)[:20]), gen.loc(s.get("ln")))


def run(ctx):
    prog = ctx.prog
    inv = Inventory(prog, ctx.cg)
    build = prog.find("energy::raytracing::bvh::BVH::<T>::build")
    inter = prog.method("energy::raytracing::bvh::BVH<T>", "Intersectable", "intersects")
    seen = ctx.cg.reachable([build.id, inter.id])
    bvh = lambda f: "raytracing::bvh" in prog.root_of(f).path
    # D1
    n = report_loops(ctx, "c13.loop", prog, seen, bvh, C14_LOOP_EXCEPTIONS, CUSTOM_ITER_OK)
    ctx.floor("c13.loop", "BVH loops", n, 4)
    gen = prog.find("energy::raytracing::bvh::BVH::<T>::generate_node_list")
    # the two partition call sites sit under `len > max_num_elements`
    sc = Scope(prog, gen)
    npart = 0
    for b, t in gen.body.calls():
        if (callee_name(t) or "").endswith("partition_elements_by_centroid"):
            npart += 1
            conds = [(strip(nn), tk) for (_, d, nn, tk) in sc.conditions(b)]
            from ..cfgq import bool_taken

            def implies_more_than_max(nn, tk):
                """`len > max` taken, or `len <= max` not taken (an early return for small lists), with len on either side"""
                if nn[0] != "bin" or nn[1] not in ("Gt", "Le", "Lt", "Ge") or "len(" not in show(nn):
                    return False
                v = bool_taken(tk)
                if v is None:
                    return False
                len_left = "len(" in show(strip(nn[2]))
                op = nn[1] if len_left else {"Gt": "Lt", "Lt": "Gt", "Le": "Ge", "Ge": "Le"}[nn[1]]
                return (op == "Gt" and v is True) or (op == "Le" and v is False)
            ok = any(implies_more_than_max(nn, tk) for nn, tk in conds)
            key = "c13.loop|partition-call|%d" % npart
            if ok:
                ctx.ok("c13.loop", key, "partition is called only with more than max_num_elements elements", gen.loc(t.get("ln")))
            else:
                ctx.violation("c13.loop", key, "partition_elements_by_centroid called without the `len > max_num_elements` guard (division by len = 0 gives NaN centre)", gen.loc(t.get("ln")))
    ctx.floor("c13.loop", "partition call sites", npart, 2)
    # D2
    sites = []
    for fid in sorted(seen):
        fn = prog.fns[fid]
        if not bvh(fn) or fn.raw.get("impl_derived"):
            continue
        for s in inv.sites_of(fn):
            inv.classify(s)
            sites.append(s)
    assign_keys(prog, sites, "c14.panic")    # same keys as C14 (shared exception table)
    ctx.floor("c13.panic", "may-panic sites in the BVH code", len(sites), 15)
    report_sites(ctx, "c14.panic", sites, C14_EXCEPTIONS, {fid: par for fid, par in seen.items() if bvh(prog.fns[fid])})
    check_tree_element_shapes(ctx, prog)
    # producer/consumer agreement on the node list: the consumer pops from the back while `len > c` and then reads only `completed`;
    # unless it also takes what is left, the first c entries the producer pushed are never consumed, so they must carry no elements
    cons = prog.find("energy::raytracing::bvh::BVH::<T>::build_from_node_list")
    csc = Scope(prog, cons)
    keep = None
    loop_blocks = set()
    for h, blks in cons.body.loops().items():
        loop_blocks |= set(blks)
    for b in range(cons.body.n):
        t = cons.body.blocks[b]["term"]
        if t["t"] == "switch" and b in loop_blocks:
            nn = strip(csc.operand(t["d"]))
            if nn[0] == "bin" and nn[1] in ("Gt", "Ge", "Ne") and "len(" in show(nn) and leaf_name(strip(strip(nn[2])[2][0]) if strip(nn[2])[0] == "call" else ("k",)) == "node_list" \
                    and strip(nn[3])[0] == "k":
                c = int(strip(nn[3])[1])
                keep = c if nn[1] in ("Gt", "Ne") else max(c - 1, 0)
        if t["t"] == "switch" and b in loop_blocks:
            nn = strip(csc.operand(t["d"]))
            if nn[0] == "un" and nn[1] == "Not" and "is_empty(node_list" in show(nn):
                keep = 0
    ctx.require(keep is not None, "build_from_node_list: the loop condition on node_list.len() was not found")
    # reads of node_list after the loop (pop / remove / into_iter / index / first / last / drain ..) take the remainder
    after = []
    for b, t in cons.body.calls():
        if b in loop_blocks:
            continue
        nm = short_callee(callee_name(t) or "")
        if nm in ("pop", "remove", "swap_remove", "into_iter", "drain", "first", "last", "index", "get", "iter", "pop_front") and t["args"]:
            if leaf_name(strip(csc.operand(t["args"][0]))) == "node_list" and any(cons.body.dominates(lb, b) for lb in loop_blocks):
                after.append(nm)
    left = 0 if after else keep
    firsts = []
    pushes = []
    for b, t in gen.body.calls():
        if short_callee(callee_name(t) or "") == "push" and t["args"] and leaf_name(strip(sc.operand(t["args"][0]))) == "node_list":
            pushes.append((b, t))
    for (b, t) in pushes:
        if not any(b2 != b and gen.body.dominates(b2, b) for (b2, _) in pushes):
            firsts.append((b, t))
    ctx.require(len(pushes) >= 2 and firsts, "generate_node_list: pushes onto node_list not found")
    for (b, t) in firsts:
        val = strip(sc.operand(t["args"][1]))
        ops = [strip(o) for o in val[3]] if val[0] == "agg" else []
        elems = ops[4] if len(ops) == 5 else None
        ntype = show(ops[1]).split("{")[0] if len(ops) == 5 else "?"
        key = "c13.protocol|first-entry|%s" % ntype.split("::")[-1]
        carries = elems is not None and elems[0] == "agg" and elems[1].endswith("::Some")
        if left >= 1 and carries:
            ctx.violation("c13.protocol", key, "when this is the only entry of the node list (at most max_num_elements obstacles) build_from_node_list never takes it: its loop runs "
                          "while node_list.len() > %d and afterwards only `completed` is read, so the leaf's elements are dropped, the tree has no root and no ray is ever "
                          "reported as blocked - the accelerated answer differs from testing the obstacles one by one for every small obstacle set" % keep, gen.loc(t.get("ln")))
        else:
            ctx.ok("c13.protocol", key, "the entry that can be first in the node list %s" % ("carries no elements" if not carries else "is taken by the consumer after its loop (%s)" % ",".join(after)),
                   gen.loc(t.get("ln")))
    check_node_list_conservation(ctx, prog, "c13.conserve")
    check_slab_test(ctx, prog)
    check_point_in_poly(ctx, prog)
    check_crossing_side(ctx, prog)
    # D5 reveal surfaces of set-back windows (exact symbolic geometry, ctecheck/rules/_reveal.py)
    from ._reveal import check_reveals, check_reveal_frame
    check_reveals(ctx, "c13.reveal", "c13.reveal")
    check_reveal_frame(ctx, "c13.reveal", "c13.reveal")
    # D3: who builds boxes.  The accumulator shape is decided for WallGeom::aabb and AABB::join (below); AABB::new and Default only store
    # their arguments.  Any other function that constructs an AABB is a box constructor this rule has not read: cannot decide (exit 2).
    from .. import support as S
    unknown, few = S.box_constructors(prog)
    for (m, k_, loc_) in few:
        ctx.violation("c13.box", "c13.box|corners|%s" % m, S.FEW_CORNERS_TEXT % (m.split("::")[-1], k_), loc_)
    if unknown:
        raise AnalysisError("bounding boxes are also built by %s: a box constructor whose min/max structure this rule has not read (only WallGeom::aabb and "
                            "AABB::join are decided); 'boxes contain their corners' cannot be decided for it" % unknown)
    ctx.ok("c13.box", "c13.box|constructors", "boxes are built only by WallGeom::aabb, AABB::join (both decided below), AABB::new and Default", None)
    aabb = prog.method("types::opaques::WallGeom", "Bounded", "aabb")
    found = check_box_accumulators(ctx, aabb, label="WallGeom::aabb")
    ctx.floor("c13.box", "box accumulators", len(found), 6)
    names = {l: nme for nme, (l, _) in found.items()}

    def exp_aabb(field, coord, c):
        want = "%s_%s" % (field, coord)
        if c[0] == "var" and c[2] == want:
            return None
        return "AABB.%s.%s is built from `%s`, expected `%s`" % (field, coord, show(c)[:30], want)
    check_box_result(ctx, aabb, "c13.box", "WallGeom::aabb", exp_aabb)
    join = prog.method("raytracing::aabb::AABB", None, "join")

    def exp_join(field, coord, c):
        fn_ = "min" if field == "min" else "max"
        if c[0] == "call" and short_callee(c[1]) == fn_ and len(c[2]) == 2:
            names_ = sorted(leaf_name(strip(a)) or show(a) for a in c[2])
            if names_ == sorted(["self.%s.%s" % (field, coord), "other.%s.%s" % (field, coord)]):
                return None
            return "AABB.%s.%s joins %s" % (field, coord, names_)
        return "AABB.%s.%s is %s, expected %s(self.%s.%s, other.%s.%s)" % (field, coord, show(c)[:40], fn_, field, coord, field, coord)
    check_box_result(ctx, join, "c13.box", "AABB::join", exp_join)
    # slices: fold(default, |res, e| res.join(e.aabb()))
    # D4
    occ = prog.method("&energy::raytracing::occluder::Occluder", "Intersectable", "intersects")
    body = occ.body
    calls = [(b, t, callee_name(t) or "") for b, t in body.calls()]
    box = [(b, t) for b, t, nm in calls if nm.endswith("Intersectable>::intersects") and "AABB" in nm]
    poly = [(b, t) for b, t, nm in calls if nm.endswith("intersects_with_data")]
    key = "c13.order|Occluder::intersects"
    if len(box) == 1 and len(poly) == 1:
        kind, detail = consumption(body, box[0][0], box[0][1])
        dom = body.dominates(box[0][0], poly[0][0])
        ret_is_poly = poly[0][1]["dest"] == 0
        osc = Scope(prog, occ)
        extra = []
        for (_, d_, n_, tk_) in osc.conditions(poly[0][0]):
            n_ = strip(n_)
            if n_[0] == "discr" and "branch(" in show(n_):
                continue      # the `?` on the box test
            extra.append("%s is %s" % (show(n_)[:60], tk_))
        # an Option adaptor between the box test and its `?` (filter, take_if, and_then ..) decides on the entry distance as well
        from ..mir import pl_local
        bdest = pl_local(box[0][1]["dest"])
        for b_, t_, nm_ in calls:
            if short_callee(nm_) in ("filter", "take_if", "and_then", "filter_map", "xor", "zip", "is_some_and") and "ption" in nm_ and t_["args"]:
                a0 = t_["args"][0]
                if (a0.get("m") == bdest or a0.get("c") == bdest) and body.dominates(b_, poly[0][0]):
                    extra.append("the box test's distance also passes `%s`" % short_callee(nm_))
        if kind == "propagated" and dom and ret_is_poly and extra:
            ctx.violation("c13.order", key, "after the box test succeeds the polygon is tested only when %s: an obstacle whose box the ray does hit is dropped without looking "
                          "at its polygon (e.g. a negative entry distance means the ray starts inside the box, not that the obstacle is behind it)" % " and ".join(extra), occ.loc(poly[0][1].get("ln")))
        elif kind == "propagated" and dom and ret_is_poly:
            ctx.ok("c13.order", key, "aabb.intersects(ray)? dominates the polygon test, which runs whenever the box is hit and whose answer is returned", occ.loc())
        else:
            ctx.violation("c13.order", key, "box test consumption=%s, dominates polygon test=%s, polygon answer returned=%s" % (kind, dom, ret_is_poly), occ.loc())
    else:
        ctx.violation("c13.order", key, "expected one box test and one polygon test, found %d and %d" % (len(box), len(poly)), occ.loc())


def run_fixture(ctx):
    prog = ctx.prog
    f = prog.fn_by_path("poscontrol::c13_bbox")
    check_box_accumulators(ctx, f, label="fixture")
