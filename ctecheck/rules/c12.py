"""C12 - Obstruction factors (partial: weight formula, early exits, occluder predicates, argument provenance)."""
import itertools

from ..cfgq import Scope, returned_nodes, bool_taken, iter_chain, closure_id_of, closure_env
from ..exprs import strip, short_callee, show, leaf_name, walk, origin_desc, mkproj
from ..facts import AnalysisError
from ..formulas import LeafMap, compare, updates, cond_text
from ..mir import callee_name
from .. import tables as TB
from .c08 import closure_return

ID = "C12"
LEVEL = "other"
RULE_TEXT = ("the per-hour weight and the final mean of compute_fshobst as normalised expressions; the return sites of sunlit_fraction with their dominating conditions; the "
             "three occluder-set predicates and the candidate filter as truth tables; the provenance of the seven arguments of radiation_for_surface")
EXPLANATION = ("D1 per-hour weight (f dir + dif)/(dir + dif), factor = round2(sum / n); D2 early exits: wall missing -> 1, wall without position -> 1, no sample points -> 1, "
               "sun behind the wall -> 0, otherwise 1 - blocked/rays; D3 occluders: walls (adiabatic or exterior) with position and non-empty polygon, shades with position "
               "and polygon, all reveal shades; candidates exclude the own wall and reveal shades of other windows; D4 radiation on the window plane uses the wall's tilt and "
               "azimuth, the row's date/hour/irradiances and the zone's latitude")
DECIDED = ["D1 weight formula and mean", "D2 early exits of sunlit_fraction", "D3 occluder predicates", "D4 argument provenance",
           "D5 a window without position or wall yields no sample points; reveal rectangles exact for every tilt; no candidate obstacle is dropped while the node list is generated",
           "D6 the side of a polygon (its normal) is decided from all its vertices; area, perimeter and normal close the outline (wrap-around)",
           "D7 every July row is recorded (must-pass-through over the hour loop); a triangle is a polygon in every vertex-count test"]
UNDECIDED = ["bounds [0,1]", ">= 0.97 when unobstructed", "diffuse share only when hidden", "monotonicity under added obstacles",
             "whether the acceleration structure reports the hits at all (ray casting answers)"]
ASSUMPTIONS = ["C13/C14 cover totality of the ray casting; C20 covers the tables"]
LEVEL_TEXT = ("Partial: necessary structural conditions only - the weight formula, the five return sites of the sunlit fraction with the condition under which each is taken, "
              "the membership predicates of the occluder sets (evaluated on every combination of their atoms) and the data flow of the irradiance arguments. The property's "
              "core (bounds, 0.97, monotonicity) depends on ray-casting results over runtime geometry and is NOT decided by this family.")
LEVEL_NOTE = "Trusted: rustc MIR."
TECHNIQUE = "normalised formula comparison, return-site/dominance reading, finite truth tables of filter closures, def-use provenance, must-pass-through over the hour loop, exact symbolic reveal geometry"
FIXTURE_EXPECT = ["c12.exit"]


def return_sites(prog, fn):
    sc = Scope(prog, fn)
    out = []
    for bb, rn in returned_nodes(fn.body):
        n = strip(sc._rw(rn))
        conds = [(strip(c), bool_taken(tk), tk) for (_, d, c, tk) in sc.conditions(bb)]
        out.append((n, conds, bb))
    return sc, out


def check_exits(ctx, prog, fn, rule="c12.exit"):
    sc, sites = return_sites(prog, fn)
    found = {}
    for n, conds, bb in sites:
        last = conds[-1] if conds else None
        ld = origin_desc(last[0]) if last else ""
        val = n[1] if n[0] == "k" else None
        if val is not None and last is not None:
            if last[0][0] == "discr" and "get_wall" in ld and last[1] is False and float(val) == 1.0:
                found["wall-missing"] = True
            elif "is_none(" in ld and ".geometry.position" in ld and last[1] is True and float(val) == 1.0:
                found["wall-without-position"] = True
            elif "is_empty(ray_origins)" in ld and last[1] is True and float(val) == 1.0:
                found["no-sample-points"] = True
            elif last[0][0] == "bin" and last[0][1] == "Lt" and "dot(" in ld and last[1] is True and float(val) == 0.0:
                c = strip(last[0][3])
                if c[0] == "k" and 0 <= float(c[1]) <= 0.05 and "normal(" in ld and "ray_dir" in ld:
                    found["sun-behind"] = True
        elif n[0] == "bin" and n[1] == "Sub" and strip(n[2])[0] == "k" and float(strip(n[2])[1]) == 1.0:
            q = strip(n[3])
            if q[0] == "bin" and q[1] == "Div":
                num, den = origin_desc(strip(q[2])), origin_desc(strip(q[3]))
                # all the early exits dominate the final value
                cds = [origin_desc(c[0]) for c in conds]
                if "ray_origins" in show(q[3]):
                    found["fraction-seen"] = True
                    if any("is_empty(ray_origins)" in c for c in cds):
                        found["fraction"] = True
    for k, what in (("wall-missing", "window's wall missing -> 1.0"), ("wall-without-position", "wall without geometric position -> 1.0"),
                    ("no-sample-points", "window without sample points -> 1.0"), ("sun-behind", "normal . ray < 0.01 -> 0.0"),
                    ("fraction", "otherwise 1 - blocked / rays with a non-zero ray count")):
        key = "%s|%s" % (rule, k)
        if found.get(k):
            ctx.ok(rule, key, what, fn.loc())
        elif k in ("fraction", "no-sample-points") and not found.get("fraction-seen"):
            # the value `1 - blocked / rays` is not written in this function any more (moved or re-spelled): nothing to hold against the code
            raise AnalysisError("%s: the returned `1 - blocked / rays` (rays = number of sample points) was not found: cannot decide how a window without sample points is handled"
                                % fn.path.split("::")[-1])
        else:
            ctx.violation(rule, key, "return site `%s` not found in %s (sites: %s)" % (what, fn.path.split("::")[-1], [(show(n)[:30], cond_text(c)[-80:]) for n, c, b in sites][:5]), fn.loc())
    return sites


def check_every_hour_counts(ctx, prog, f, rule="c12.weight"):
    """"the factor is the mean over the hours of the July day": every pass through the loop over the July rows has to record its hour (the pushes of the
    sunlit fraction, beam and diffuse values) - a `continue` under some condition on the row drops hours from the mean of some zones only"""
    from ..loops import classify_loops, skipping_path
    body = f.body
    def has_push(i):
        return any(body.blocks[b]["term"]["t"] == "call" and short_callee(callee_name(body.blocks[b]["term"]) or "") == "push" for b in i["blocks"])
    # the hour loop: the innermost iterator loop that records (pushes) values - it runs over the July rows of the model's zone, inside the window loop
    loops = sorted([i for i in classify_loops(prog, f) if i["kind"] == "iterator" and has_push(i)], key=lambda i: len(i["blocks"]))
    if not loops:
        raise AnalysisError("compute_fshobst: no loop that records per-hour values was found")
    info = loops[0]
    blocks, h = set(info["blocks"]), info["header"]
    use = {b for b in blocks for t in [body.blocks[b]["term"]] if t["t"] == "call" and short_callee(callee_name(t) or "") == "push"}
    starts = [t.get("to") for b in blocks for t in [body.blocks[b]["term"]] if t["t"] == "call" and short_callee(callee_name(t) or "") == "next" and t.get("to") in blocks]
    if not use or not starts:
        raise AnalysisError("compute_fshobst: the hour loop does not push its values in the loop body: not a shape this rule reads")
    key = rule + "|every-hour"
    if skipping_path(body, blocks, h, starts, use):
        ctx.violation(rule, key, "a path through the loop over the July rows reaches the next row without recording the hour: the mean obstruction factor is taken over fewer "
                      "hours (for the rows that meet the skipping condition only)", f.loc(info["line"]))
    else:
        ctx.ok(rule, key, "every row of the July day is recorded (no path through the hour loop skips the pushes)", f.loc(info["line"]))


def check_triangles_are_polygons(ctx, prog, rule="c12.corners"):
    """"windows and obstacles of any shape": the smallest polygon that has an area, a frame of its own and can hide or be hidden is the triangle.  Every test of
    a vertex count against a constant in the geometry and ray-tracing code is evaluated for 2, 3 and 4 corners: a test that treats 3 like 2 and unlike 4
    drops triangular walls (a gable), their windows (no sample points: factor 1) or triangular obstacles."""
    import operator
    OPS = {"Lt": operator.lt, "Le": operator.le, "Gt": operator.gt, "Ge": operator.ge, "Eq": operator.eq, "Ne": operator.ne}
    n = 0
    for f in sorted(prog.fns.values(), key=lambda f: f.id):
        if f.crate != "bemodel" or f.raw.get("impl_derived") or not (f.path.startswith("bemodel::types::opaques") or f.path.startswith("bemodel::types::geometry")
                                                                     or f.path.startswith("bemodel::<types::") or f.path.startswith("bemodel::types::")
                                                                     or f.path.startswith("bemodel::energy::radiation") or f.path.startswith("bemodel::energy::raytracing")):
            continue
        sc = Scope(prog, f)
        for b in range(f.body.n):
            t = f.body.blocks[b]["term"]
            if t["t"] != "switch":
                continue
            d = strip(sc.operand(t["d"]))
            if d[0] != "bin" or d[1] not in OPS:
                continue
            lhs, rhs = strip(d[2]), strip(d[3])
            if rhs[0] != "k" or not (lhs[0] == "call" and short_callee(lhs[1]) == "len"):
                continue
            what = show(lhs)
            if "polygon" not in what.lower() and "vertices" not in what.lower():
                continue
            try:
                k = int(float(rhs[1]))
            except ValueError:
                continue
            n += 1
            o2, o3, o4 = (OPS[d[1]](x, k) for x in (2, 3, 4))
            key = "%s|%s|%s %s %d" % (rule, f.path.split("::")[-1], "len", d[1], k)
            if o2 == o3 and o3 != o4:
                ctx.violation(rule, key, "`%s %s %d` treats a triangle like a two-point outline and unlike a quadrilateral: triangular elements (a gable wall and its "
                              "windows, a triangular shade) are handled as if they had no geometry" % (what[:60], {"Lt": "<", "Le": "<=", "Gt": ">", "Ge": ">=", "Eq": "==", "Ne": "!="}[d[1]], k),
                              f.loc(t.get("ln")))
            else:
                ctx.ok(rule, key, "a triangle falls on the side of the polygons", f.loc(t.get("ln")))
    ctx.floor(rule, "vertex-count tests in the geometry code", n, 1)


def check_closed_outlines(ctx, prog, rule="c12.exit"):
    """area, perimeter and orientation (normal) of a polygon are sums over its edges, and the outline is closed: the edge from the last vertex back to the first
    is one of them.  Each of the three functions must show the wrap-around - an index taken modulo the vertex count, or a cycled iterator - wherever it pairs
    consecutive vertices; `windows(2)` or `zip(skip(1))` alone walk the open chain and lose an edge (the signed area, and with it the side the element faces,
    can change sign)."""
    n = 0
    for nm in ("area", "perimeter", "normal"):
        cand = [g for g in prog.fns.values() if g.root == g.id and g.path.endswith("types::geometry::HasSurface>::" + nm) and "OPoint" in g.path and "Vec<" in g.path]
        if len(cand) != 1:
            raise AnalysisError("Polygon::%s (HasSurface for Vec<Point2>) not found" % nm)
        f = cand[0]
        bodies = [f] + prog.closures_of(f)
        pairs, wrap = [], []
        for g in bodies:
            sc = Scope(prog, g)
            for b, t in g.body.calls():
                cn = short_callee(callee_name(t) or "")
                if cn in ("windows", "array_windows", "tuple_windows"):
                    pairs.append(cn)
                if cn == "skip":
                    pairs.append("skip")
                if cn in ("cycle", "circular_tuple_windows"):
                    wrap.append(cn)
            for b, i, st in g.body.statements():
                if st["s"] == "assign" and st["rv"]["r"] == "bin" and st["rv"]["op"] in ("Rem", "RemWithOverflow", "RemUnchecked"):
                    wrap.append("% n")
                if st["s"] == "assign" and st["rv"]["r"] == "bin" and st["rv"]["op"] in ("Add", "AddWithOverflow") :
                    v = strip(sc.rvalue(st["rv"]))
                    if any(strip(x)[0] == "k" and str(strip(x)[1]) == "1" for x in v[2:4]):
                        pairs.append("i + 1")
        n += 1
        key = "%s|closed-outline|%s" % (rule, nm)
        if not pairs:
            if nm == "normal":
                continue        # not an edge sum at all: `c12.exit|polygon-normal` (below) decides whether it reads every vertex
            raise AnalysisError("Polygon::%s: how consecutive vertices are paired was not recognised" % nm)
        if wrap:
            ctx.ok(rule, key, "consecutive vertices are paired with a wrap-around (%s): the closing edge is included" % sorted(set(wrap))[0], f.loc())
        else:
            ctx.violation(rule, key, "Polygon::%s pairs consecutive vertices with %s and never wraps around: the edge from the last vertex back to the first is missing, so the "
                          "sum is that of an open chain (a normal can flip: the sun is then behind the element at every hour)" % (nm, "/".join(sorted(set(pairs)))), f.loc())
    ctx.floor(rule, "polygon edge sums", n, 2)


def run(ctx):
    prog = ctx.prog
    f = prog.method("types::model::Model", None, "compute_fshobst")
    root = Scope(prog, f)
    ups = updates(root)
    check_every_hour_counts(ctx, prog, f)
    check_triangles_are_polygons(ctx, prog)
    check_closed_outlines(ctx, prog)
    # D1
    acc = [u for u in ups if u["dest"] == "fshobst_sum" and u["op"] == "+="]
    ctx.require(len(acc) == 1, "compute_fshobst: `fshobst_sum += ..` not found")
    lm = LeafMap({}, [(r"^index\(map\[\]\.1\.fshdir,", "f"), (r"^index\(map\[\]\.1\.dir,", "dir"), (r"^index\(map\[\]\.1\.dif,", "dif")])
    compare(ctx, "c12.weight", "c12.weight|per-hour", acc[0]["term"], "(f*dir + dif) / (dir + dif)", lm, None, f.loc(acc[0]["line"]), "per-hour weight")
    # the three indexes use the same index variable
    idxs = set()
    for x in walk(acc[0]["term"]):
        if x[0] == "call" and short_callee(x[1]) == "index" and len(x[2]) == 2:
            idxs.add(origin_desc(strip(x[2][1])))
    if len(idxs) == 1:
        ctx.ok("c12.weight", "c12.weight|same-hour", "sunlit fraction, beam and diffuse are taken at the same hour index", f.loc(acc[0]["line"]))
    else:
        ctx.violation("c12.weight", "c12.weight|same-hour", "different indexes %s are mixed in one weight" % sorted(idxs), f.loc(acc[0]["line"]))
    ins = None
    for b, t in f.body.calls():
        nm = callee_name(t) or ""
        if short_callee(nm) == "insert" and "BTreeMap" in nm and leaf_name(strip(root.operand(t["args"][0]))) == "fshobstmap":
            ins = (strip(root.operand(t["args"][1])), strip(root.operand(t["args"][2])), t.get("ln"))
    ctx.require(ins is not None, "compute_fshobst: fshobstmap.insert not found")
    lm2 = LeafMap({"fshobst_sum": "s"}, [(r"^len\(map\[\]\.1\.fshdir\)$", "n")])
    compare(ctx, "c12.weight", "c12.weight|mean", ins[1], "r2(s / n)", lm2, None, f.loc(ins[2]), "factor")
    if leaf_name(ins[0]) == "map[].0":
        ctx.ok("c12.weight", "c12.weight|key", "stored under the window's id", f.loc(ins[2]))
    else:
        ctx.violation("c12.weight", "c12.weight|key", "factor stored under %s" % show(ins[0])[:60], f.loc(ins[2]))
    # pushes: fshdir <- sunlit_fraction, dir/dif <- radiation_for_surface(..).dir/.dif, under the window's id
    pushes = {}
    for b, t in f.body.calls():
        nm = callee_name(t) or ""
        if short_callee(nm) == "push" and "Vec" in nm:
            dest = origin_desc(strip(root.operand(t["args"][0])))
            val = origin_desc(strip(root.operand(t["args"][1])))
            pushes[dest.split(".")[-1]] = (dest, val)
    okp = ("fshdir" in pushes and "sunlit_fraction(" in pushes["fshdir"][1] and "dir" in pushes and "radiation_for_surface(" in pushes["dir"][1] and pushes["dir"][1].endswith(".dir")
           and "dif" in pushes and pushes["dif"][1].endswith(".dif") and all("self.windows[].id" in v[0] for v in pushes.values()))
    if okp:
        ctx.ok("c12.weight", "c12.weight|inputs", "f = sunlit_fraction(..), dir/dif = radiation_for_surface(..).dir/.dif, pushed together per window", f.loc())
    else:
        ctx.violation("c12.weight", "c12.weight|inputs", "per-hour inputs are %s" % pushes, f.loc())
    # D4
    rs = [(b, t) for b, t in f.body.calls() if short_callee(callee_name(t) or "") == "radiation_for_surface"]
    ctx.require(len(rs) == 1, "compute_fshobst: radiation_for_surface call not found")
    args = [origin_desc(strip(root.operand(a))) for a in rs[0][1]["args"]]
    row = "HashMap::get(unwrap(Mutex::lock(..)),self.meta.climate)@Some.0[]"
    alt = "get(unwrap(Mutex::lock(JULYRADDATA)),self.meta.climate)"
    okd4 = []
    okd4.append(("nday", "nday_from_md(" in args[0] and ".month" in args[0] and ".day" in args[0] and "self.meta.climate" in args[0]))
    okd4.append(("hour", args[1].endswith("[].hour") and "self.meta.climate" in args[1]))
    okd4.append(("irradiance", args[2].startswith("SolarRadiation")))
    okd4.append(("latitude", args[3].endswith(".latitude") and "CLIMATEMETADATA" in show(strip(root.operand(rs[0][1]["args"][3]))) and "self.meta.climate" in args[3]))
    okd4.append(("tilt", args[4].endswith("get_wall(self,self.windows[].wall)@Some.0.geometry.tilt")))
    okd4.append(("azimuth", args[5].endswith("get_wall(self,self.windows[].wall)@Some.0.geometry.azimuth")))
    okd4.append(("albedo", args[6] == "0.2"))
    sr = strip(root.operand(rs[0][1]["args"][2]))
    if sr[0] == "agg":
        d = {k: origin_desc(strip(v)) for k, v in zip(sr[2], sr[3])}
        okd4.append(("irradiance fields", d.get("dir", "").endswith("[].dir") and d.get("dif", "").endswith("[].dif")))
    jul = any(u["dest"] == "iter" and "JULYRADDATA" in show(u["term"]) and "self.meta.climate" in show(u["term"]) for u in ups)
    okd4.append(("July table", jul))
    for nm, ok_ in okd4:
        key = "c12.args|%s" % nm
        if ok_:
            ctx.ok("c12.args", key, "radiation_for_surface argument `%s` has the expected provenance" % nm, f.loc(rs[0][1].get("ln")))
        else:
            ctx.violation("c12.args", key, "argument `%s` of radiation_for_surface: %s" % (nm, args), f.loc(rs[0][1].get("ln")))
    # D2
    sf = prog.method("types::model::Model", None, "sunlit_fraction")
    check_exits(ctx, prog, sf)
    # "no sample points" is how a window without geometric position gets the factor 1: ray_origins_for_window returns an empty list for it
    rof = prog.method("types::model::Model", None, "ray_origins_for_window")
    _, rsites = return_sites(prog, rof)

    def empty_vec(n):
        n = strip(n)
        return (n[0] == "call" and short_callee(n[1]) == "new" and "Vec" in n[1] and not n[2]) or (n[0] == "agg" and n[1] == "vec" and not n[3])
    for k, pat, what in (("window-without-position", "window.geometry.position", "a window without geometric position has no sample points (hence factor 1)"),
                         ("window-without-wall", "get_wall(self,window.wall)", "a window whose wall is missing has no sample points")):
        hit = [1 for n_, conds, bb in rsites if empty_vec(n_) and conds and conds[-1][0][0] == "discr" and pat in origin_desc(conds[-1][0]) and conds[-1][1] is False]
        key = "c12.exit|%s" % k
        if hit:
            ctx.ok("c12.exit", key, what, rof.loc())
        else:
            ctx.violation("c12.exit", key, "ray_origins_for_window has no `return <empty list>` for the case %s is None (its exits: %s): such a window is sampled as if it were "
                          "somewhere, instead of getting the factor 1" % (pat, [(show(n_)[:30], cond_text(c)[-60:]) for n_, c, b in rsites][:4]), rof.loc())
    # support: an obstacle counts whenever its box and then its polygon are hit (no further condition between the two tests)
    from .. import support as S
    r_ = S.occluder_polygon_test_unconditional(prog)
    ctx.require(r_ is not None, "Occluder::intersects: box test followed by polygon test not found")
    if r_[0]:
        ctx.violation("c12.occluders", "c12.occluders|polygon-test", "an obstacle whose bounding box the ray hits is ignored unless %s: windows whose sample points lie inside the "
                      "box of an oblique or tilted obstacle are counted as sunlit (factor too high, adding the obstacle changes nothing)" % " and ".join(r_[0]), r_[1])
    else:
        ctx.ok("c12.occluders", "c12.occluders|polygon-test", "an obstacle is tested by its polygon whenever its box is hit", r_[1])
    # D3 occluder predicates
    co = prog.method("types::model::Model", None, "collect_occluders")
    csc = Scope(prog, co)
    bt = [v["name"] for v in prog.adt("bemodel::types::common::BoundaryType")["variants"]]
    filters = []
    for sc in csc.all_scopes():
        for (b, t, ch) in sc.children():
            if ch.via[0] == "filter":
                filters.append(((ch.via[1].source_name() if ch.via[1] is not None else None), ch))
    fw = [c for s, c in filters if s == "self.walls"]
    fs = [c for s, c in filters if s == "self.shades"]
    if not (len(fw) == 1 and len(fs) == 1):
        # not the filter(..).map(Occluder {..}) form: fall back to the necessary conditions that can be decided for any construction site
        from .. import support as S
        res = S.occluder_polygons_nonempty(prog)
        nbad = 0
        for ok, loc, g, disp, why in res:
            if not ok:
                nbad += 1
                ctx.violation("c12.occluders", "c12.occluders|nonempty|%s|%s" % (disp, g), "occluders are not restricted to non-empty polygons: %s" % why, loc)
        unk_, few_ = S.box_constructors(prog)
        for (m_, k_, loc_) in few_:
            nbad += 1
            ctx.violation("c12.occluders", "c12.occluders|box|%s" % m_, "occluder boxes: " + S.FEW_CORNERS_TEXT % (m_.split("::")[-1], k_), loc_)
        ctx.require(nbad > 0, "collect_occluders: wall/shade filters not found (%s), membership predicates cannot be evaluated" % [s for s, c in filters])
        return

    def geom_atoms(bnd, pos, empty):
        def atom(n):
            n = strip(n)
            d = origin_desc(n)
            if n[0] == "un" and n[1] == "Not":
                v = atom(n[2])
                return None if v is None else ("0" if v == "1" else "1")
            if n[0] == "call" and short_callee(n[1]) in ("eq", "ne") and ".bounds" in d:
                for a in n[2]:
                    a = strip(a)
                    if a[0] == "agg" and "::" in a[1]:
                        r = (bnd == a[1].split("::")[-1])
                        if short_callee(n[1]) == "ne":
                            r = not r
                        return "1" if r else "0"
            if n[0] == "call" and short_callee(n[1]) == "is_some" and "position" in d:
                return "1" if pos else "0"
            if n[0] == "call" and short_callee(n[1]) == "is_none" and "position" in d:
                return "0" if pos else "1"
            if n[0] == "call" and short_callee(n[1]) == "is_empty" and "polygon" in d:
                return "1" if empty else "0"
            if n[0] == "bin" and n[1] in ("Lt", "Le", "Gt", "Ge", "Eq", "Ne") and "len(" in d and "polygon" in d and strip(n[3])[0] == "k":
                # a test on the number of corners: the case "not empty" stands for a triangle, the smallest polygon that can hide anything
                import operator
                npts = 0 if empty else 3
                f_ = {"Lt": operator.lt, "Le": operator.le, "Gt": operator.gt, "Ge": operator.ge, "Eq": operator.eq, "Ne": operator.ne}[n[1]]
                return "1" if f_(npts, float(strip(n[3])[1])) else "0"
            if n[0] == "k" and n[1] in ("true", "false"):
                return "1" if n[1] == "true" else "0"
            return None
        return atom
    bad = []
    for bnd, pos, empty in itertools.product(bt, (True, False), (True, False)):
        at = geom_atoms(bnd, pos, empty)
        r = TB.eval_return(fw[0], at)
        v = at(r) if not (isinstance(r, tuple) and r and r[0] == "stuck") else None
        if v is None:
            raise AnalysisError("collect_occluders wall filter not evaluable for (%s,%s,%s): %s" % (bnd, pos, empty, str(r)[:160]))
        want = bnd in ("ADIABATIC", "EXTERIOR") and pos and not empty
        if (v == "1") != want:
            bad.append("(%s, position=%s, %s) -> %s" % (bnd, pos, "empty polygon" if empty else "triangle", "occludes" if v == "1" else "ignored"))
    if bad:
        ctx.violation("c12.occluders", "c12.occluders|walls", "occluding walls differ from the statement on %d of 16 cases: %s" % (len(bad), "; ".join(bad[:3])), co.loc())
    else:
        ctx.ok("c12.occluders", "c12.occluders|walls", "walls occlude iff (ADIABATIC or EXTERIOR) and position.is_some() and !polygon.is_empty() (16 cases)", co.loc())
    bad = []
    for pos, empty in itertools.product((True, False), (True, False)):
        at = geom_atoms("EXTERIOR", pos, empty)
        r = TB.eval_return(fs[0], at)
        v = at(r) if not (isinstance(r, tuple) and r and r[0] == "stuck") else None
        if v is None:
            raise AnalysisError("collect_occluders shade filter not evaluable: %s" % str(r)[:160])
        if (v == "1") != (pos and not empty):
            bad.append("(position=%s, %s) -> %s" % (pos, "empty polygon" if empty else "triangle", "occludes" if v == "1" else "ignored"))
    if bad:
        ctx.violation("c12.occluders", "c12.occluders|shades", "occluding shades differ on %s" % bad, co.loc())
    else:
        ctx.ok("c12.occluders", "c12.occluders|shades", "shades occlude iff position.is_some() and !polygon.is_empty()", co.loc())
    # reveal shades: all, linked to their window
    lits = [(sc, sc.rvalue(s["rv"]), s.get("ln")) for sc in csc.all_scopes() for b, i, s in sc.body.statements()
            if s["s"] == "assign" and s["rv"]["r"] == "agg" and s["rv"].get("adt", "").endswith("Occluder")]
    ctx.floor("c12.occluders", "Occluder literals", len(lits), 3)
    linked = []
    for sc, n, ln in lits:
        fl = {k: strip(v) for k, v in zip(n[2], n[3])}
        idd = origin_desc(fl["id"])
        lk = fl["linked_to_id"]
        linked.append((idd, origin_desc(lk)))
    want_linked = sorted([("self.walls[].id", "None{..}"), ("self.shades[].id", "None{..}")])
    got_plain = sorted(x for x in linked if "setback" not in x[0])
    got_sb = [x for x in linked if "setback" in x[0]]
    if got_plain == want_linked and len(got_sb) == 1 and got_sb[0][1].startswith("Some{") and ".1.id" in got_sb[0][0]:
        ctx.ok("c12.occluders", "c12.occluders|links", "walls and shades are unlinked; every reveal shade is linked to its window id", co.loc())
    else:
        ctx.violation("c12.occluders", "c12.occluders|links", "occluder ids/links are %s" % linked, co.loc())
    # reveal shades are built for every window with a wall, no filter
    ws = prog.method("types::model::Model", None, "windows_setback_shades")
    wsc = Scope(prog, ws)
    rn = returned_nodes(ws.body)
    ch = iter_chain(strip(wsc._rw(rn[0][1]))) if len(rn) == 1 else None
    if ch is not None and ch.source_name() == "self.windows" and "filter" not in ch.adaptors():
        ctx.ok("c12.occluders", "c12.occluders|reveal", "reveal shades are generated for all windows (%s)" % ch.adaptors(), ws.loc())
    else:
        ctx.violation("c12.occluders", "c12.occluders|reveal", "reveal shades are not generated for every window: %s" % (ch.adaptors() if ch else "?"), ws.loc())
    # ... and they are where the statement puts them: the four surfaces between the wall plane and the window plane (the geometry rule of C13)
    from ._reveal import check_reveals
    check_reveals(ctx, "c12.occluders", "c12.occluders")
    # "0 when the sun is behind the window": behind/in front is decided with the wall's normal, which is +-z of its polygon according to the polygon's
    # orientation - a property of *all* its vertices (signed area).  A test on the first corner only (first three vertices) gives the wrong side for a
    # non-convex outline whose second vertex is a reflex corner: the window is then "behind the sun" at every hour
    pn = [f_ for f_ in prog.fns.values() if f_.path.endswith("geometry::HasSurface>::normal") and "Vec<" in f_.path]
    ctx.require(len(pn) == 1, "Polygon::normal (HasSurface for Vec<Point2>) not found")
    pn = pn[0]
    reads_all = bool(pn.body.loops()) or any(short_callee(callee_name(t_) or "") in ("iter", "sum", "fold", "map", "zip", "windows", "enumerate", "signed_area", "area_signed")
                                             for f_ in [pn] + prog.closures_of(pn) for _, t_ in f_.body.calls())
    idx_consts = sorted({strip(Scope(prog, pn).operand(t_["args"][1]))[1] for _, t_ in pn.body.calls()
                         if short_callee(callee_name(t_) or "") == "index" and len(t_["args"]) == 2 and strip(Scope(prog, pn).operand(t_["args"][1]))[0] == "k"})
    if reads_all:
        ctx.ok("c12.exit", "c12.exit|polygon-normal", "the polygon's orientation is decided from all its vertices", pn.loc())
    else:
        ctx.violation("c12.exit", "c12.exit|polygon-normal", "Polygon::normal looks at vertices %s only (no loop over the outline): for a non-convex polygon whose second vertex is a reflex "
                      "corner the cross product of the first two edges has the opposite sign of the polygon's orientation, the wall's normal points inwards and "
                      "sunlit_fraction returns 0 (sun behind the window) at every hour" % idx_consts, pn.loc())
    from ._reveal import check_reveal_frame
    check_reveal_frame(ctx, "c12.occluders", "c12.occluders")
    # ... and none of the candidates is forgotten on the way into the acceleration structure (the conservation rule of C13)
    from .c13 import check_node_list_conservation
    check_node_list_conservation(ctx, prog, "c12.conserve")
    # candidate filter in sunlit_fraction
    ssc = Scope(prog, sf)
    cf = [ch2 for (b, t, ch2) in ssc.children() if ch2.via[0] == "filter" and (ch2.via[1] is not None and ch2.via[1].source_name() == "occluders")]
    ctx.require(len(cf) == 1, "sunlit_fraction: candidate filter not found")
    bad = []
    for own, linked_, other in itertools.product((True, False), (True, False), (True, False)):
        def atom(n, own=own, linked_=linked_, other=other):
            n = strip(n)
            d = origin_desc(n)
            if n[0] == "call" and short_callee(n[1]) in ("eq", "ne"):
                if "occluders[].id" in d and "get_wall" in d:
                    r = own
                elif "linked_to_id" in d and "window.id" in d:
                    r = not other          # id == window.id
                else:
                    return None
                if short_callee(n[1]) == "ne":
                    r = not r
                return "1" if r else "0"
            if n[0] == "discr" and "linked_to_id" in d:
                return "1" if linked_ else "0"
            if n[0] == "k" and n[1] in ("true", "false"):
                return "1" if n[1] == "true" else "0"
            return None
        r = TB.eval_return(cf[0], atom)
        v = atom(r) if not (isinstance(r, tuple) and r and r[0] == "stuck") else None
        if v is None:
            raise AnalysisError("sunlit_fraction candidate filter not evaluable: %s" % str(r)[:200])
        want = (not own) and ((not linked_) or (not other))
        if (v == "1") != want:
            bad.append("(own wall=%s, linked=%s, linked to another window=%s) -> %s" % (own, linked_, other, v == "1"))
    if bad:
        ctx.violation("c12.occluders", "c12.occluders|candidates", "candidate filter differs on %d of 8 cases: %s" % (len(bad), "; ".join(bad[:3])), sf.loc())
    else:
        ctx.ok("c12.occluders", "c12.occluders|candidates", "candidates = all occluders except the window's own wall and reveal shades of other windows (8 cases)", sf.loc())


def run_fixture(ctx):
    prog = ctx.prog
    f = prog.fn_by_path("poscontrol::c12_sunlit")
    check_exits(ctx, prog, f)
