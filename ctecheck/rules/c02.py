"""C02 - Converted models are referentially closed, or conversion fails with an error."""
from ..cfgq import Scope, iter_chain, closure_id_of, closure_env, returned_nodes
from ..dataflow import consumption
from ..exprs import ExprBuilder, strip, short_callee, show, leaf_name, walk, mkproj, origin_desc
from ..facts import AnalysisError
from ..mir import callee_name, pl_local
from ..spec.refgraph import REFS
from .. import types as T

ID = "C02"
LEVEL = "other"
RULE_TEXT = ("every reference-typed field of every model literal built by the converter: which lookup (IdMaps::<kind>_id or a name->id map built from the target "
             "collection) feeds it and how a failed lookup is consumed; the IdMaps tables and accessors; element ids vs lookup ids; parser validations; order")
EXPLANATION = ("D1 every reference written by the converter is a checked lookup of the right kind (propagated with `?`), or None for optional links without a name; "
               "D2 the id stored in an element and the id stored in IdMaps derive from the same source element; D3 the parser rejects broken name references; "
               "D4 constructions, spaces and walls are converted (and their errors propagated) before the model is assembled")
DECIDED = ["D1 references are checked lookups of the right kind", "D2 element ids and lookup ids agree", "D3 parser validations lead to an error return", "D4 conversion order / propagation",
           "D6 the model checker's bridge-length warning does not fire for what conversion writes (l = 0 or > 0); de-duplicated id lists are sorted before dedup()"]
UNDECIDED = ["uniqueness of ids (md5 of Debug text: distinctness is a value property)", "the legacy .cte corpus"]
ASSUMPTIONS = ["BTreeMap::get / Option / Result combinators have their documented semantics"]
LEVEL_TEXT = ("Closure by construction: for each of the 17 reference fields of the model's reference graph (transcribed from the statement), every literal the "
              "converter builds takes the field from a lookup into the table of the right kind whose failure is propagated as an error (or from None for an "
              "optional link without a name); the id stored in each element and the id stored in the lookup table are computed from the same source object; "
              "the parser's own name checks lead to error returns. Three reasoned exceptions (lookups that cannot fail because an earlier step of the same conversion already failed for the missing name) are listed in the evidence. Decides 'no nil/missing link is ever "
              "written' for every project; id uniqueness is not decided.")
LEVEL_NOTE = "Trusted: rustc MIR, std collection semantics, the reference graph in ctecheck/spec/refgraph.py."
TECHNIQUE = "def-use provenance of struct-literal fields + consumption classification of fallible lookups"
FIXTURE_EXPECT = ["c02.ref"]

# target collection of the model -> (source collection of the BDL data, regex of the source element whose hash is the id).  Which IdMaps table and
# accessor serve a kind is read from the code (the table built from these elements, the accessor that reads that table), not fixed by name.
KIND = {
    "spaces": ("bdl.spaces", r"bdl\.spaces\[\]"),
    "walls": ("bdl.walls", r"bdl\.walls\[\]"),
    "cons.wallcons": ("bdl.db.wallcons", r"bdl\.db\.wallcons\[\]\.1"),
    "cons.wincons": ("bdl.db.wincons", r"bdl\.db\.wincons\[\]\.1"),
    "cons.materials": ("bdl.db.materials", r"bdl\.db\.materials\[\]\.1"),
    "schedules.year": ("bdl.schedules", r"bdl\.schedules\[\]@Year\.0"),
    "schedules.week": ("bdl.schedules", r"bdl\.schedules\[\]@Week\.0"),
    "schedules.day": ("bdl.schedules", r"bdl\.schedules\[\]@Day\.0"),
    "loads": ("bdl.space_conditions", r"bdl\.space_conditions\[\](\.1)?"),
    "thermostats": ("bdl.system_conditions", r"bdl\.system_conditions\[\](\.1)?"),
}
OWNER_TYPE = {
    "walls": "Wall", "windows": "Window", "cons.wallcons": "WallCons", "cons.wincons": "WinCons", "spaces": "Space", "loads": "SpaceLoads",
    "thermostats": "Thermostat", "schedules.year": "Schedule", "schedules.week": "ScheduleWeek",
}
EXCEPTIONS = {
    "c02.ref|Window.cons": ("defaulted", "cannot fail: cons_from_bdl, which runs first and propagates its error, returns Err for any bdl.windows[*].cons missing from "
                                         "bdl.db.wincons, the key set IdMaps.wincons is built from [D4 checks order and propagation]"),
    "c02.ref|Window.wall": ("defaulted", "cannot fail: the same loop iteration first requires walls.iter().find(name == win.wall) to succeed (error otherwise), and the converted "
                                         "walls' names are keys of IdMaps.walls"),
    "c02.id|Material": ("defaulted", "map keys of IdMaps.materials are the material names of the same bdl.db.materials entries iterated here, so the lookup cannot fail"),
}


class Src:
    def __init__(self, kind, what, mode, loc=None, idfn=None):
        self.kind, self.what, self.mode, self.loc, self.idfn = kind, what, mode, loc, idfn


def id_function(prog, n):
    """(short name, hashed-object descriptor) if call node n computes a Uuid from an object: a workspace function returning uuid::Uuid;
    the hashed object is its last argument (`uuid_from_obj(&x)`, `cached(key, &x)`)"""
    if n[0] != "call" or not n[2]:
        return None
    ids = prog.callee_index().get(n[1], ())
    if len(ids) != 1:
        return None
    f = prog.fns[next(iter(ids))]
    if f.raw.get("ret") != "uuid::Uuid" or f.path.startswith("bemodel::convert::from_ctehexml::IdMaps"):
        return None
    return short_callee(n[1]), origin_desc(strip(n[2][-1]))

    def __repr__(self):
        return "%s:%s(%s)" % (self.kind, self.what, self.mode)


def var_values(sc, l, want_proj=None):
    """nodes assigned to (or pushed/inserted into) a multi-definition local"""
    out = []
    body = sc.body
    for d in body.defs().get(l, []):
        if d[0] == "st":
            dp = [e for e in (d[3]["p"]["p"] if not isinstance(d[3]["p"], int) else []) if e != "*"]
            if dp and want_proj is not None:
                # partial write: relevant only if it writes (a prefix of) the sub-place asked for
                wp = [e for e in want_proj if not e.startswith("[")]
                if dp[:len(wp)] != wp[:len(dp)]:
                    continue
                out.append(("partial", tuple(dp), sc.rvalue(d[3]["rv"])))
                continue
            out.append(sc.rvalue(d[3]["rv"]))
        else:
            out.append(sc._rw(sc.eb.call_node(d[2], d[1])))
    for b, t in body.calls():
        nm = short_callee(callee_name(t) or "")
        if nm in ("push", "insert", "push_back") and t["args"]:
            recv = strip(sc.operand(t["args"][0]))
            if recv[0] == "var" and recv[1] == l:
                out.append(("pushed", sc.operand(t["args"][-1])))
    return out


def sources(prog, sc, n, mode="raw", depth=0, elemwise=False):
    if depth > 14:
        return [Src("other", "too deep", mode)]
    n = strip(n)
    k = n[0]
    if k == "pushed":
        return sources(prog, sc, n[1], mode, depth + 1)
    if k == "proj":
        base = strip(n[1])
        pr = n[2]
        if base[0] == "call" and short_callee(base[1]) == "branch" and pr[:2] == ("@Continue", ".0"):
            return sources(prog, sc, base[2][0], "propagated", depth + 1)
        if base[0] in ("var",):
            out = []
            for v in var_values(sc, base[1], pr):
                if v[0] == "partial":
                    rest = [e for e in pr if not e.startswith("[")][len(v[1]):]
                    out += sources(prog, sc, mkproj(strip(v[2]), rest), mode, depth + 1)
                elif v[0] == "pushed":
                    out += sources(prog, sc, mkproj(strip(v[1]), [e for e in pr if not e.startswith("[")]), mode, depth + 1)
                else:
                    out += sources(prog, sc, mkproj(strip(v), pr), mode, depth + 1)
            return out
        if base[0] == "elem":
            # element of a collection: named local collections are resolved through their definitions
            return elem_sources(prog, sc, base, mode, depth + 1)
        if base[0] == "proj" or base[0] == "call":
            return sources(prog, sc, base, mode, depth + 1)
        return [Src("other", show(n)[:80], mode)]
    if k == "elem":
        return elem_sources(prog, sc, n, mode, depth + 1)
    if k == "var":
        # a local (id, count) tuple: only the id component is a reference
        if sc.body.local_ty(n[1]).startswith("(uuid::Uuid,"):
            return sources(prog, sc, ("proj", n, (".0",)), mode, depth + 1)
        return [s for v in var_values(sc, n[1]) for s in sources(prog, sc, v, mode, depth + 1)]
    if k == "agg":
        lab = n[1].split("::")[-1]
        if lab in ("Some", "Ok") and len(n[3]) == 1:
            return sources(prog, sc, n[3][0], mode, depth + 1)
        if lab == "None":
            return [Src("none", "None", mode)]
        if lab == "tuple" and n[3]:
            return sources(prog, sc, n[3][0], mode, depth + 1)
        if lab in ("vec", "array"):
            return [s for o in n[3] for s in sources(prog, sc, o, mode, depth + 1)]
        return [Src("other", show(n)[:80], mode)]
    if k == "call":
        nm = short_callee(n[1])
        if "IdMaps" in n[1] and nm != "new":
            return [Src("lookup", nm, mode)]
        idf = id_function(prog, n)
        if idf:
            return [Src("uuid", idf[1], mode, idfn=idf[0])]
        if nm in ("unwrap_or_default", "unwrap_or", "unwrap_or_else"):
            return sources(prog, sc, n[2][0], "defaulted", depth + 1)
        if nm in ("unwrap", "expect"):
            return sources(prog, sc, n[2][0], "asserted", depth + 1)
        if nm == "ok":
            return sources(prog, sc, n[2][0], "ok-flattened", depth + 1)
        if nm in ("ok_or_else", "ok_or", "copied", "cloned", "into_iter", "iter", "collect", "flatten", "rev", "map_err", "context", "into", "from", "transpose", "as_ref", "as_deref",
                  "deref", "borrow", "clone", "to_owned", "skip", "take", "peekable"):
            return sources(prog, sc, n[2][0], mode, depth + 1)
        if nm == "zip":
            return sources(prog, sc, n[2][0], mode, depth + 1)
        if nm in ("map", "filter_map", "and_then", "flat_map") and len(n[2]) == 2:
            cl = strip(n[2][1])
            cid = closure_id_of(cl)
            if cid and cid in prog.fns:
                cfn = prog.fns[cid]
                recv = strip(n[2][0])
                if "option::Option" in n[1]:
                    elem = mkproj(recv, ("@Some", ".0"))
                else:
                    ch = iter_chain(recv)
                    from ..cfgq import elem_of_chain
                    elem = elem_of_chain(ch)
                csc = Scope(prog, cfn, {i: v for i, v in closure_env(cl).items()}, elem, sc)
                out = []
                for (_, rn) in returned_nodes(cfn.body):
                    out += sources(prog, csc, csc._rw(rn), mode, depth + 1)
                return out
            return [Src("other", "map over non-closure", mode)]
        if nm == "get" and len(n[2]) == 2 and ("BTreeMap" in n[1] or "HashMap" in n[1]):
            m = strip(n[2][0])
            if m[0] == "call" and short_callee(m[1]) == "collect":
                ch = iter_chain(m)
                return [Src("local_map", ch.source_name() or origin_desc(strip(ch.source)), mode)]
            return [Src("other", "get on %s" % show(m)[:60], mode)]
        if nm == "default":
            return [Src("nil", "Default::default()", mode)]
        if nm == "from_residual":
            return []      # the early return of `?`: an error is propagated, no element is produced on this path
        if nm in ("with_capacity", "new") and ("Vec" in n[1] or "vec::" in n[1]):
            return []      # empty collection: contributes no element
        # a private function of the converter that builds the value (a loop with pushes, a match): its returned values, with the parameters bound
        ids_ = [i_ for i_ in prog.callee_index().get(n[1], ()) if prog.fns[i_].path.startswith("bemodel::convert::") and prog.fns[i_].root == i_]
        if len(ids_) == 1 and depth < 10:
            hfn = prog.fns[ids_[0]]
            if hfn.body.argc == len(n[2]):
                hs = Scope(prog, hfn, argmap={i_ + 1: a_ for i_, a_ in enumerate(n[2])})
                out = []
                for (_, rn) in returned_nodes(hfn.body):
                    out += sources(prog, hs, hs._rw(rn), mode, depth + 1)
                if out:
                    return out
        return [Src("other", "%s(..)" % nm, mode)]
    if k == "kx" or k == "k":
        return [Src("const", show(n)[:40], mode)]
    return [Src("other", show(n)[:80], mode)]


def elem_sources(prog, sc, e, mode, depth):
    """sources of the elements of the collection an elem pseudo-leaf ranges over"""
    name = e[1]
    # a local collection variable of this (or an enclosing) scope
    s = sc
    while s is not None:
        for l, nm in s.body.names.items():
            if nm == name:
                return [x for v in var_values(s, l) for x in sources(prog, s, v, mode, depth + 1)]
        s = s.parent
    # an unnamed collection (`x.iter().map(f).collect::<Result<Vec<_>, _>>()?` consumed in place): its elements are what its own chain produces
    from ..cfgq import ELEM_SOURCES
    ch = ELEM_SOURCES.get((e[1], e[2]))
    if ch is not None and depth < 12:
        src = strip(ch.source)
        if src[0] in ("call", "proj") and not (src[0] == "proj" and strip(src[1])[0] in ("arg", "upvar")):
            # the position of the element in a zip: the first collection's elements are component .0 of the pair
            return sources(prog, sc, src, mode, depth + 1)
    return [Src("other", "element of %s" % name, mode)]


def literals(prog, prefix="bemodel::convert::from_ctehexml::", adt_prefix="bemodel::types"):
    """(scope, adt short name, node, loc) for every model-type struct literal built in the converter.  A literal that sits in a private helper is read once per
    call site of the helper, with the helper's parameters bound to the caller's arguments (so `win.height` reads `bdl.windows[].height`); when the helper
    has no caller that can be followed it is read as written"""
    local, bound = {}, {}
    for f in sorted(prog.fns.values(), key=lambda f: f.id):
        if not f.path.startswith(prefix) or f.root != f.id:
            continue
        root = Scope(prog, f)
        # the conversion entry point only distributes `&data.bdldata` over the *_from_bdl functions: those are read in their own terms (bdl, id_maps),
        # the helpers below them in the terms of their callers
        entry = "TryFrom<" in f.path
        for sc in (root.local_scopes() if entry else root.all_scopes()):
            for b, i, s in sc.body.statements():
                if s["s"] == "assign" and s["rv"]["r"] == "agg" and s["rv"].get("adt", "").startswith(adt_prefix):
                    ident = (sc.fn.id, b, i)
                    item = (sc, s["rv"]["adt"].split("::")[-1], sc.rvalue(s["rv"]), sc.fn.loc(s.get("ln")))
                    helper_instance = prog.root_of(sc.fn).id != f.id
                    if helper_instance:
                        shown = show(item[2])
                        if all(show(x[2]) != shown for x in bound.get(ident, [])):
                            bound.setdefault(ident, []).append(item)
                    else:
                        local.setdefault(ident, item)
    out = []
    for ident in sorted(local):
        if ident in bound:
            out += bound[ident]
        else:
            out.append(local[ident])
    return out


def idmaps_model(ctx, prog):
    """(tables, accessors): tables[field] = (source collection, {(id fn, hashed element)}); accessors[method] = {fields read with get}"""
    idmaps_new = prog.find("bemodel::convert::from_ctehexml::IdMaps::<'a>::new")
    isc = Scope(prog, idmaps_new)
    tbl = None
    for b, i, s in idmaps_new.body.statements():
        if s["s"] == "assign" and s["rv"]["r"] == "agg" and s["rv"].get("adt", "").endswith("IdMaps"):
            tbl = isc.rvalue(s["rv"])
    ctx.require(tbl is not None, "IdMaps literal not found in IdMaps::new")
    tables = {}
    from ..cfgq import inline_helper
    from ..exprs import mkproj
    for fld, v in zip(tbl[2], tbl[3]):
        v = strip(v)
        # a table built through a small helper (`ids_by_name(iterator)`) is read with the helper's body in place of the call
        inl = inline_helper(prog, v) if v[0] == "call" else None
        if inl is not None:
            v = strip(inl)
        if v[0] == "var":
            # a table filled by a loop: `for x in coll { match x { V(e) => table.insert(name, id(e)) .. } }`
            from ..cfgq import norm_for_elem
            ids = set()
            src = None
            for b_, t_ in idmaps_new.body.calls():
                if short_callee(callee_name(t_) or "") == "insert" and len(t_["args"]) == 3:
                    r_ = strip(isc.operand(t_["args"][0]))
                    if r_[0] == "var" and r_[1] == v[1]:
                        val = norm_for_elem(strip(isc.operand(t_["args"][2])))
                        for x in walk(val):
                            idf = id_function(prog, x)
                            if idf:
                                ids.add(idf)
                                src = src or idf[1].split("[]")[0]
            if ids:
                tables[fld] = (src, ids)
                continue
        ch = iter_chain(v)
        src = ch.source_name()
        ids = set()
        # the element flows through the closures of the chain in order: each map/filter_map closure is read with the previous one's result as its element
        elems = [("elem", src, ())]
        for (a, c) in ch.steps:
            if a not in ("map", "filter_map", "flat_map"):
                continue
            cfn = prog.fns.get(closure_id_of(c))
            if not cfn:
                continue
            nxt = []
            for el in elems:
                csc = Scope(prog, cfn, closure_env(strip(c)) if closure_id_of(c) else {}, el)
                for (_, rn) in returned_nodes(cfn.body):
                    r = strip(csc._rw(rn))
                    for x in walk(r):
                        idf = id_function(prog, x)
                        if idf:
                            ids.add(idf)
                    if r[0] == "agg" and r[1].endswith("::Some") and r[3]:
                        nxt.append(strip(r[3][0]))
                    elif r[0] == "agg" and r[1].endswith("::None"):
                        pass
                    else:
                        nxt.append(r)
            elems = nxt[:4] or elems
        tables[fld] = (src, ids)
    accessors = {}
    for f in prog.fns.values():
        if f.root != f.id or not f.path.startswith("bemodel::convert::from_ctehexml::IdMaps::<'a>::") or f.path.endswith("::new"):
            continue
        asc = Scope(prog, f)
        reads = set()
        for bb, t in f.body.calls():
            if short_callee(callee_name(t) or "") in ("get", "get_key_value") and t["args"]:
                nm = leaf_name(strip(asc.operand(t["args"][0]))) or ""
                if nm.startswith("self."):
                    reads.add(nm[len("self."):])
        accessors[f.path.rsplit("::", 1)[-1]] = (reads, f)
    return idmaps_new, tables, accessors


def lookup_kinds(tables, accessors, method):
    """the source elements whose ids a lookup through `method` can return"""
    if method not in accessors:
        return None
    out = set()
    for fld in accessors[method][0]:
        out |= {d for (_, d) in tables.get(fld, (None, set()))[1]} or {"?%s" % fld}
    return out


def kind_problem(tables, accessors, method, target):
    import re as _re
    kinds = lookup_kinds(tables, accessors, method)
    if kinds is None:
        return "looked up with %s, which is not an IdMaps accessor that reads a table" % method
    if not kinds:
        return "looked up with %s, which reads no id table" % method
    want = KIND[target][1]
    wrong = sorted(k for k in kinds if not _re.match("^%s$" % want, k))
    if wrong:
        return ("looked up with %s, whose table also holds ids of %s: a name of another kind resolves to an id that is not in model.%s (expected only %s)"
                % (method, ", ".join(wrong), target, want.replace("\\", "")))
    return None


def run(ctx):
    prog = ctx.prog
    lits = literals(prog)
    idmaps_new, tables, accessors = idmaps_model(ctx, prog)
    ctx.floor("c02", "model literals in the converter", len(lits), 15)
    # reference graph vs type graph: every Uuid position in the Model closure is classified
    check_refgraph_complete(ctx, prog)
    nref = 0
    for (owner, field, target, opt) in REFS:
        tname = OWNER_TYPE.get(owner)
        if tname is None:
            continue
        fname = field.split("[]")[0].lstrip(".").split(".")[0]
        if owner == "cons.wallcons":
            tname, fname = "Layer", "material"
        key = "c02.ref|%s.%s" % (tname, fname)
        found = [(sc, n, loc) for (sc, t, n, loc) in lits if t == tname and fname in n[2]]
        if not found:
            ctx.violation("c02.ref", key, "no %s literal with field %s found in the converter" % (tname, fname), None)
            continue
        for (sc, n, loc) in found:
            nref += 1
            val = n[3][n[2].index(fname)]
            srcs = sources(prog, sc, val)
            probs = []
            modes = set()
            for s in srcs:
                if s.kind == "lookup":
                    kp = kind_problem(tables, accessors, s.what, target)
                    if kp:
                        probs.append(kp)
                    modes.add(s.mode)
                elif s.kind == "local_map":
                    # name -> id map built from the target collection in the same function
                    if target.split(".")[-1] not in s.what:
                        probs.append("looked up in a map built from %s, expected the converted %s" % (s.what, target))
                    modes.add(s.mode)
                elif s.kind == "none":
                    if not opt:
                        probs.append("a non-optional link is set to None")
                elif s.kind == "nil":
                    probs.append("link set to the nil id (Default)")
                else:
                    probs.append("value of unknown origin: %s" % s.what)
            if not any(s.kind in ("lookup", "local_map") for s in srcs):
                probs.append("no lookup feeds this link")
            bad_modes = modes - {"propagated"}
            exc = EXCEPTIONS.get(key)
            if bad_modes and exc and bad_modes == {exc[0]} and not probs:
                ctx.exception("c02.ref", key, "lookup result is %s: %s" % (exc[0], exc[1]), loc)
                continue
            if bad_modes:
                probs.append("a failed lookup is %s instead of being propagated as an error: a broken name yields a nil/missing link" % "/".join(sorted(bad_modes)))
            if probs:
                ctx.violation("c02.ref", key, "; ".join(sorted(set(probs))), loc, extra={"sources": [repr(s) for s in srcs]})
            else:
                ctx.ok("c02.ref", key, "fed by %s" % sorted({repr(s) for s in srcs}), loc)
    ctx.floor("c02.ref", "reference fields examined", nref, 14)

    # IdMaps tables: every table hashes whole source elements with uuid_from_obj; every kind of the reference graph has a table of exactly that kind
    import re as _re
    for fld, (src, ids) in sorted(tables.items()):
        key = "c02.idmaps|%s" % fld
        bad = [i for i in ids if not _re.match(r"^%s\[\](\.1|@\w+\.0)?$" % _re.escape(src or "?"), i[1])]
        if ids and not bad:
            ctx.ok("c02.idmaps", key, "IdMaps.%s: name -> %s" % (fld, ", ".join(sorted("%s(%s)" % i for i in ids))), idmaps_new.loc())
        else:
            ctx.violation("c02.idmaps", key, "IdMaps.%s is built from %s with ids %s, expected an id computed from whole elements of that collection" % (fld, src, sorted(ids)), idmaps_new.loc())
    for target, (bdlcoll, want) in sorted(KIND.items()):
        key = "c02.idmaps|kind|%s" % target
        pure = sorted(m for m in accessors if (lookup_kinds(tables, accessors, m) or set()) and all(_re.match("^%s$" % want, k) for k in lookup_kinds(tables, accessors, m)))
        if pure:
            ctx.ok("c02.idmaps", key, "accessor %s resolves names among %s only" % (pure, want.replace("\\", "")), accessors[pure[0]][1].loc())
        else:
            ctx.violation("c02.idmaps", key, "no IdMaps accessor resolves names among %s only: links to model.%s cannot be checked for kind" % (want.replace("\\", ""), target), idmaps_new.loc())
    ctx.floor("c02.idmaps", "IdMaps tables", len(tables), 8)

    # D2' ids of generated elements: whatever tells two sibling elements apart in their *name* must also reach their id.  A literal whose name
    # depends on a per-iteration quantity (the side of a fin, an index) that its id does not hash gives two elements of one collection the same id
    # as soon as the remaining inputs coincide.
    def var_leaves(node):
        out = set()
        for x in walk(node):
            if x[0] in ("proj", "elem", "arg", "var", "upvar", "named"):
                ln_ = leaf_name(x)
                if ln_:
                    out.add(ln_)
        # keep maximal (most specific) names only
        return {l for l in out if not any(o != l and o.startswith(l) and o[len(l):len(l) + 1] in (".", "[", "@") for o in out)}
    nuniq = 0
    for (sc, t, n, loc) in lits:
        if "id" not in n[2] or "name" not in n[2]:
            continue
        idn = strip(n[3][n[2].index("id")])
        hashed = None
        for x in walk(idn):
            idf = id_function(prog, x)
            if idf:
                hashed = strip(x[2][-1])
        if hashed is None:
            continue
        nuniq += 1
        idl = var_leaves(hashed)
        namel = var_leaves(strip(n[3][n[2].index("name")]))
        def generated_list(base):
            """is `base` a local of this function (or an enclosing one) defined as an array / vec / tuple literal - a list the code itself makes up,
            as opposed to a collection of source elements (where one element yields one literal and key and value identify the same entry)?"""
            if base.startswith(("array{", "vec{", "tuple{")):
                return True
            base = base.split(".")[0]
            s_ = sc
            while s_ is not None:
                for l_, nm_ in s_.body.names.items():
                    if nm_ == base:
                        for d_ in s_.body.defs().get(l_, []):
                            if d_[0] == "st":
                                v_ = strip(s_.eb.rvalue(d_[3]["rv"]))
                                if v_[0] == "agg" and v_[1] in ("array", "vec", "tuple"):
                                    return True
                        return False
                s_ = s_.parent
            return False

        def covered(l):
            for i in idl:
                if l == i or l.startswith(i + ".") or l.startswith(i + "[") or l.startswith(i + "@") or i.startswith(l):
                    return True
                # key and value of one entry of a source collection
                if "[]" in l and "[]" in i and l.split("[]")[0] == i.split("[]")[0] and not generated_list(l.split("[]")[0]):
                    return True
            return False
        def constant_parameter(l):
            """`l` is a parameter of the (private) function this literal sits in, and every call site passes a literal: the value is fixed per call site, each of
            which also passes its own other arguments - it does not tell apart two elements made by the same call"""
            rf = prog.root_of(sc.fn)
            if rf.raw.get("pub"):
                return False
            idx = [i_ for i_, nm_ in rf.body.names.items() if nm_ == l.split(".")[0] and 1 <= i_ <= rf.body.argc]
            if len(idx) != 1:
                return False
            from ..mir import callee_id
            sites_ = []
            for g in prog.fns.values():
                geb = None
                for b_, t_ in g.body.calls():
                    if callee_id(t_) == rf.id:
                        from ..exprs import ExprBuilder as _EB
                        geb = geb or _EB(g.body)
                        sites_.append(strip(geb.operand(t_["args"][idx[0] - 1])))
            return bool(sites_) and all(a_[0] in ("s", "k") or (a_[0] == "kx") for a_ in sites_)
        missing = sorted(l for l in namel if not covered(l) and not constant_parameter(l))
        key = "c02.unique|%s|%s" % (t, prog.display(sc.fn).split("::")[-1] if "{closure" not in prog.display(sc.fn) else prog.root_of(sc.fn).path.split("::")[-1])
        k2, c_ = key, 1
        while any(i.key == k2 for i in ctx.instances):
            c_ += 1
            k2 = "%s|%d" % (key, c_)
        if missing:
            ctx.violation("c02.unique", k2, "the name of this %s depends on %s but its id hashes only %s: two elements generated for the same source element that differ "
                          "only in %s get the same id (ids are not unique within the collection)" % (t, missing, sorted(idl), missing), loc)
        else:
            ctx.ok("c02.unique", k2, "everything the name depends on (%s) also reaches the id" % sorted(namel), loc)
    # D2 element ids
    ID_OF = {"Space": "spaces", "Wall": "walls", "WallCons": "cons.wallcons", "WinCons": "cons.wincons", "Material": "cons.materials", "SpaceLoads": "loads",
             "Thermostat": "thermostats", "Schedule": "schedules.year", "ScheduleWeek": "schedules.week", "ScheduleDay": "schedules.day"}
    for (sc, t, n, loc) in lits:
        if t not in ID_OF or "id" not in n[2]:
            continue
        target = ID_OF[t]
        bdlcoll, want = KIND[target]
        key = "c02.id|%s" % t
        srcs = sources(prog, sc, n[3][n[2].index("id")])
        probs = []
        modes = set()
        for s in srcs:
            if s.kind == "lookup":
                kp = kind_problem(tables, accessors, s.what, target)
                if kp:
                    probs.append("id " + kp)
                modes.add(s.mode)
            elif s.kind == "uuid":
                # must hash the same source object the IdMaps table of this kind hashes
                base = s.what.split("@")[0]
                tfns = {fn_ for (src_, ids_) in tables.values() for (fn_, d_) in ids_ if _re.match("^%s$" % want, d_)}
                if tfns and s.idfn not in tfns:
                    probs.append("id = %s(%s) but the lookup table of this kind computes ids with %s: references to this element may not resolve" % (s.idfn, s.what, sorted(tfns)))
                if not (base.startswith(bdlcoll) or "get(%s" % bdlcoll in s.what):
                    probs.append("id = uuid_from_obj(%s) but the lookup table of this kind hashes elements of %s: references to this element would not resolve" % (s.what, bdlcoll))
            else:
                probs.append("id of unknown origin %s" % s.what)
        bad = modes - {"propagated"}
        exc = EXCEPTIONS.get(key)
        if bad and exc and bad == {exc[0]} and not probs:
            ctx.exception("c02.id", key, "lookup result is %s: %s" % (exc[0], exc[1]), loc)
            continue
        if bad:
            probs.append("id lookup is %s instead of propagated" % "/".join(sorted(bad)))
        if probs:
            ctx.violation("c02.id", key, "; ".join(sorted(set(probs))), loc)
        else:
            ctx.ok("c02.id", key, "id from %s" % sorted({repr(s) for s in srcs}), loc)

    # "so the model checker reports nothing": the checker's only warning that is not about a link - the thermal-bridge length - must not
    # fire for what the converter writes when a bridge has no length (l = 0.0) or a positive one
    from .c15 import analyse_checker
    chk = prog.fn_by_path("bemodel::checks::check")
    _, cres = analyse_checker(ctx, chk, [])
    bl = [(c, loc_) for (canon, idn, loc_, recv, sc_) in cres for c in canon if c[0] == "cmp" and c[2] and c[2].endswith("thermal_bridges[].l")]
    if len(bl) == 1:
        (tag, op, leaf, const, val), loc_ = bl[0]
        import operator
        f_ = {"Lt": operator.lt, "Le": operator.le, "Gt": operator.gt, "Ge": operator.ge}[op]
        fires_at_zero = f_(0.0, float(const)) == bool(val)
        fires_at_one = f_(1.0, float(const)) == bool(val)
        if fires_at_zero or fires_at_one:
            ctx.violation("c02.checker", "c02.checker|bridge-length", "the checker warns about a thermal bridge of length %s (its test is `l %s %s`): the converter writes l = 0.0 for a bridge "
                          "without length, so a valid converted model gets warnings" % ("0" if fires_at_zero else "1", {"Lt": "<", "Le": "<=", "Gt": ">", "Ge": ">="}[op], const), loc_)
        else:
            ctx.ok("c02.checker", "c02.checker|bridge-length", "the bridge-length warning does not fire for l = 0 or l > 0 (what conversion produces)", loc_)
    # ids that come out of a de-duplicated list: Vec::dedup removes *adjacent* duplicates only, so the list must have been sorted first
    for f in sorted(prog.fns.values(), key=lambda f: f.id):
        if not f.path.startswith("bemodel::convert::from_ctehexml::") or f.root != f.id:
            continue
        body = f.body
        eb_ = None
        for b, t in body.calls():
            if short_callee(callee_name(t) or "") in ("dedup", "dedup_by", "dedup_by_key") and t["args"]:
                from ..exprs import ExprBuilder
                eb_ = eb_ or ExprBuilder(body)
                recv = strip(eb_.operand(t["args"][0]))
                key = "c02.unique|dedup|%s|%s" % (f.path.split("::")[-1], leaf_name(recv) or show(recv)[:30])
                sorted_before = False
                for b2, t2 in body.calls():
                    if short_callee(callee_name(t2) or "") in ("sort", "sort_unstable", "sort_by", "sort_by_key", "sort_unstable_by", "sort_unstable_by_key") and t2["args"]:
                        r2 = strip(eb_.operand(t2["args"][0]))
                        if leaf_name(r2) == leaf_name(recv) and body.dominates(b2, b):
                            sorted_before = True
                if sorted_before:
                    ctx.ok("c02.unique", key, "dedup() runs on a list that was sorted just before: every duplicate is removed", f.loc(t.get("ln")))
                else:
                    ctx.violation("c02.unique", key, "dedup() on a list that is not sorted first: only adjacent duplicates are removed, so an element used again later in the file is "
                                  "converted twice (two elements with the same id)", f.loc(t.get("ln")))
    # D3 parser validations
    check_parser_validations(ctx, prog)
    # D4 order
    tf = [x for x in prog.fns.values() if x.raw.get("impl_trait", "") and "TryFrom" in x.raw.get("impl_trait", "")
          and x.raw.get("impl_self", "").endswith("types::model::Model") and x.id.endswith("::try_from")]
    ctx.require(len(tf) == 1, "Model::try_from not found")
    tf = tf[0]
    body = tf.body
    model_bb = None
    for b, i, s in body.statements():
        if s["s"] == "assign" and s["rv"]["r"] == "agg" and s["rv"].get("adt", "").endswith("types::model::Model"):
            model_bb = b
    ctx.require(model_bb is not None, "Model literal not found in try_from")
    for callee in ("cons_from_bdl", "spaces_from_bdl", "walls_from_bdl", "windows_and_shades_from_bdl", "schedules_from_bdl", "loads_from_bdl", "thermostats_from_bdl"):
        key = "c02.order|%s" % callee
        sites = [(b, t) for b, t in body.calls() if (callee_name(t) or "").endswith("::" + callee)]
        if len(sites) != 1:
            ctx.violation("c02.order", key, "%d calls to %s in Model::try_from" % (len(sites), callee), tf.loc())
            continue
        b, t = sites[0]
        kind, detail = consumption(body, b, t)
        if kind == "propagated" and body.dominates(b, model_bb):
            ctx.ok("c02.order", key, "%s(..)? propagated and dominates the Model literal" % callee, tf.loc(t.get("ln")))
        else:
            ctx.violation("c02.order", key, "%s result is %s (%s) / dominates model construction: %s" % (callee, kind, detail, body.dominates(b, model_bb)), tf.loc(t.get("ln")))
    # cons before windows (support of the Window.cons exception)
    order = {}
    for b, t in body.calls():
        for c in ("cons_from_bdl", "windows_and_shades_from_bdl"):
            if (callee_name(t) or "").endswith("::" + c):
                order[c] = b
    if "cons_from_bdl" in order and "windows_and_shades_from_bdl" in order and body.dominates(order["cons_from_bdl"], order["windows_and_shades_from_bdl"]):
        ctx.ok("c02.order", "c02.order|cons<windows", "cons_from_bdl runs (and can fail) before windows are converted", tf.loc())
    else:
        ctx.violation("c02.order", "c02.order|cons<windows", "cons_from_bdl no longer dominates windows_and_shades_from_bdl: the Window.cons exception loses its support", tf.loc())
    # support of the Window.cons exception: cons_from_bdl returns Err for a window construction missing from bdl.db.wincons
    cfb = prog.find("bemodel::convert::from_ctehexml::cons_from_bdl")
    check_err_on_none(ctx, prog, cfb, "bdl.db.wincons", "c02.support|cons_from_bdl|wincons")
    check_err_on_none(ctx, prog, cfb, "bdl.db.wallcons", "c02.support|cons_from_bdl|wallcons")


def check_err_on_none(ctx, prog, fn, mapname, key):
    """a name missing from the map leads to an error return, in fn or in a private function of its module it calls:
    `match map.get(name) { Some(..) => .., _ => return Err(..) }` or `map.get(name).ok_or_else(..)?`"""
    from ..cfgq import same_module
    from ..mir import callee_id
    cands, seen_ = [fn], {fn.id}
    for f_ in cands:
        if len(cands) > 12:
            break
        for b_, t_ in f_.body.calls():
            cid = callee_id(t_)
            if cid in prog.fns and cid not in seen_ and prog.fns[cid].root == cid and same_module(prog.fns[cid].path, fn.path) and not prog.fns[cid].raw.get("pub"):
                seen_.add(cid)
                cands.append(prog.fns[cid])
    bad = None
    for f_ in cands:
        for g in [f_] + prog.closures_of(f_):
            sc = Scope(prog, g)
            body = g.body
            for b, t in body.calls():
                if not (short_callee(callee_name(t) or "") == "get" and (leaf_name(strip(sc.operand(t["args"][0]))) or "").endswith(mapname)):
                    continue
                kind, detail = consumption(body, b, t)
                if kind == "propagated":
                    ctx.ok("c02.support", key, "a name missing from %s leads to an Err return (`?` on the lookup)" % mapname, g.loc(t.get("ln")))
                    return
                # find the switch on the discriminant of the result
                cur = t.get("to")
                for _ in range(4):
                    if cur is None:
                        break
                    tt = body.blocks[cur]["term"]
                    if tt["t"] == "switch":
                        none_t = None
                        for v, tg in tt["arms"]:
                            if v == "0":
                                none_t = tg
                        if none_t is None:
                            none_t = tt["else"]
                        if leads_to_err(body, none_t):
                            ctx.ok("c02.support", key, "a name missing from %s leads to an Err return" % mapname, g.loc(t.get("ln")))
                            return
                        bad = (g, t)
                        break
                    if tt["t"] == "goto":
                        cur = tt["to"]
                    else:
                        break
    if bad is not None:
        ctx.violation("c02.support", key, "a name missing from %s no longer leads to an error return" % mapname, bad[0].loc(bad[1].get("ln")))
    else:
        ctx.violation("c02.support", key, "lookup of %s with an error arm not found in %s (nor in the private functions it calls)" % (mapname, fn.path), fn.loc())


def leads_to_err(body, start):
    """every path from `start` to the return assigns _0 an Err aggregate / from_residual and pushes nothing"""
    seen = set()
    work = [start]
    found_err = False
    while work:
        b = work.pop()
        if b in seen:
            continue
        seen.add(b)
        for s in body.blocks[b]["st"]:
            if s["s"] == "assign" and pl_local(s["p"]) == 0:
                rv = s["rv"]
                if rv["r"] == "agg" and rv.get("variant") == "Err":
                    found_err = True
                elif rv["r"] == "agg" and rv.get("variant") == "Ok":
                    return False
        t = body.blocks[b]["term"]
        if t["t"] == "call":
            nm = callee_name(t) or ""
            if nm.endswith("from_residual") and t["dest"] == 0:
                found_err = True
            if short_callee(nm) in ("push", "insert") and "Vec" in nm:
                return False
        if t["t"] == "return":
            continue
        if len(seen) > 60:
            return False
        work.extend(body.succs(b))
    return found_err


def check_parser_validations(ctx, prog):
    dn = prog.find("hulc::bdl::Data::new")
    sc = Scope(prog, dn)
    body = dn.body
    wanted = {
        "space polygon": ("get", "polygons"), "space floor": ("get", "floors"), "wall polygon": ("remove", "polygons"),
        "construction layers": ("get_mut", "layers"), "wall construction": ("contains_key", "wallcons"),
    }
    n = 0
    missing_ = []
    for label, (meth, coll) in wanted.items():
        key = "c02.parser|%s" % label
        hit = None
        for s2 in sc.all_scopes():
            for b, t in s2.body.calls():
                nm = callee_name(t) or ""
                if short_callee(nm) in ("get", "get_mut", "remove", "contains_key", "get_key_value", "remove_entry") and ("BTreeMap" in nm or "HashMap" in nm):
                    recv = leaf_name(strip(s2.operand(t["args"][0]))) or ""
                    raw = leaf_name(strip(s2.eb.operand(t["args"][0]))) or ""     # as named inside a helper (its parameter), before binding to the caller's value
                    if recv.split(".")[-1] == coll or raw.split(".")[-1] == coll:
                        hit = (s2, b, t)
                        break
            if hit:
                break
        if not hit:
            missing_.append((key, coll, meth))
            continue
        s2, b, t = hit
        n += 1
        if b not in s2.body.reachable():
            ctx.violation("c02.parser", key, "the validation %s.%s(..) is dead code (unreachable): a broken %s reference is no longer rejected" % (coll, meth, label), s2.fn.loc(t.get("ln")))
            continue
        kind, detail = consumption(s2.body, b, t)
        okk = kind == "propagated"
        if not okk:
            # handled: failure edge leads to an error return (bail!/Err)
            nb = t.get("to")
            cur = nb
            for _ in range(6):
                tt = s2.body.blocks[cur]["term"]
                if tt["t"] == "switch":
                    # for contains_key: false edge; for Option: None edge
                    fail = None
                    for v, tg in tt["arms"]:
                        if v == "0":
                            fail = tg
                    if fail is not None and leads_to_err(s2.body, fail):
                        okk = True
                    break
                if tt["t"] == "goto":
                    cur = tt["to"]
                elif tt["t"] == "call" and short_callee(callee_name(tt) or "") in ("ok_or_else", "ok_or", "branch", "copied", "cloned", "context", "with_context", "map"):
                    k2, _ = consumption(s2.body, cur, tt)
                    if k2 == "propagated":
                        okk = True
                    cur = tt.get("to")
                    if okk or cur is None:
                        break
                else:
                    break
        if okk:
            ctx.ok("c02.parser", key, "a missing %s leads to an error return" % label, s2.fn.loc(t.get("ln")))
        else:
            ctx.violation("c02.parser", key, "the result of %s.%s(..) is %s: a broken %s reference is no longer rejected" % (coll, meth, kind, label), s2.fn.loc(t.get("ln")))
    # a validation that is absent while the others are found where expected is a finding; when most of them cannot be found the parser is written in a form
    # this rule does not read (the floor below reports that as undecided)
    if missing_ and n >= 3:
        for key, coll, meth in missing_:
            ctx.violation("c02.parser", key, "validation lookup %s.%s(..) not found in Data::new or the private functions it calls" % (coll, meth), dn.loc())
    ctx.floor("c02.parser", "parser validations", n + (len(missing_) if missing_ and n >= 3 else 0), 5)


def check_refgraph_complete(ctx, prog):
    model = prog.adt("bemodel::types::model::Model")
    seen, ext, fields = T.closure(prog, [model["id"]])
    known = set()
    for (owner, field, target, opt) in REFS:
        known.add(field.split("[]")[0].lstrip(".").split(".")[0])
        known.add(field.split("[]")[-1].lstrip(".") if "[]." in field else field.lstrip("."))
    uu = []
    for (adt, vn, f) in fields:
        ids = T.tree_adts(f["tree"])
        if "uuid::Uuid" in ids:
            uu.append((adt["path"].split("::")[-1], f["name"]))
    unclassified = [(a, f) for (a, f) in uu if f not in known and f != "id" and not (a in ("PropsOverrides",) or a == "ExtraData")]
    if unclassified:
        raise AnalysisError("Uuid-typed positions not classified in the reference graph: %s" % unclassified)
    ctx.ok("c02.refgraph", "c02.refgraph|complete", "%d Uuid-typed positions in the Model closure, all ids or classified references" % len(uu), None)


def run_fixture(ctx):
    prog = ctx.prog
    f = prog.fn_by_path("poscontrol::c02_convert")
    sc = Scope(prog, f)
    for s2 in sc.all_scopes():
        for b, i, s in s2.body.statements():
            if s["s"] == "assign" and s["rv"]["r"] == "agg" and s["rv"].get("adt", "").endswith("C02Wall"):
                n = s2.rvalue(s["rv"])
                srcs = sources(prog, s2, n[3][n[2].index("space")])
                if any(x.mode == "defaulted" for x in srcs):
                    ctx.violation("c02.ref", "fixture", "defaulted lookup", f.loc())
