"""C13/C12 - reveal surfaces of a set-back window, decided by exact symbolic geometry.

Each reveal is a WallGeom (tilt, azimuth, position, polygon) whose angles differ from the wall's by multiples of 90 degrees and whose position
is a point of the wall plane.  Its corners are carried into the wall's own frame with exact 90-degree rotation matrices (entries 0, +-1) and
linear polynomials in the window's width W, height H, setback S and position (X, Y); the four reveals must be exactly the four rectangles that
span the gap between the wall plane (z = 0) and the window plane (z = -S) along the window's edges.  The jambs are evaluated for a vertical
wall (tilt 90), where a turn about the vertical axis is a turn about the wall's own Y axis; lintel and sill are exact for every tilt.
"""
from fractions import Fraction

from ..cfgq import Scope, inline_helper
from ..exprs import strip, short_callee, show, leaf_name, walk, Normalizer, Poly
from ..facts import AnalysisError

SYMS = {"self.geometry.width": "W", "self.geometry.height": "H", "self.geometry.setback": "S"}


def _coords(n):
    """coordinate nodes of a `point![..]` literal"""
    n = strip(n)
    for x in walk(n):
        if x[0] == "agg" and x[1] == "array" and len(x[3]) in (2, 3) and not (strip(x[3][0])[0] == "agg" and strip(x[3][0])[1] == "array"):
            return [strip(c) for c in x[3]]
    return None


def _lin(nz, n):
    r = nz.code(strip(n))
    if nz.unknown:
        raise AnalysisError("reveal geometry: quantity %s is not one of width/height/setback/position" % nz.unknown[:2])
    if str(r.den) not in ("1", "(1)") and not r.den.is_one():
        raise AnalysisError("reveal geometry: non-polynomial coordinate %s" % r)
    return r.num


def _rot(axis, quarter):
    c = [1, 0, -1, 0][quarter % 4]
    s = [0, 1, 0, -1][quarter % 4]
    if axis == "x":
        return [[1, 0, 0], [0, c, -s], [0, s, c]]
    return [[c, -s, 0], [s, c, 0], [0, 0, 1]]


def _mul(a, b):
    return [[sum(a[i][k] * b[k][j] for k in range(3)) for j in range(3)] for i in range(3)]


def _quarters(nz, node, base_name):
    """node = base + k*90 -> k"""
    n = strip(node)
    lm = dict(nz.leafmap)
    p = Normalizer({base_name: "B"}, {}, strict=False).code(n)
    ref = Normalizer({}, {}, strict=False)
    for k in (-2, -1, 0, 1, 2):
        if p.equals(ref.ref("B + %d" % (90 * k))):
            return k
    return None


def reveals(prog):
    """[(loc, quarter turns of tilt, of azimuth, position polys (x,y,z), polygon corner polys [(x,y)..])] of the four reveal shades"""
    f = prog.find("bemodel::types::window::Window::shades_for_setback")
    sc = Scope(prog, f)
    lits = []

    def geom_of(node, ln):
        node = strip(node)
        if node[0] == "agg" and node[1].endswith("::WallGeom"):
            lits.append((dict(zip(node[2], node[3])), ln))
            return True
        return False
    # WallGeom literals of this function, or built by a straight-line helper called from it (looked through with its arguments bound)
    for b, i, s in f.body.statements():
        if s["s"] == "assign" and s["rv"]["r"] == "agg" and s["rv"].get("adt", "").endswith("::WallGeom"):
            geom_of(sc.rvalue(s["rv"]), s.get("ln"))
    for b, t in f.body.calls():
        n = sc._rw(sc.eb.call_node(t, b))
        inl = inline_helper(prog, strip(n)) if n[0] == "call" else None
        if inl is not None:
            for x in walk(inl):
                if x[0] == "agg" and x[1].endswith("::WallGeom"):
                    lits.append((dict(zip(x[2], x[3])), t.get("ln")))
    out = []
    for fl, ln in lits:
        nz = Normalizer(dict(SYMS, **{"wpos.x": "X", "wpos.y": "Y"}), {}, strict=False)
        kt = _quarters(nz, fl["tilt"], "wallgeom.tilt")
        ka = _quarters(nz, fl["azimuth"], "wallgeom.azimuth")
        if kt is None or ka is None:
            raise AnalysisError("reveal geometry: tilt/azimuth are not the wall's plus a multiple of 90 degrees (%s, %s)" % (show(strip(fl["tilt"]))[:40], show(strip(fl["azimuth"]))[:40]))
        pos = strip(fl["position"])
        if not (pos[0] == "agg" and pos[1].endswith("Some")):
            raise AnalysisError("reveal geometry: position is not Some(..)")
        m = strip(pos[3][0])
        if not (m[0] == "call" and short_callee(m[1]) == "mul" and "to_global_coords_matrix" in show(m[2][0])):
            raise AnalysisError("reveal geometry: position is not wall2world * point: %s" % show(m)[:80])
        pc = _coords(m[2][1])
        if pc is None or len(pc) != 3:
            raise AnalysisError("reveal geometry: anchor point not readable")
        # wpos comes from `self.geometry.position` matched Some(pos): name its components X, Y
        def lin(n):
            nz2 = Normalizer(SYMS, {}, strict=False)
            r = nz2.code(strip(n))
            unk = [u for u in nz2.unknown]
            # rename the window-position leaves
            return r, unk
        anchor = []
        for c in pc:
            nz2 = Normalizer(SYMS, {}, strict=False)
            txt = show(c)
            nz2.leafmap = dict(SYMS)
            for x in walk(c):
                ln_ = leaf_name(x) if x[0] in ("proj", "var", "arg") else None
                if ln_ and ln_.endswith(".x") and ln_ not in SYMS:
                    nz2.leafmap[ln_] = "X"
                if ln_ and ln_.endswith(".y") and ln_ not in SYMS:
                    nz2.leafmap[ln_] = "Y"
            r = nz2.code(c)
            if nz2.unknown:
                raise AnalysisError("reveal geometry: anchor coordinate uses %s" % nz2.unknown[:2])
            anchor.append(r)
        poly = strip(fl["polygon"])
        inl = inline_helper(prog, poly) if poly[0] == "call" else None
        if inl is not None:
            poly = strip(inl)
        if not (poly[0] == "agg" and poly[1] == "vec" and len(poly[3]) == 4):
            raise AnalysisError("reveal geometry: polygon is not a vec! of four points: %s" % show(poly)[:60])
        corners = []
        for p in poly[3]:
            cs = _coords(p)
            if cs is None or len(cs) != 2:
                raise AnalysisError("reveal geometry: polygon point not readable")
            row = []
            for c in cs:
                nz3 = Normalizer(SYMS, {}, strict=False)
                r = nz3.code(c)
                if nz3.unknown:
                    raise AnalysisError("reveal geometry: polygon coordinate uses %s" % nz3.unknown[:2])
                row.append(r)
            corners.append(row)
        out.append((f.loc(ln), kt, ka, anchor, corners))
    return f, out


def check_reveals(ctx, rule, prefix):
    prog = ctx.prog
    f, revs = reveals(prog)
    ctx.require(len(revs) == 4, "shades_for_setback: expected four reveal geometries, found %d" % len(revs))
    nz = Normalizer({}, {}, strict=False)
    zero = nz.ref("0")
    expect = {
        "lintel": [("X", "Y + H", "0"), ("X + W", "Y + H", "0"), ("X", "Y + H", "0 - S"), ("X + W", "Y + H", "0 - S")],
        "sill": [("X", "Y", "0"), ("X + W", "Y", "0"), ("X", "Y", "0 - S"), ("X + W", "Y", "0 - S")],
        "left jamb": [("X", "Y", "0"), ("X", "Y + H", "0"), ("X", "Y", "0 - S"), ("X", "Y + H", "0 - S")],
        "right jamb": [("X + W", "Y", "0"), ("X + W", "Y + H", "0"), ("X + W", "Y", "0 - S"), ("X + W", "Y + H", "0 - S")],
    }
    got = []
    for (loc, kt, ka, anchor, corners) in revs:
        # reveal frame -> wall frame, for a vertical wall (tilt = 90 degrees = 1 quarter): Rx(-t) Rz(ka) Rx(t + kt)
        M = _mul(_mul(_rot("x", -1), _rot("z", ka)), _rot("x", 1 + kt))
        pts = []
        for (px, py) in corners:
            v = [px, py, zero]
            w = []
            for i in range(3):
                acc = anchor[i]
                for j in range(3):
                    if M[i][j] == 1:
                        acc = acc + v[j]
                    elif M[i][j] == -1:
                        acc = acc - v[j]
                w.append(acc)
            pts.append(w)
        got.append((loc, kt, ka, pts))
    used = set()
    for (loc, kt, ka, pts) in got:
        match = None
        for name, exp in expect.items():
            exp_r = [[nz.ref(c) for c in p] for p in exp]
            if len(pts) == 4 and all(any(all(a.equals(b) for a, b in zip(p, e)) for e in exp_r) for p in pts) and \
                    all(any(all(a.equals(b) for a, b in zip(p, e)) for p in pts) for e in exp_r):
                match = name
        key = "%s|reveal|tilt%+d,az%+d" % (prefix, 90 * kt, 90 * ka)
        if match and match not in used:
            used.add(match)
            ctx.ok(rule, key, "%s: spans z in [-setback, 0] along the window's %s edge (corners in the wall's frame agree with the four expected points)" % (match, match), loc)
        else:
            zs = sorted({str(p[2]) for p in pts})
            ctx.violation(rule, key, "the reveal built with tilt%+d / azimuth%+d does not span the gap between the wall plane and the window plane along an edge of the window: "
                          "in the wall's frame its corners are %s (depths %s; expected depths 0 and -S, i.e. from the wall plane back to the glazing)"
                          % (90 * kt, 90 * ka, ["(%s, %s, %s)" % tuple(str(c) for c in p) for p in pts], zs), loc)
    if len(used) == 4:
        ctx.ok(rule, "%s|reveal|four-edges" % prefix, "lintel, sill and both jambs are present, one each", f.loc())
