"""C13/C12 - reveal surfaces of a set-back window, decided by exact symbolic geometry, for every tilt of the wall.

Each reveal is a WallGeom (tilt, azimuth, position, polygon).  Its azimuth is the wall's plus a multiple of 90 degrees; its tilt is the wall's
plus a multiple of 90 degrees or a constant multiple of 90 degrees; its position is a point of the wall plane given in the wall's frame; its
polygon corners are polynomials in the window's width W, height H, setback S and in the sine and cosine of the wall's tilt (possibly written
as sin/cos of `tilt + k*90`).  With s = sin(tilt), c = cos(tilt) as symbols and c*c = 1 - s*s as the only relation, every corner is carried
into the wall's own frame exactly:   corner_wall = anchor + Rx(-tilt) Rz(k_a*90) Rx(tilt_reveal) (px, py, 0),
and the four reveals must be exactly the four rectangles that span the gap between the wall plane (z = 0) and the window plane (z = -S)
along the window's edges - as polynomial identities, i.e. for walls of any tilt and azimuth.
"""
from fractions import Fraction

from ..cfgq import Scope, inline_helper
from ..exprs import strip, short_callee, show, leaf_name, walk, Normalizer, Poly, is_arith_op, TRANSPARENT
from ..facts import AnalysisError

SYMS = {"self.geometry.width": "W", "self.geometry.height": "H", "self.geometry.setback": "S"}
TILT = "wallgeom.tilt"


def _coords(n):
    """coordinate nodes of a `point![..]` literal"""
    n = strip(n)
    for x in walk(n):
        if x[0] == "agg" and x[1] == "array" and len(x[3]) in (2, 3) and not (strip(x[3][0])[0] == "agg" and strip(x[3][0])[1] == "array"):
            return [strip(c) for c in x[3]]
    return None


def _reduce(p):
    """normal form modulo c*c = 1 - s*s"""
    while True:
        hit = None
        for m in p.t:
            d = dict(m)
            if d.get("c", 0) >= 2:
                hit = m
                break
        if hit is None:
            return p
        coef = p.t[hit]
        d = dict(hit)
        d["c"] -= 2
        if d["c"] == 0:
            del d["c"]
        rest = Poly({tuple(sorted(d.items())): coef})
        p = p - Poly({hit: coef}) + rest * (Poly.const(1) - Poly.atom("s") * Poly.atom("s"))


def _quarter_trig(k):
    """(cos, sin) of (tilt + 90 k) as polynomials in c, s"""
    c, s = Poly.atom("c"), Poly.atom("s")
    return [(c, s), (-s, c), (-c, -s), (s, -c)][k % 4]


def _angle_quarters(n):
    """node = wall tilt + 90 k (degrees)  -> k, or None"""
    p = Normalizer({TILT: "B"}, {}, strict=False).code(strip(n))
    ref = Normalizer({}, {}, strict=False)
    for k in range(-4, 5):
        if p.equals(ref.ref("B + %d" % (90 * k))):
            return k
    return None


def _angle_quarters_neg(n):
    """node = 90 k - wall tilt (degrees)  -> k, or None"""
    p = Normalizer({TILT: "B"}, {}, strict=False).code(strip(n))
    ref = Normalizer({}, {}, strict=False)
    for k in range(-4, 5):
        if p.equals(ref.ref("%d - B" % (90 * k))):
            return k
    return None


def _const_quarters(n):
    """constant angle that is a multiple of 90 degrees -> k, or None"""
    p = Normalizer({}, {}, strict=False).code(strip(n))
    if p.d.is_const() and p.n.is_const() and not p.d.is_zero():
        v = p.n.const_value() / p.d.const_value()
        if v % 90 == 0:
            return int(v // 90)
    return None


def _trig_of(n):
    """n = sin(..)/cos(..) of the wall's tilt (+ 90 k), written with to_radians(), sin(), cos() or sin_cos().N -> Poly, else None"""
    n = strip(n)
    which = None
    arg = None
    if n[0] == "call" and short_callee(n[1]) in ("sin", "cos") and len(n[2]) == 1:
        which, arg = short_callee(n[1]), strip(n[2][0])
    elif n[0] == "proj" and n[2] in ((".0",), (".1",)) and strip(n[1])[0] == "call" and short_callee(strip(n[1])[1]) == "sin_cos":
        which, arg = ("sin" if n[2] == (".0",) else "cos"), strip(strip(n[1])[2][0])
    if which is None:
        return None
    if not (arg[0] == "call" and short_callee(arg[1]) == "to_radians" and len(arg[2]) == 1):
        raise AnalysisError("reveal geometry: %s of something that is not an angle in degrees turned to radians: %s" % (which, show(arg)[:60]))
    k = _angle_quarters(arg[2][0])
    if k is None:
        # 90 k - tilt: cos(90k - t) = cos(t - 90k), sin(90k - t) = -sin(t - 90k)
        km = _angle_quarters_neg(arg[2][0])
        if km is None:
            raise AnalysisError("reveal geometry: %s of an angle that is not plus or minus the wall's tilt plus a multiple of 90 degrees: %s" % (which, show(arg[2][0])[:60]))
        co, si = _quarter_trig(-km)
        return -si if which == "sin" else co
    co, si = _quarter_trig(k)
    return si if which == "sin" else co


def _poly(n, leaves):
    """polynomial over W, H, S, X, Y, s, c of a coordinate expression"""
    n = strip(n)
    k = n[0]
    t = _trig_of(n)
    if t is not None:
        return t
    if k == "k":
        try:
            return Poly.const(Fraction(n[1]))
        except (ValueError, ZeroDivisionError):
            raise AnalysisError("reveal geometry: non-numeric constant %r" % (n[1],))
    if k == "cast":
        return _poly(n[1], leaves)
    if k == "un" and n[1] == "Neg":
        return -_poly(n[2], leaves)
    if k == "bin" or (k == "call" and short_callee(n[1]) in ("add", "sub", "mul") and is_arith_op(n[1]) and len(n[2]) == 2):
        op = n[1] if k == "bin" else {"add": "Add", "sub": "Sub", "mul": "Mul"}[short_callee(n[1])]
        a, b = (n[2], n[3]) if k == "bin" else (n[2][0], n[2][1])
        a, b = _poly(a, leaves), _poly(b, leaves)
        if op.startswith("Add"):
            return a + b
        if op.startswith("Sub"):
            return a - b
        if op.startswith("Mul"):
            return a * b
        raise AnalysisError("reveal geometry: operator %s in a coordinate" % op)
    if k == "call" and short_callee(n[1]) == "neg" and is_arith_op(n[1]):
        return -_poly(n[2][0], leaves)
    if k == "call" and short_callee(n[1]) in TRANSPARENT and len(n[2]) == 1:
        return _poly(n[2][0], leaves)
    ln = leaf_name(n)
    if ln is not None:
        if ln in SYMS:
            return Poly.atom(SYMS[ln])
        if leaves and ln.endswith(".x"):
            return Poly.atom("X")
        if leaves and ln.endswith(".y"):
            return Poly.atom("Y")
    raise AnalysisError("reveal geometry: coordinate uses %s, which is not the window's width/height/setback/position or the wall's tilt" % (ln or show(n)[:80]))


def _rx(co, si):
    one, zero = Poly.const(1), Poly.const(0)
    return [[one, zero, zero], [zero, co, -si], [zero, si, co]]


def _rz_quarter(k):
    c = Poly.const([1, 0, -1, 0][k % 4])
    s = Poly.const([0, 1, 0, -1][k % 4])
    one, zero = Poly.const(1), Poly.const(0)
    return [[c, -s, zero], [s, c, zero], [zero, zero, one]]


def _mul(a, b):
    out = []
    for i in range(3):
        row = []
        for j in range(3):
            acc = Poly.const(0)
            for k in range(3):
                acc = acc + a[i][k] * b[k][j]
            row.append(_reduce(acc))
        out.append(row)
    return out


def reveals(prog):
    """[(loc, quarter turns of tilt, of azimuth, position polys (x,y,z), polygon corner polys [(x,y)..])] of the four reveal shades"""
    f = prog.find("bemodel::types::window::Window::shades_for_setback")
    sc = Scope(prog, f)
    lits = []

    def geom_of(node, ln):
        node = strip(node)
        if node[0] == "agg" and node[1].endswith("::WallGeom"):
            lits.append((dict(zip(node[2], node[3])), ln))
            return True
        return False
    # WallGeom literals of this function, or built by a straight-line helper called from it (looked through with its arguments bound)
    for b, i, s in f.body.statements():
        if s["s"] == "assign" and s["rv"]["r"] == "agg" and s["rv"].get("adt", "").endswith("::WallGeom"):
            geom_of(sc.rvalue(s["rv"]), s.get("ln"))
    for b, t in f.body.calls():
        n = sc._rw(sc.eb.call_node(t, b))
        inl = inline_helper(prog, strip(n)) if n[0] == "call" else None
        if inl is not None:
            for x in walk(inl):
                if x[0] == "agg" and x[1].endswith("::WallGeom"):
                    lits.append((dict(zip(x[2], x[3])), t.get("ln")))
    # the same literal can be met twice (as written, and again inside the inlined helper it is passed to): keep one of each
    uniq, seen_l = [], set()
    for fl, ln in lits:
        sig = tuple(sorted((k_, show(strip(v_))) for k_, v_ in fl.items()))
        if sig not in seen_l:
            seen_l.add(sig)
            uniq.append((fl, ln))
    lits = uniq
    out = []
    for fl, ln in lits:
        # tilt of the reveal: the wall's plus quarter turns ("rel", k) or a constant number of quarter turns ("abs", k)
        kt = _angle_quarters(fl["tilt"])
        tilt = ("rel", kt) if kt is not None else None
        if tilt is None:
            kc = _const_quarters(fl["tilt"])
            tilt = ("abs", kc) if kc is not None else None
        nz_a = Normalizer({"wallgeom.azimuth": "B"}, {}, strict=False)
        pa = nz_a.code(strip(fl["azimuth"]))
        ka = None
        for k in range(-4, 5):
            if pa.equals(Normalizer({}, {}, strict=False).ref("B + %d" % (90 * k))):
                ka = k
        if tilt is None or ka is None:
            raise AnalysisError("reveal geometry: tilt/azimuth are not the wall's plus a multiple of 90 degrees, nor a constant multiple of 90 (%s, %s)"
                                % (show(strip(fl["tilt"]))[:40], show(strip(fl["azimuth"]))[:40]))
        pos = strip(fl["position"])
        if not (pos[0] == "agg" and pos[1].endswith("Some")):
            raise AnalysisError("reveal geometry: position is not Some(..)")
        m = strip(pos[3][0])
        if not (m[0] == "call" and short_callee(m[1]) == "mul" and "to_global_coords_matrix" in show(m[2][0])):
            raise AnalysisError("reveal geometry: position is not wall2world * point: %s" % show(m)[:80])
        pc = _coords(m[2][1])
        if pc is None or len(pc) != 3:
            raise AnalysisError("reveal geometry: anchor point not readable")
        anchor = [_poly(c, True) for c in pc]
        poly = strip(fl["polygon"])
        inl = inline_helper(prog, poly) if poly[0] == "call" else None
        if inl is not None:
            poly = strip(inl)
        if not (poly[0] == "agg" and poly[1] == "vec" and len(poly[3]) == 4):
            raise AnalysisError("reveal geometry: polygon is not a vec! of four points: %s" % show(poly)[:60])
        corners = []
        for p_ in poly[3]:
            cs = _coords(p_)
            if cs is None or len(cs) != 2:
                raise AnalysisError("reveal geometry: polygon point not readable")
            corners.append([_poly(c, False) for c in cs])
        out.append((f.loc(ln), tilt, ka, anchor, corners))
    return f, out


def _tilt_text(tilt):
    return "tilt%+d" % (90 * tilt[1]) if tilt[0] == "rel" else "tilt=%d" % (90 * tilt[1])


def check_reveals(ctx, rule, prefix):
    prog = ctx.prog
    f, revs = reveals(prog)
    ctx.require(len(revs) == 4, "shades_for_setback: expected four reveal geometries, found %d" % len(revs))

    def P(text):
        r = Normalizer({}, {}, strict=False).ref(text)
        return r.n
    expect = {
        "lintel": [("X", "Y + H", "0"), ("X + W", "Y + H", "0"), ("X", "Y + H", "0 - S"), ("X + W", "Y + H", "0 - S")],
        "sill": [("X", "Y", "0"), ("X + W", "Y", "0"), ("X", "Y", "0 - S"), ("X + W", "Y", "0 - S")],
        "left jamb": [("X", "Y", "0"), ("X", "Y + H", "0"), ("X", "Y", "0 - S"), ("X", "Y + H", "0 - S")],
        "right jamb": [("X + W", "Y", "0"), ("X + W", "Y + H", "0"), ("X + W", "Y", "0 - S"), ("X + W", "Y + H", "0 - S")],
    }
    c, s = Poly.atom("c"), Poly.atom("s")
    got = []
    for (loc, tilt, ka, anchor, corners) in revs:
        if tilt[0] == "rel":
            co, si = _quarter_trig(tilt[1])
        else:
            co, si = Poly.const([1, 0, -1, 0][tilt[1] % 4]), Poly.const([0, 1, 0, -1][tilt[1] % 4])
        # reveal frame -> wall frame: Rx(-t) Rz(90 ka) Rx(t_reveal), exact in s = sin t, c = cos t
        M = _mul(_mul(_rx(c, -s), _rz_quarter(ka)), _rx(co, si))
        pts = []
        for (px, py) in corners:
            v = [px, py, Poly.const(0)]
            pts.append([_reduce(anchor[i] + M[i][0] * v[0] + M[i][1] * v[1] + M[i][2] * v[2]) for i in range(3)])
        got.append((loc, tilt, ka, pts))
    used = set()
    for (loc, tilt, ka, pts) in got:
        match = None
        for name, exp in expect.items():
            exp_r = [[P(c_) for c_ in p_] for p_ in exp]
            if len(pts) == 4 and all(any(all(a == b for a, b in zip(p_, e)) for e in exp_r) for p_ in pts) and \
                    all(any(all(a == b for a, b in zip(p_, e)) for p_ in pts) for e in exp_r):
                match = name
        key = "%s|reveal|%s,az%+d" % (prefix, _tilt_text(tilt), 90 * ka)
        if match and match not in used:
            used.add(match)
            ctx.ok(rule, key, "%s: spans z in [-setback, 0] along the window's %s edge for every tilt of the wall (corners in the wall's frame agree with the four expected "
                   "points as polynomial identities in sin/cos of the tilt)" % (match, match), loc)
        else:
            # does it at least hold for a vertical wall?  (s = 1, c = 0)
            def at_vertical(p_):
                t = {}
                for m_, cf in p_.t.items():
                    d = dict(m_)
                    if d.get("c"):
                        continue
                    d.pop("s", None)
                    k_ = tuple(sorted(d.items()))
                    t[k_] = t.get(k_, 0) + cf
                return Poly(t)
            vpts = [[at_vertical(c_) for c_ in p_] for p_ in pts]
            vmatch = None
            for name, exp in expect.items():
                exp_r = [[P(c_) for c_ in p_] for p_ in exp]
                if all(any(all(a == b for a, b in zip(p_, e)) for e in exp_r) for p_ in vpts) and all(any(all(a == b for a, b in zip(p_, e)) for p_ in vpts) for e in exp_r):
                    vmatch = name
            zs = sorted({str(p_[2]) for p_ in pts})
            extra = (" It is the %s on a vertical wall only (sin t = 1, cos t = 0): on a tilted or horizontal wall it does not stand perpendicular to the wall." % vmatch) if vmatch else ""
            ctx.violation(rule, key, "the reveal built with %s / azimuth%+d does not span the gap between the wall plane and the window plane along an edge of the window for every "
                          "wall tilt: in the wall's frame (s = sin tilt, c = cos tilt) its corners are %s (depths %s; expected depths 0 and -S, i.e. from the wall plane back to the "
                          "glazing).%s" % (_tilt_text(tilt), 90 * ka, ["(%s, %s, %s)" % tuple(str(c_) for c_ in p_) for p_ in pts], zs, extra), loc)
    if len(used) == 4:
        ctx.ok(rule, "%s|reveal|four-edges" % prefix, "lintel, sill and both jambs are present, one each", f.loc())


def check_reveal_frame(ctx, rule, prefix):
    """the window's position is given in the frame of its wall's polygon (origin at the first vertex, X along the first side): the sample points are carried
    to world coordinates through to_polygon_coords_matrix and then to_global_coords_matrix.  The reveal surfaces of the same window must be placed through
    the same two frames, or they are somewhere else than the window whenever the wall's polygon does not start at (0,0) along +X"""
    from ..mir import callee_name
    prog = ctx.prog

    def frames_used(fn_):
        out = set()
        for f_ in [fn_] + prog.closures_of(fn_):
            for _, t_ in f_.body.calls():
                s_ = short_callee(callee_name(t_) or "")
                if s_ in ("to_global_coords_matrix", "to_polygon_coords_matrix"):
                    out.add(s_)
        return out
    rof_ = prog.method("types::model::Model", None, "ray_origins_for_window")
    sfs_ = prog.find("bemodel::types::window::Window::shades_for_setback")
    fa, fb = frames_used(rof_), frames_used(sfs_)
    ctx.require("to_global_coords_matrix" in fa and "to_global_coords_matrix" in fb, "frame functions of the window position not found (%s / %s)" % (sorted(fa), sorted(fb)))
    key = "%s|reveal-frame" % prefix
    if fa == fb:
        ctx.ok(rule, key, "sample points and reveal surfaces of a window go through the same frames (%s)" % sorted(fa), sfs_.loc())
    else:
        ctx.violation(rule, key, "the sample points of a window are placed through %s, its reveal surfaces through %s: on a wall whose polygon does "
                      "not start at (0,0) with its first side along +X (roofs and floors that keep the outline of their space) the reveals are built away from the window "
                      "and do not shade it" % (sorted(fa), sorted(fb)), sfs_.loc())
