"""C04 - The JSON model format is lossless, idempotent and stable (schema audit)."""
import glob
import json
import os
import re
import struct

from .. import types as T
from ..cfgq import returned_nodes, strip, Scope
from ..exprs import ExprBuilder, short_callee, show, leaf_name, walk
from ..facts import AnalysisError, REPO
from ..mir import callee_name

ID = "C04"
LEVEL = "other"
RULE_TEXT = ("every serde attribute of every type in the Model closure is an instance (skip/default pairing, forbidden attributes, derived-ness, "
             "untagged/flatten key sets, map keys); every value of every shipped model file is walked against the schema derived from the same facts")
EXPLANATION = ("D1 skip_serializing_if predicates pair with the deserialisation default (helper bodies read from MIR; custom is_empty covers all fields); "
               "D2 no lossy/asymmetric attribute, both traits derived; D3 untagged/flatten key sets unambiguous; D4 string-like map keys, no hash containers; "
               "D5 each shipped file contains only known keys, no key holding its skip-default, all required keys, numbers that survive f32 round-trip")
DECIDED = ["D6 every float division between the project text and the converted model has a non-zero divisor (no inf/NaN -> null in converted models)", "D1 skip <=> default pairs", "D2 no skip/rename/with asymmetry; Serialize and Deserialize both derived", "D3 untagged/flatten soundness",
           "D4 map keys string-like; no HashMap/HashSet", "D5 shipped files are fixpoints of the derived schema"]
UNDECIDED = ["non-finite floats from sources other than a division on the conversion path (serialised as null, not reloadable): a value property", "byte-identical second serialisation beyond what D1-D4 imply"]
ASSUMPTIONS = ["serde_derive/serde_json implement the documented attribute semantics", "f32 values are printed with the shortest round-trip decimal (ryu)"]
LEVEL_TEXT = ("Schema audit from the compiler's own facts (expanded-AST serde attributes, field types, derived impls, MIR of the helper functions): every "
              "omitted-when-default field reloads as that default, no attribute drops/renames/re-types a field asymmetrically, the untagged+flattened material "
              "properties are unambiguous, and the seven shipped files are walked value by value against the derived schema (unknown keys, default-valued keys, "
              "missing keys, float tokens that do not survive f32). Decides structural losslessness for every model; does not decide non-finite floats.")
LEVEL_NOTE = "Trusted: serde/serde_json attribute semantics, nalgebra's Point serialisation as a coordinate array; rustc facts."
TECHNIQUE = "type-graph + attribute audit over the expanded AST, helper-function MIR reading, data validation against the derived schema"
FIXTURE_EXPECT = ["c04.pair"]

STD_EMPTY = {"Vec::is_empty": "alloc::vec::Vec", "String::is_empty": "alloc::string::String", "Option::is_none": "core::option::Option",
             "BTreeMap::is_empty": "alloc::collections::btree::map::BTreeMap"}
FORBIDDEN = ("skip", "skip_serializing", "skip_deserializing", "with", "serialize_with", "deserialize_with", "deny_unknown_fields",
             "getter", "from", "try_from", "into", "remote", "other", "borrow", "bound")


def parse_attrs(strs):
    """parse #[serde(a, b = "c", d(e = "f"))] strings into dict"""
    out = {}
    for s in strs or []:
        m = re.match(r'#\[serde\((.*)\)\]$', s.strip(), re.S)
        if not m:
            continue
        body = m.group(1)
        for part in re.findall(r'(\w+)\s*(?:=\s*"((?:[^"\\]|\\.)*)"|\(([^)]*)\))?', body):
            k, v, sub = part
            if sub:
                out[k] = {"__sub": sub}
            elif v != "" or re.search(r'%s\s*=' % re.escape(k), body):
                out[k] = v
            else:
                out[k] = True
    return out


def f32(x):
    try:
        return struct.unpack("f", struct.pack("f", x))[0]
    except OverflowError:
        return float("inf")


def shortest_f32(x):
    v = f32(x)
    for p in range(1, 10):
        s = "%.*g" % (p, v)
        if f32(float(s)) == v:
            return s
    return repr(v)


class Audit:
    def __init__(self, ctx, root_adt):
        self.ctx = ctx
        self.prog = ctx.prog
        self.root = root_adt
        self.seen, self.ext, self.fields = T.closure(self.prog, [root_adt["id"]])
        self.impls = {}
        for imp in self.prog.impls:
            if imp.get("self_adt"):
                self.impls.setdefault(imp["self_adt"], []).append(imp)

    def fn_named(self, name, owner_adt=None):
        """resolve a serde path string to a workspace function: the function the derived Serialize /
        Deserialize impl of the owning type actually calls"""
        last = name.split("::")[-1]
        if owner_adt is not None:
            found = set()
            for imp in self.impls.get(owner_adt["id"], []):
                if not imp["derived"]:
                    continue
                for m in imp["methods"]:
                    fn = self.prog.fns.get(m["id"])
                    if not fn:
                        continue
                    bodies = [fn] + self.prog.closures_of(fn)
                    for bf in bodies:
                        for _, t in bf.body.calls():
                            from ..mir import callee_id
                            cid = callee_id(t)
                            if cid and cid.endswith("::" + last) and cid in self.prog.fns:
                                found.add(cid)
            # visitor types generated inside the Deserialize impl
            if not found:
                for f in self.prog.fns.values():
                    if owner_adt["path"].split("::")[-1] in f.path and f.raw.get("impl_derived"):
                        for _, t in f.body.calls():
                            from ..mir import callee_id
                            cid = callee_id(t)
                            if cid and cid.endswith("::" + last) and cid in self.prog.fns:
                                found.add(cid)
            if "::" in name:
                ty = name.split("::")[-2]
                found = {c for c in found if ty in (self.prog.fns[c].raw.get("impl_self") or "")}
            if len(found) == 1:
                return self.prog.fns[found.pop()]
            if len(found) > 1:
                return None
        cands = [f for f in self.prog.fns.values() if f.kind in ("fn", "assocfn") and f.id.endswith("::" + last) and f.crate == "bemodel"]
        if "::" in name:
            ty = name.split("::")[-2]
            cands = [f for f in cands if ty in (f.raw.get("impl_self") or "")]
        else:
            cands = [f for f in cands if f.kind == "fn"]
        return cands[0] if len(cands) == 1 else None

    def default_value_of_fn(self, fn):
        """constant returned by a `fn() -> T` default helper"""
        rn = returned_nodes(fn.body)
        if len(rn) == 1 and rn[0][1][0] == "k":
            return rn[0][1][1]
        return None

    def pred_constant(self, fn):
        """for predicates `*x == c` / `*x`: the value for which the predicate is true"""
        body = fn.body
        rn = returned_nodes(body)
        if len(rn) != 1:
            return None
        n = strip(rn[0][1])
        if n[0] == "bin" and n[1] == "Eq":
            a, b = strip(n[2]), strip(n[3])
            if b[0] == "k" and leaf_name(a):
                return b[1]
            if a[0] == "k" and leaf_name(b):
                return a[1]
        if leaf_name(n) and body.local_ty(0) == "bool":
            return "true"
        if n[0] == "un" and n[1] == "Not" and leaf_name(strip(n[2])) and body.local_ty(0) == "bool":
            return "false"          # `!*b`: the field is omitted when it is false
        # a comparison of the value after a lossy cast (`*m as i32 == 1`): true for a whole range of values, only one of which the default reproduces
        if n[0] == "bin" and n[1] == "Eq" and any(strip(x)[0] == "cast" for x in (n[2], n[3])):
            return "lossy-cast"
        return None

    def container_defaults(self, adt):
        """field name -> what `<T as Default>::default()` puts there, for a container-level #[serde(default)]:
        ('default',) the field type's own Default; ('k', text) a literal; ('str', text) a string literal; ('empty',) an empty
        collection / None; ('other', text).  None when T has no readable Default impl."""
        dimp = [i for i in self.impls.get(adt["id"], []) if i["trait"].endswith("default::Default")]
        if not dimp:
            return None
        names = [f["name"] for f in adt["variants"][0]["fields"]]
        if dimp[0]["derived"]:
            return {n: ("default",) for n in names}
        fn = None
        for m in dimp[0]["methods"]:
            if m["name"] == "default":
                fn = self.prog.fns.get(m["id"])
        if fn is None:
            return None
        sc = Scope(self.prog, fn)
        lit = None
        for b, i, st in fn.body.statements():
            if st["s"] == "assign" and st["rv"]["r"] == "agg" and st["rv"].get("adt") == adt["path"]:
                lit = sc.rvalue(st["rv"])
        if lit is None:
            return None
        out = {}
        for n, v in zip(lit[2], lit[3]):
            v = strip(v)
            if v[0] == "k":
                out[n] = ("k", v[1])
            elif v[0] == "s":
                out[n] = ("str", v[1])
            elif v[0] == "agg" and v[1].split("::")[-1] == "None":
                out[n] = ("empty",)
            elif v[0] == "call":
                nm = short_callee(v[1])
                args = [strip(a) for a in v[2]]
                if nm == "default" and not args:
                    out[n] = ("default",)
                elif nm == "new" and not args and any(t in v[1] for t in ("String", "Vec", "BTreeMap", "HashMap", "BTreeSet")):
                    out[n] = ("empty",)
                elif nm in ("to_string", "to_owned", "from", "into", "into_string") and len(args) == 1 and args[0][0] == "s":
                    out[n] = ("str", args[0][1])
                else:
                    out[n] = ("other", show(v)[:60])
            elif v[0] == "agg" and not v[3] and "::" in v[1]:
                out[n] = ("variant", v[1].split("::")[-1])
            else:
                out[n] = ("other", show(v)[:60])
        return out

    def is_default_helper_ok(self, fn):
        """body is `t == &T::default()`"""
        calls = [short_callee(callee_name(t) or "") for _, t in fn.body.calls()]
        return sorted(calls) == ["default", "eq"]

    def custom_is_empty(self, fn, adt):
        """conjunction of is_empty() over all fields of the struct: returns (covered fields, problems)"""
        covered = set()
        eb = ExprBuilder(fn.body)
        for b, t in fn.body.calls():
            nm = short_callee(callee_name(t) or "")
            if nm == "is_empty":
                n = strip(eb.operand(t["args"][0]))
                ln = leaf_name(n)
                if ln and ln.startswith("self."):
                    covered.add(ln[5:])
            else:
                return covered, ["calls %s" % nm]
        # conjunction: the function returns true only on the path where every is_empty() was true
        allf = {f["name"] for f in adt["variants"][0]["fields"]}
        probs = []
        if covered != allf:
            probs.append("fields not tested: %s" % sorted(allf - covered))
        # truth table: the function is true exactly when every field is empty
        import itertools
        from ..tables import Atoms, eval_predicate
        from ..cfgq import Scope

        class EmptyAtoms(Atoms):
            def value(self, n):
                n_ = strip(n)
                if n_[0] == "call" and short_callee(n_[1]) == "is_empty" and n_[2]:
                    f_ = self.field_of(n_[2][0])
                    if f_ is not None:
                        return "1" if self.values[f_] else "0"
                return Atoms.value(self, n)
        names = sorted(covered)
        if names and len(names) <= 8:
            for combo in itertools.product([True, False], repeat=len(names)):
                r = eval_predicate(Scope(self.prog, fn), EmptyAtoms(dict(zip(names, combo)), {}))
                if isinstance(r, tuple):
                    raise AnalysisError("cannot evaluate %s: %s" % (fn.path, r[1]))
                if r != all(combo):
                    nonempty = [n_ for n_, v_ in zip(names, combo) if not v_]
                    probs.append("it is %s when %s" % ("true" if r else "false", ("only %s %s data" % (", ".join(nonempty), "holds" if len(nonempty) == 1 else "hold")) if nonempty
                                                       else "every field is empty"))
                    break
        return covered, probs


def serde_name(f_or_v, attrs):
    r = attrs.get("rename")
    if isinstance(r, str) and r:
        return r
    return f_or_v["name"]


def run_audit(ctx, au, rule="c04"):
    prog = ctx.prog
    npairs = 0
    ncustom = 0
    for a in sorted(au.seen):
        adt = prog.adts[a]
        cattrs = parse_attrs(adt.get("serde"))
        disp = adt["path"]
        # D2: both traits derived
        imps = au.impls.get(a, [])
        ser = [i for i in imps if i["trait"].endswith("ser::Serialize") or i["trait"].endswith("::Serialize")]
        de = [i for i in imps if "Deserialize" in i["trait"] and "DeserializeOwned" not in i["trait"]]
        key = "%s.derive|%s" % (rule, disp)
        if len(ser) == 1 and len(de) >= 1 and ser[0]["derived"] and all(d["derived"] for d in de):
            ctx.ok(rule + ".derive", key, "Serialize and Deserialize both derived", "%s:%s" % (adt["span"][0], adt["span"][1]))
        else:
            ctx.violation(rule + ".derive", key, "Serialize/Deserialize not both derived (serialize impls: %d derived=%s, deserialize impls: %d)"
                          % (len(ser), [i["derived"] for i in ser], len(de)), "%s:%s" % (adt["span"][0], adt["span"][1]))
        for k in cattrs:
            if k in FORBIDDEN or k in ("rename_all_fields",):
                ctx.violation(rule + ".attr", "%s.attr|%s|%s" % (rule, disp, k), "container attribute serde(%s) is lossy/asymmetric" % k, "%s:%s" % (adt["span"][0], adt["span"][1]))
        if isinstance(cattrs.get("rename"), dict) or isinstance(cattrs.get("rename_all"), dict):
            ctx.violation(rule + ".attr", "%s.attr|%s|rename" % (rule, disp), "asymmetric rename(serialize=.., deserialize=..)", "%s:%s" % (adt["span"][0], adt["span"][1]))
        container_default = cattrs.get("default") is True
        cdefs = au.container_defaults(adt) if container_default and adt["kind"] == "struct" else None
        if container_default and cdefs is None:
            raise AnalysisError("container-level serde(default) on %s but its Default impl cannot be read" % disp)
        for v in adt["variants"]:
            vattrs = parse_attrs(v.get("serde"))
            for k in vattrs:
                if k in FORBIDDEN or isinstance(vattrs[k], dict):
                    ctx.violation(rule + ".attr", "%s.attr|%s::%s|%s" % (rule, disp, v["name"], k), "variant attribute serde(%s) is lossy/asymmetric" % k, "%s:%s" % (adt["span"][0], adt["span"][1]))
            for f in v["fields"]:
                fa = parse_attrs(f.get("serde"))
                fkey = "%s::%s.%s" % (disp, v["name"], f["name"]) if adt["kind"] == "enum" else "%s.%s" % (disp, f["name"])
                loc = "%s:%s" % (adt["span"][0], adt["span"][1])
                for k in fa:
                    if k in FORBIDDEN or isinstance(fa[k], dict):
                        ctx.violation(rule + ".attr", "%s.attr|%s|%s" % (rule, fkey, k), "field attribute serde(%s) loses or re-types data on a round trip" % k, loc)
                if "alias" in fa:
                    pass
                skip = fa.get("skip_serializing_if")
                dflt = fa.get("default")
                if skip is None:
                    if dflt is not None and not isinstance(dflt, bool):
                        # default fn without skip: harmless (missing key -> default), but a present value is kept
                        ctx.ok(rule + ".pair", "%s.pair|%s" % (rule, fkey), "default = %s without skip (nothing omitted)" % dflt, loc)
                    continue
                npairs += 1
                pkey = "%s.pair|%s" % (rule, fkey)
                if dflt is None and not container_default:
                    ctx.violation(rule + ".pair", pkey, "skip_serializing_if = \"%s\" without a deserialisation default: an omitted value makes the file unloadable" % skip, loc)
                    continue
                head = f["tree"].get("id") if f["tree"].get("k") == "adt" else None
                # what a missing key reloads as when only the container has serde(default): the field of T::default()
                cd = cdefs.get(f["name"]) if (cdefs is not None and dflt is None) else None
                if cd is not None and cd[0] == "default":
                    dflt = True          # same as a field-level `default`
                elif cd is not None:
                    tdef = {"f32": "0.0", "f64": "0.0", "bool": "false", "std::string::String": ""}.get(f["ty"], "0" if re.match(r"^([ui]\d+|usize|isize)$", f["ty"]) else None)
                    is_type_default = (cd[0] == "empty") or (cd[0] == "str" and cd[1] == "") or (cd[0] == "k" and tdef is not None and float_eq(cd[1], tdef)) or \
                        (cd[0] == "variant" and head in prog.adts and cd[1] == Walker.enum_default_of(au, prog.adts[head]))
                    shown = {"k": cd[-1], "str": '"%s"' % cd[-1], "empty": "empty", "variant": cd[-1], "other": cd[-1]}[cd[0]]
                    if skip in STD_EMPTY or (au.fn_named(skip, adt) is not None and au.fn_named(skip, adt).id.endswith(("::is_default", "::is_empty"))):
                        if is_type_default:
                            dflt = True
                        else:
                            ctx.violation(rule + ".pair", pkey, "omitted on output when %s holds, but a missing key reloads as %s (the value %s::default() gives this field through the "
                                          "container-level serde(default)), not as the empty/default value" % (skip, shown, disp.split("::")[-1]), loc)
                            continue
                    else:
                        pfn0 = au.fn_named(skip, adt)
                        pc0 = au.pred_constant(pfn0) if pfn0 is not None else None
                        if pc0 is None or cd[0] != "k":
                            raise AnalysisError("cannot compare skip predicate %s of %s with the container default %s" % (skip, fkey, shown))
                        if float_eq(pc0, cd[1]):
                            ctx.ok(rule + ".pair", pkey, "%s is true exactly for %s, the value %s::default() gives this field (container-level default)" % (skip, cd[1], disp.split("::")[-1]), loc)
                        else:
                            ctx.violation(rule + ".pair", pkey, "value %s is omitted on output (%s) but a missing key reloads as %s (%s::default())" % (pc0, skip, cd[1], disp.split("::")[-1]), loc)
                        continue
                if skip in STD_EMPTY:
                    if head != STD_EMPTY[skip]:
                        ctx.violation(rule + ".pair", pkey, "skip predicate %s on a field of type %s" % (skip, f["ty"]), loc)
                    elif dflt is not True and dflt is not None:
                        ctx.violation(rule + ".pair", pkey, "omitted when empty/None but reloaded through default = \"%s\"" % dflt, loc)
                    elif dflt is None and container_default:
                        # container default: the field takes the value from Container::default(), which must be empty
                        ctx.ok(rule + ".pair", pkey, "%s with container-level default" % skip, loc)
                    else:
                        ctx.ok(rule + ".pair", pkey, "%s <-> Default (empty/None)" % skip, loc)
                    continue
                pfn = au.fn_named(skip, adt)
                if pfn is None and skip.split("::")[0] in ("Option", "Vec", "String", "BTreeMap", "HashMap", "str") and skip.split("::")[-1] in ("is_some", "is_some_and", "is_none_or"):
                    ctx.violation(rule + ".pair", pkey, "skip_serializing_if = \"%s\" leaves out every value that is present: it is written as nothing and loads back as the default" % skip, loc)
                    continue
                if pfn is None:
                    raise AnalysisError("cannot resolve skip predicate %r of %s" % (skip, fkey))
                if pfn.id.endswith("::is_default"):
                    if not au.is_default_helper_ok(pfn):
                        ctx.violation(rule + ".pair", pkey, "is_default no longer compares with T::default()", pfn.loc())
                    elif dflt is not True:
                        ctx.violation(rule + ".pair", pkey, "omitted when equal to T::default() but reloaded through default = %r" % (dflt,), loc)
                    else:
                        ctx.ok(rule + ".pair", pkey, "is_default (t == T::default()) <-> Default::default()", loc)
                    continue
                if pfn.id.endswith("::is_empty") and pfn.raw.get("impl_self"):
                    ncustom += 1
                    tadt = prog.adts.get(head)
                    if not tadt:
                        raise AnalysisError("custom is_empty on non-workspace type for %s" % fkey)
                    covered, probs = au.custom_is_empty(pfn, tadt)
                    # Default of the struct must be derived (all-empty)
                    dimp = [i for i in au.impls.get(head, []) if i["trait"].endswith("default::Default")]
                    if not dimp or not dimp[0]["derived"]:
                        probs.append("Default of %s is not derived (empty collections not guaranteed)" % tadt["path"])
                    if dflt is not True:
                        probs.append("default is %r" % (dflt,))
                    if probs:
                        ctx.violation(rule + ".pair", pkey, "%s: %s -- data in an untested field is silently dropped when the others are empty" % (skip, "; ".join(probs)), pfn.loc())
                    else:
                        ctx.ok(rule + ".pair", pkey, "%s is the conjunction of is_empty() over all %d fields; Default derived" % (skip, len(covered)), pfn.loc())
                    continue
                # a hand-written predicate on an Option / collection field: only the value the default reproduces may be omitted
                if head in ("core::option::Option", "alloc::vec::Vec", "alloc::string::String", "alloc::collections::btree::map::BTreeMap") and dflt is True:
                    calls = [short_callee(callee_name(t) or "") for bf in [pfn] + prog.closures_of(pfn) for _, t in bf.body.calls()]
                    want_call = "is_none" if head == "core::option::Option" else "is_empty"
                    calls_ = [c for c in calls if c not in ("deref", "as_ref", "as_deref", "borrow")]
                    if calls_ == [want_call]:
                        ctx.ok(rule + ".pair", pkey, "%s only tests %s() <-> Default" % (skip, want_call), pfn.loc())
                    else:
                        ctx.violation(rule + ".pair", pkey, "%s (calls %s) can be true for a value other than %s, e.g. %s: such a value is left out of the file and loads back as %s, "
                                      "so the reloaded model differs and a file that carries it does not re-serialise to the same JSON"
                                      % (skip, calls_, "None" if want_call == "is_none" else "the empty collection", "Some(empty)" if want_call == "is_none" else "?",
                                         "None" if want_call == "is_none" else "empty"), pfn.loc())
                    continue
                # predicate / default function pair with constants
                pc = au.pred_constant(pfn)
                if isinstance(dflt, str) and dflt:
                    dfn = au.fn_named(dflt, adt)
                    if dfn is None:
                        raise AnalysisError("cannot resolve default fn %r of %s" % (dflt, fkey))
                    dv = au.default_value_of_fn(dfn)
                else:
                    dfn = None
                    dv = {"f32": "0.0", "f64": "0.0", "bool": "false"}.get(f["ty"], "0" if re.match(r"[ui]\d+|usize|isize", f["ty"]) else None)
                if pc == "lossy-cast":
                    ctx.violation(rule + ".pair", pkey, "%s compares the value after a cast: every value the cast maps onto the constant is omitted on output, but a missing key "
                                  "reloads as the one default value %s" % (skip, dv), loc)
                    continue
                if pc is None or dv is None:
                    raise AnalysisError("cannot read predicate/default constants for %s (%s / %s)" % (fkey, skip, dflt))
                if float_eq(pc, dv):
                    ctx.ok(rule + ".pair", pkey, "%s is true exactly for %s = %s()" % (skip, dv, dflt if dfn else "Default"), loc)
                else:
                    ctx.violation(rule + ".pair", pkey, "value %s is omitted on output (%s) but a missing key reloads as %s (%s)" % (pc, skip, dv, dflt if dfn else "Default::default"), loc)
    return npairs, ncustom


def float_eq(a, b):
    try:
        return float(a) == float(b)
    except ValueError:
        return a == b


# --------------------------------------------------------------------------- D3 untagged / flatten

def variant_keys(v):
    req, allk = set(), set()
    for f in v["fields"]:
        fa = parse_attrs(f.get("serde"))
        name = serde_name(f, fa)
        allk.add(name)
        is_opt = f["tree"].get("k") == "adt" and f["tree"]["id"] == "core::option::Option"
        if "default" not in fa and not is_opt:
            req.add(name)
    return req, allk


def check_untagged(ctx, au, rule="c04"):
    prog = ctx.prog
    n = 0
    for a in sorted(au.seen):
        adt = prog.adts[a]
        ca = parse_attrs(adt.get("serde"))
        loc = "%s:%s" % (adt["span"][0], adt["span"][1])
        if adt["kind"] == "enum" and ca.get("untagged"):
            n += 1
            vs = adt["variants"]
            for i in range(len(vs)):
                for j in range(i + 1, len(vs)):
                    ri, ai = variant_keys(vs[i])
                    rj, aj = variant_keys(vs[j])
                    key = "%s.untagged|%s|%s<%s" % (rule, adt["path"], vs[i]["name"], vs[j]["name"])
                    if not vs[i]["fields"] or not vs[j]["fields"] or vs[i]["ctor"] != "None":
                        ctx.violation(rule + ".untagged", key, "untagged enum with non-struct variants is not analysed", loc)
                    elif ri <= aj:
                        ctx.violation(rule + ".untagged", key, "a %s value (keys %s) satisfies the earlier variant %s (required %s): it reloads as the wrong variant"
                                      % (vs[j]["name"], sorted(aj), vs[i]["name"], sorted(ri)), loc)
                    else:
                        ctx.ok(rule + ".untagged", key, "%s requires %s which %s never emits" % (vs[i]["name"], sorted(ri - aj), vs[j]["name"]), loc)
        # flatten: keys of flattened type disjoint from container keys
        if adt["kind"] == "struct":
            own = set()
            flat = []
            for f in adt["variants"][0]["fields"]:
                fa = parse_attrs(f.get("serde"))
                if fa.get("flatten"):
                    flat.append(f)
                else:
                    own.add(serde_name(f, fa))
            for f in flat:
                tid = f["tree"].get("id")
                tadt = prog.adts.get(tid)
                key = "%s.flatten|%s.%s" % (rule, adt["path"], f["name"])
                if not tadt:
                    ctx.violation(rule + ".untagged", key, "flatten of a non-workspace type", loc)
                    continue
                keys = set()
                for v in tadt["variants"]:
                    keys |= variant_keys(v)[1]
                if "deny_unknown_fields" in ca:
                    ctx.violation(rule + ".untagged", key, "flatten together with deny_unknown_fields", loc)
                elif keys & own:
                    ctx.violation(rule + ".untagged", key, "flattened keys %s collide with the container's own keys" % sorted(keys & own), loc)
                else:
                    ctx.ok(rule + ".untagged", key, "flattened keys %s disjoint from %s" % (sorted(keys), sorted(own)), loc)
    return n


# --------------------------------------------------------------------------- D4 map keys

def check_maps(ctx, au, rule="c04"):
    prog = ctx.prog
    for (adt, vname, f) in au.fields:
        for node in walk_tree(f["tree"]):
            if node.get("k") == "adt" and node["id"] in ("alloc::collections::btree::map::BTreeMap", "std::collections::hash::map::HashMap"):
                kt = node["args"][0]
                key = "%s.mapkey|%s.%s" % (rule, adt["path"], f["name"])
                okk = (kt.get("k") == "adt" and kt["id"] in ("uuid::Uuid", "alloc::string::String")) or \
                      (kt.get("k") == "adt" and kt["id"] in prog.adts and prog.adts[kt["id"]]["kind"] == "enum"
                       and all(not v["fields"] for v in prog.adts[kt["id"]]["variants"])) or (kt.get("k") == "prim" and kt["s"] in ("str", "char", "u32", "i32", "u64", "i64", "usize"))
                if okk:
                    ctx.ok(rule + ".mapkey", key, "map key type %s is string-like" % T.tree_str(kt), "%s:%s" % (adt["span"][0], adt["span"][1]))
                else:
                    ctx.violation(rule + ".mapkey", key, "map key type %s cannot be a JSON object key" % T.tree_str(kt), "%s:%s" % (adt["span"][0], adt["span"][1]))
    bad = [k for k in au.ext if "HashMap" in k or "HashSet" in k]
    if bad:
        ctx.violation(rule + ".mapkey", rule + ".mapkey|hash", "hash containers %s in the closure of %s: serialised text order is unstable" % (bad, au.root["path"]), None)
    else:
        ctx.ok(rule + ".mapkey", rule + ".mapkey|hash|" + au.root["path"], "no HashMap/HashSet in the type closure of %s" % au.root["path"], None)


def walk_tree(t):
    yield t
    for a in t.get("args", []) or []:
        yield from walk_tree(a)


# --------------------------------------------------------------------------- D5 data walk

class Walker:
    def __init__(self, ctx, au, fname):
        self.ctx = ctx
        self.au = au
        self.prog = ctx.prog
        self.fname = fname
        self.problems = []
        self.values = 0

    def bad(self, path, msg):
        self.problems.append("%s: %s" % (path or "$", msg))

    def enum_default(self, adt):
        return Walker.enum_default_of(self.au, adt)

    @staticmethod
    def enum_default_of(au, adt):
        imps = [i for i in au.impls.get(adt["id"], []) if i["trait"].endswith("default::Default")]
        if not imps:
            return None
        m = imps[0]["methods"]
        if not m or m[0]["id"] not in au.prog.fns:
            return None
        fn = au.prog.fns[m[0]["id"]]
        rn = returned_nodes(fn.body)
        if len(rn) == 1 and rn[0][1][0] == "agg":
            return rn[0][1][1].split("::")[-1]
        return None

    cur_adt = None

    def is_skip_default(self, f, fa, val):
        skip = fa.get("skip_serializing_if")
        if not skip:
            return False
        if skip in ("Vec::is_empty", "String::is_empty", "BTreeMap::is_empty"):
            return val in ([], "", {})
        if skip == "Option::is_none":
            return val is None
        if skip.endswith("::is_empty"):
            return isinstance(val, dict) and all(v in ([], {}, "") for v in val.values())
        if skip == "is_default":
            t = f["tree"]
            if t.get("k") == "prim":
                try:
                    return float(val) == 0.0
                except (TypeError, ValueError):
                    return val is False
            if t.get("k") == "adt" and t["id"] in self.prog.adts:
                return val == self.enum_default(self.prog.adts[t["id"]])
            return False
        pfn = self.au.fn_named(skip, self.cur_adt)
        pc = self.au.pred_constant(pfn) if pfn else None
        if pc is not None:
            if pc in ("true", "false"):
                return val is (pc == "true")
            try:
                return float(val) == float(pc)
            except (TypeError, ValueError):
                return False
        return False

    def struct_fields(self, adt, variant=None):
        """[(json key, field, attrs)] including flattened ones (marked)"""
        out = []
        v = variant or adt["variants"][0]
        for f in v["fields"]:
            fa = parse_attrs(f.get("serde"))
            out.append((serde_name(f, fa), f, fa))
        return out

    def walk(self, val, tree, path):
        self.values += 1
        k = tree.get("k")
        if k == "prim":
            s = tree["s"]
            if s in ("f32", "f64"):
                if not isinstance(val, str) or not re.match(r"^-?\d", val):
                    return self.bad(path, "expected a number, found %r" % (val,))
                if not re.search(r"[.eE]", val):
                    return self.bad(path, "integer token %s for an %s field re-serialises as %s.0 (different JSON value)" % (val, s, val))
                if s == "f32":
                    x = float(val)
                    sh = shortest_f32(x)
                    if float(sh) != x:
                        return self.bad(path, "float token %s does not survive f32 (re-serialises as %s)" % (val, sh))
                return
            if s == "bool":
                if not isinstance(val, bool):
                    self.bad(path, "expected bool")
                return
            if s in ("str",):
                return
            if re.match(r"^[ui](8|16|32|64|128|size)$", s):
                if not isinstance(val, str) or not re.match(r"^-?\d+$", val):
                    self.bad(path, "expected an integer token, found %r" % (val,))
                return
            return
        if k == "adt":
            tid = tree["id"]
            if tid == "core::option::Option":
                if val is None:
                    return
                return self.walk(val, tree["args"][0], path)
            if tid == "alloc::vec::Vec":
                if not isinstance(val, list):
                    return self.bad(path, "expected array")
                for i, x in enumerate(val):
                    self.walk(x, tree["args"][0], "%s[%d]" % (path, i))
                return
            if tid == "alloc::string::String":
                if not isinstance(val, str) or (re.match(r"^-?\d", val) and False):
                    self.bad(path, "expected string")
                return
            if tid == "uuid::Uuid":
                if not (isinstance(val, str) and re.match(r"^[0-9a-f]{8}-[0-9a-f]{4}-[0-9a-f]{4}-[0-9a-f]{4}-[0-9a-f]{12}$", val)):
                    self.bad(path, "not a canonical lower-case hyphenated UUID: %r (re-serialises differently)" % (val,))
                return
            if tid == "alloc::collections::btree::map::BTreeMap":
                if not isinstance(val, dict):
                    return self.bad(path, "expected object")
                keys = list(val.keys())
                if keys != sorted(keys):
                    pass   # key order is not part of the JSON value
                for kk, vv in val.items():
                    self.walk(vv, tree["args"][1], "%s.%s" % (path, kk))
                return
            if tid.startswith("nalgebra::"):
                if not isinstance(val, list):
                    return self.bad(path, "expected coordinate array")
                for i, x in enumerate(val):
                    self.walk(x, {"k": "prim", "s": "f32"}, "%s[%d]" % (path, i))
                return
            adt = self.prog.adts.get(tid)
            if adt is None:
                return self.bad(path, "unmodelled external type %s" % tid)
            if adt["kind"] == "enum":
                ca = parse_attrs(adt.get("serde"))
                if all(not v["fields"] for v in adt["variants"]):
                    names = [serde_name(v, parse_attrs(v.get("serde"))) for v in adt["variants"]]
                    if val not in names:
                        self.bad(path, "unknown variant %r of %s" % (val, adt["path"]))
                    return
                if ca.get("untagged"):
                    return self.walk_untagged(val, adt, path, set())
                return self.bad(path, "externally tagged data enum not modelled")
            return self.walk_struct(val, adt, path)
        if k == "tuple":
            if not isinstance(val, list) or len(val) != len(tree["args"]):
                return self.bad(path, "expected %d-tuple" % len(tree["args"]))
            for i, (x, t) in enumerate(zip(val, tree["args"])):
                self.walk(x, t, "%s.%d" % (path, i))
            return
        if k in ("array", "slice"):
            for i, x in enumerate(val):
                self.walk(x, tree["args"][0], "%s[%d]" % (path, i))
            return
        self.bad(path, "unmodelled type kind %s" % k)

    def walk_untagged(self, val, adt, path, consumed):
        for v in adt["variants"]:
            req, allk = variant_keys(v)
            if req <= set(val.keys()):
                for (name, f, fa) in self.struct_fields(adt, v):
                    if name in val:
                        consumed.add(name)
                        if self.is_skip_default(f, fa, val[name]):
                            self.bad(path + "." + name, "key present with its omitted-when-default value: vanishes on re-serialisation")
                        self.walk(val[name], f["tree"], path + "." + name)
                return consumed
        self.bad(path, "no variant of untagged %s matches keys %s" % (adt["path"], sorted(val.keys())))
        return consumed

    def walk_struct(self, val, adt, path):
        if not isinstance(val, dict):
            return self.bad(path, "expected object for %s" % adt["path"])
        ca = parse_attrs(adt.get("serde"))
        cdef = ca.get("default") is True
        consumed = set()
        flats = []
        self.cur_adt = adt
        for (name, f, fa) in self.struct_fields(adt):
            if fa.get("flatten"):
                flats.append(f)
                continue
            is_opt = f["tree"].get("k") == "adt" and f["tree"]["id"] == "core::option::Option"
            if name not in val:
                if "default" not in fa and not cdef and not is_opt:
                    self.bad(path, "required key %r missing: the file does not load" % name)
                continue
            consumed.add(name)
            if self.is_skip_default(f, fa, val[name]):
                self.bad(path + "." + name, "key present with its omitted-when-default value (%r): it vanishes on re-serialisation" % (val[name],))
            self.walk(val[name], f["tree"], path + "." + name)
        for f in flats:
            tadt = self.prog.adts.get(f["tree"].get("id"))
            if tadt and parse_attrs(tadt.get("serde")).get("untagged"):
                consumed |= self.walk_untagged(val, tadt, path, set())
        extra = set(val.keys()) - consumed
        for e in sorted(extra):
            self.bad(path + "." + e, "key unknown to %s: serde drops it on load" % adt["path"])


def check_files(ctx, au, rule="c04"):
    files = sorted(glob.glob(os.path.join(ctx_repo(ctx), "bemodel", "tests", "data", "*.json")))
    ctx.floor(rule + ".file", "shipped model files", len(files), 7)
    total = 0
    for fp in files:
        name = os.path.basename(fp)
        try:
            data = json.load(open(fp, encoding="utf-8"), parse_float=str, parse_int=str)
        except ValueError as e:
            ctx.violation(rule + ".file", "%s.file|%s" % (rule, name), "not valid JSON: %s" % e, "bemodel/tests/data/" + name)
            continue
        w = Walker(ctx, au, name)
        w.walk_struct(data, au.root, "")
        total += w.values
        if w.problems:
            ctx.violation(rule + ".file", "%s.file|%s" % (rule, name), "%d problems, first: %s" % (len(w.problems), "; ".join(w.problems[:4])),
                          "bemodel/tests/data/" + name, extra={"problems": w.problems[:50]})
        else:
            ctx.ok(rule + ".file", "%s.file|%s" % (rule, name), "%d values walked against the derived schema: known keys only, no default-valued key, numbers survive f32" % w.values,
                   "bemodel/tests/data/" + name)
    ctx.extra_cov["data_values_walked"] = total


def ctx_repo(ctx):
    if getattr(ctx, "repo", None):
        return ctx.repo
    meta = os.path.join(ctx.facts_dir, "META.json")
    if os.path.exists(meta):
        return json.load(open(meta)).get("repo", REPO)
    return REPO


def check_direct_serialisation(ctx, prog, rule="c04.text"):
    """"serialising that again yields the identical text": Model::as_json hands the typed model to serde_json's writer.  Going through a generic
    `serde_json::Value` widens every f32 to f64 on the way (0.7 is then written as 0.699999988079071) and re-orders maps: the text of every shipped file
    changes although the values reload equal."""
    f = prog.method("types::model::Model", None, "as_json")
    names = [callee_name(t) or "" for _, t in f.body.calls()]
    writers = [n for n in names if short_callee(n) in ("to_string_pretty", "to_string", "to_writer", "to_writer_pretty", "to_vec", "to_vec_pretty") and "serde_json" in n]
    via = [n for n in names if short_callee(n) in ("to_value", "from_value", "json") and "serde_json" in n]
    key = rule + "|Model::as_json"
    if via:
        ctx.violation(rule, key, "Model::as_json goes through serde_json::%s: f32 fields are widened to f64 before they are printed (0.7 -> 0.699999988079071), so no shipped "
                      "file re-serialises to its own text" % short_callee(via[0]), f.loc())
    elif len(writers) == 1:
        ctx.ok(rule, key, "the typed model goes straight to serde_json::%s" % short_callee(writers[0]), f.loc())
    else:
        raise AnalysisError("Model::as_json: the serde_json writer call was not found (%d candidates)" % len(writers))


def run(ctx):
    prog = ctx.prog
    model = prog.adt("bemodel::types::model::Model")
    au = Audit(ctx, model)
    ctx.floor("c04", "types in the Model closure", len(au.seen), 28)
    npairs, ncustom = run_audit(ctx, au)
    ctx.floor("c04.pair", "skip/default pairs in the model closure", npairs, 55)
    ctx.floor("c04.pair", "custom is_empty helpers", ncustom, 3)
    nunt = check_untagged(ctx, au)
    ctx.floor("c04.untagged", "untagged enums", nunt, 1)
    check_maps(ctx, au)
    check_files(ctx, au)
    # separately: EnergyIndicators closure (reported, D5 of C14 shares it)
    ei = prog.adt("bemodel::energy::indicators::types::EnergyIndicators")
    au2 = Audit(ctx, ei)
    au2.seen = au2.seen - au.seen
    run_audit(ctx, au2, rule="c04ei")
    check_converted_finite(ctx)
    check_direct_serialisation(ctx, prog)


def check_converted_finite(ctx):
    """a converted model must load back: JSON has no inf/NaN (serde_json writes null, which does not load as f32), so every float division on the
    way from the project text to the model (converter, parsers and their helpers) needs a divisor that cannot be zero"""
    from ..floatdiv import float_divisions, assign_div_keys
    from ..panics import Inventory
    prog = ctx.prog
    roots = [f.id for f in prog.fns.values() if f.path.startswith(("bemodel::convert::from_ctehexml", "hulc::ctehexml::parse", "hulc::bdl::Data::new"))]
    ctx.require(len(roots) >= 10, "converter / parser entry points not found")
    inv = Inventory(prog, ctx.cg)
    divs = []
    for i in sorted(ctx.cg.reachable(roots)):
        # conversion writes the model only: the indicator code (bemodel::energy, reached through hulc2model's post-processing or through trait-method
        # over-approximation of the call graph) produces results, not model fields, and is C14's
        if "energy::" in prog.fns[i].path.split("::{")[0] and prog.fns[i].crate == "bemodel":
            continue
        divs += float_divisions(inv, prog.fns[i])
    assign_div_keys(prog, divs, "c04.finite")
    ctx.floor("c04.finite", "float divisions on the conversion path", len(divs), 14)
    for d in divs:
        if d["guard"]:
            ctx.ok("c04.finite", d["key"], d["guard"], d["fn"].loc(d["line"]))
        else:
            ctx.violation("c04.finite", d["key"], "division by `%s` without a guard on the conversion path: a zero there puts inf/NaN into the converted model, which is written as "
                          "null and does not load back" % d["desc"], d["fn"].loc(d["line"]))


def run_fixture(ctx):
    prog = ctx.prog
    root = prog.adt("poscontrol::c04::Doc")
    au = Audit(ctx, root)
    run_audit(ctx, au)
