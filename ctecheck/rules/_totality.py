"""Shared machinery of C13/C14/C19: may-panic inventory, loops, recursion, float divisions, lock regions."""
import re

from ..panics import Inventory, reachable_sites, assign_keys
from ..floatdiv import float_divisions, assign_div_keys
from ..loops import classify_loops, unbounded_consumers, recursion_cycles
from ..exprs import short_callee
from ..mir import callee_name


def sanitize(k):
    return k.replace('"', "'")


def exc_lookup(exceptions, key):
    """exact instance key, or an entry written as a prefix pattern (`...*`): used only where the reason does not depend on the varying part"""
    if key in exceptions:
        return key
    for k in exceptions:
        if k.endswith("*") and key.startswith(k[:-1]):
            return k
    return None


def report_sites(ctx, rule, sites, exceptions, seen, note_prefix=""):
    """sites with keys assigned -> ok / exception / violation"""
    prog = ctx.prog
    used = set()
    for s in sites:
        key = sanitize(s["key"])
        loc = s["fn"].loc(s["line"])
        if s["guard"]:
            ctx.ok(rule, key, s["guard"], loc)
        elif exc_lookup(exceptions, key):
            ek = exc_lookup(exceptions, key)
            used.add(ek)
            ctx.exception(rule, key, exceptions[ek], loc)
        else:
            chain = ctx.cg.pretty_chain(seen, s["fn"].id) if s["fn"].id in seen else ""
            ctx.violation(rule, key, "%sunguarded may-panic site `%s` on %s; reached via %s"
                          % (note_prefix, s["construct"], s["origin"][:120], chain), loc)
    stale = [k for k in exceptions if k not in used and k.startswith(rule + "|")]
    if stale:
        ctx.note("stale exception entries (site no longer present): %s" % stale[:10])
    return used


def report_divs(ctx, rule, sites, exceptions, seen):
    used = set()
    for s in sites:
        key = s["key"]
        loc = s["fn"].loc(s["line"])
        if s["guard"]:
            ctx.ok(rule, key, s["guard"], loc)
        elif exc_lookup(exceptions, key):
            ek = exc_lookup(exceptions, key)
            used.add(ek)
            ctx.exception(rule, key, exceptions[ek], loc)
        else:
            ctx.violation(rule, key, "float division whose divisor `%s` is not shown non-zero by a constant, a clamp or a dominating comparison: "
                          "inf/NaN result when it is zero" % s["desc"][:120], loc)
    return used


def report_loops(ctx, rule, prog, seen, include, loop_exceptions, custom_iter_ok):
    n = 0
    for fid in sorted(seen):
        fn = prog.fns[fid]
        if fn.raw.get("impl_derived") or not include(fn) or fn.kind in ("static", "const"):
            continue
        for l in classify_loops(prog, fn):
            n += 1
            disp = prog.root_of(fn).path
            kind = l["kind"]
            desc = l.get("source") or ",".join(sorted(l.get("popped", []))) or "loop"
            key = sanitize("%s|%s|%s|%s" % (rule, disp, kind, desc[:80]))
            if any(i.key == key for i in ctx.instances):
                key += "|%d" % sum(1 for i in ctx.instances if i.key.startswith(key))
            loc = fn.loc(l["line"])
            if kind == "iterator":
                # custom (workspace) iterator types need a finiteness argument
                ws = None
                sn = l.get("source_node")
                if sn is not None and sn[0] == "call" and sn[1].split("::")[0].lstrip("<") in prog.workspace_crates:
                    ws = sn[1]
                    # a workspace helper that merely returns a std adaptor chain over a finite collection is fine
                    cands = prog._by_path.get(sn[1], [])
                    if len(cands) == 1 and cands[0].raw.get("output", "").startswith(
                            ("std::string::String", "std::vec::Vec", "&str", "&[", "std::collections::", "&std::vec::Vec", "&std::string::String", "&'a str", "&'a [")):
                        ws = None   # returns a finite collection, not an iterator
                    elif len(cands) == 1:
                        from ..cfgq import returned_nodes, iter_chain
                        from ..loops import chain_unbounded
                        from ..exprs import strip as _strip
                        rns = returned_nodes(cands[0].body)
                        if rns and all(_strip(rn)[0] == "call" and iter_chain(rn).steps and chain_unbounded(rn) is None
                                       and _strip(iter_chain(rn).source)[0] != "call" for _, rn in rns):
                            ws = None
                for b in l["blocks"]:
                    t = fn.body.blocks[b]["term"]
                    if t["t"] == "call" and short_callee(callee_name(t) or "") == "next":
                        from ..mir import callee_id
                        cid = callee_id(t)
                        if cid in prog.fns:
                            ws = prog.fns[cid].path
                if ws and ws not in custom_iter_ok:
                    ctx.violation(rule, key, "loop driven by the workspace iterator %s whose finiteness is not established" % ws, loc)
                elif ws:
                    ctx.exception(rule, key, custom_iter_ok[ws], loc)
                else:
                    ctx.ok(rule, key, l["detail"], loc)
            elif kind == "pop":
                ctx.ok(rule, key, l["detail"] + " (each iteration removes one element, nothing is added)", loc)
            elif key in loop_exceptions:
                ctx.exception(rule, key, loop_exceptions[key], loc)
            elif kind == "worklist":
                ok, why = worklist_progress(prog, fn, l)
                if ok:
                    ctx.ok(rule, key, "worklist loop: " + why, loc)
                else:
                    ctx.violation(rule, key, "worklist loop pushes onto the stack it pops without a progress guard: %s" % why, loc)
            else:
                ctx.violation(rule, key, "loop of unrecognised kind (%s): termination not established" % l["detail"], loc)
        for (b, t, why) in unbounded_consumers(prog, fn):
            key = sanitize("%s|%s|consumer|%s" % (rule, prog.root_of(fn).path, why))
            ctx.violation(rule, key, "iterator consumer over an %s" % why, fn.loc(t.get("ln")))
    return n


def worklist_progress(prog, fn, l):
    """pushes inside a worklist loop must be guarded by a progress condition: every pushed work item is built from a
    partition result whose both halves are checked non-empty (or strictly smaller than the popped set)"""
    from ..cfgq import Scope, bool_taken
    from ..exprs import strip, origin_desc
    sc = Scope(prog, fn)
    body = fn.body
    work = set(l.get("popped", []))
    for (b, t) in l.get("pushes", []):
        conds = sc.conditions(b)
        nonempty = set()
        smaller = False
        for (_, d, n, tk) in conds:
            n = strip(n)
            v = bool_taken(tk)
            # accepted progress guards: !left.is_empty() && !right.is_empty()  /  left.len() < popped.len()
            if n[0] == "call" and short_callee(n[1]) == "is_empty" and v is False and n[2]:
                recv = origin_desc(strip(n[2][0]))
                if recv not in work:
                    nonempty.add(recv)
            if n[0] == "bin" and n[1] in ("Lt", "Gt", "Ne"):
                d1, d2 = origin_desc(strip(n[2])), origin_desc(strip(n[3]))
                if "len(" in d1 and "len(" in d2 and v is True:
                    smaller = True
        prog_guard = smaller or len(nonempty) >= 2
        if not prog_guard:
            return False, "push at line %s is not dominated by a test that the pushed subset is non-empty/strictly smaller" % t.get("ln")
    return True, "every push is dominated by a progress test"
