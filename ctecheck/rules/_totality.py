"""Shared machinery of C13/C14/C19: may-panic inventory, loops, recursion, float divisions, lock regions."""
import re

from ..panics import Inventory, reachable_sites, assign_keys
from ..floatdiv import float_divisions, assign_div_keys
from ..loops import classify_loops, unbounded_consumers, recursion_cycles
from ..exprs import short_callee
from ..mir import callee_name


def sanitize(k):
    return k.replace('"', "'")


def exc_lookup(exceptions, key):
    """exact instance key, or an entry written as a prefix pattern (`...*`): used only where the reason does not depend on the varying part"""
    if key in exceptions:
        return key
    for k in exceptions:
        if k.endswith("*") and key.startswith(k[:-1]):
            return k
    return None


def _split_key(key):
    """rule|function path|rest  ->  (rule, crate, rest without a trailing |<ordinal>)"""
    parts = key.split("|")
    if len(parts) < 3:
        return None
    crate = re.sub(r"^<", "", parts[1]).split("::")[0]
    rest = parts[2:]
    if rest and rest[-1].isdigit():
        rest = rest[:-1]
    return parts[0], crate, "|".join(rest)


def moved_lookup(exceptions, key, used):
    """an exception written for the same construct on the same expression in another function of the same crate, whose own site no longer exists: the code was moved
    (a function split or renamed), the expression and therefore the written reason are the same.  One exception covers one site."""
    sk = _split_key(key)
    if sk is None:
        return None
    for k in exceptions:
        if k in used:
            continue
        if k.endswith("*"):
            pk = _split_key(k[:-1] + "x")
            if pk is not None and pk[0] == sk[0] and pk[1] == sk[1] and sk[2].startswith(pk[2][:-1]):
                return k
            continue
        if _split_key(k) == sk:
            return k
    return None


def _loose(sk):
    """(rule, crate, 'unwrap|F(args)') -> (rule, crate, 'unwrap|F(*)') for unwrap/expect of a call result; None otherwise"""
    parts = sk[2].split("|", 1)
    if len(parts) == 2 and parts[0] == "Index::index" and "[" in parts[1]:
        # indexing of a field: `<owner>.field[index]` with the owner spelled differently (a method's self instead of the caller's path to the same struct)
        ms = list(re.finditer(r"\.[A-Za-z_]\w*\[", parts[1]))
        if ms:
            return (sk[0], sk[1], "Index::index|*" + parts[1][ms[-1].start():])
        return None
    if sk[2].startswith("divisor="):
        # the same expression over fields of a struct whose owner is spelled differently (self.dir / map[].1.dir)
        d = sk[2]
        loose = re.sub(r"(?<![\w\]\.@])(?:[A-Za-z_]\w*(?:\[\])?(?:@\w+)?(?:\.\d+)?\.)+(?=[A-Za-z_])", "*.", d)
        return (sk[0], sk[1], loose) if loose != d else None
    if len(parts) != 2 or parts[0] not in ("unwrap", "expect"):
        return None
    m = re.match(r"^([A-Za-z_][\w:<>]*)\(", parts[1])
    if not m or not parts[1].endswith(")"):
        return None
    return (sk[0], sk[1], "%s|%s(*)" % (parts[0], m.group(1)))


def moved_lookup_loose(exceptions, key, used):
    """as moved_lookup, for `F(<expr>).unwrap()/expect()` whose argument is now spelled differently (a parameter of the extracted helper instead of the
    caller's expression): same rule, same crate, same construct on the result of the same function, and the excepted site itself is gone"""
    sk = _split_key(key)
    lk = _loose(sk) if sk else None
    if lk is None:
        return None
    for k in exceptions:
        if k in used or k.endswith("*"):
            continue
        sk2 = _split_key(k)
        if sk2 and _loose(sk2) == lk:
            return k
    return None


def _report(ctx, rule, keyed, exceptions, violation_text, seen=None):
    """keyed: [(key, site)] -> ok / exception / violation; exact (or prefix-pattern) exceptions first, then exceptions whose site moved within the crate"""
    used = set()
    pending = []
    unresolved = []
    for key, s in keyed:
        loc = s["fn"].loc(s["line"])
        if s["guard"]:
            ctx.ok(rule, key, s["guard"], loc)
        elif exc_lookup(exceptions, key):
            ek = exc_lookup(exceptions, key)
            used.add(ek)
            ctx.exception(rule, key, exceptions[ek], loc)
        else:
            pending.append((key, s, loc))
    for key, s, loc in pending:
        ek = moved_lookup(exceptions, key, used) or moved_lookup_loose(exceptions, key, used)
        if ek is not None:
            used.add(ek)
            if not hasattr(ctx, "moved_excepted"):
                ctx.moved_excepted = set()
            ctx.moved_excepted.add(re.sub(r"\|\d+$", "", key))
            ctx.exception(rule, key, exceptions[ek] + " [same construct on the same expression as `%s`, whose site is gone: the code was moved]" % ek.split("|")[1][-60:], loc)
        else:
            unresolved.append((key, s, loc))
    # sites that are neither guarded nor excepted.  When reasoned exceptions of the same kind in the same crate have lost their site in this very tree, the code
    # they were written for has been moved or re-spelled and nothing here can tell a moved site from a new one: such a site is *undecided* (exit 2, re-triage),
    # not a violation.  A site without such a counterpart is a violation as before.
    def kind_of(k):
        sk = _split_key(k)
        if sk is None:
            return None
        return (sk[1], "divisor" if sk[2].startswith("divisor=") else sk[2].split("|")[0])
    # candidates: exceptions of this rule that are unused although their function is covered by this very report (it has other sites here), or whose
    # function no longer exists at all; exceptions for functions outside this report's scope (another property's part of a shared table) are not stale
    covered = {key.split("|")[1] for key, _ in keyed if key.count("|") >= 2}
    if seen:
        # every function this report is responsible for (reachable in this property's scope), also those whose sites have all moved away
        for fid in seen:
            f_ = ctx.prog.fns.get(fid)
            if f_ is not None:
                covered.add(f_.path)
                covered.add(ctx.prog.display(f_))
                covered.add(ctx.prog.root_of(f_).path)
    existing = {f.path for f in ctx.prog.fns.values()} | {ctx.prog.display(f) for f in ctx.prog.fns.values()}
    stale = [k for k in exceptions if k.startswith(rule + "|") and k not in used and not k.endswith("*") and k.count("|") >= 2
             and (k.split("|")[1] in covered or k.split("|")[1] not in existing)]
    for key, s, loc in unresolved:
        partner = next((k for k in stale if kind_of(k) == kind_of(key)), None)
        if partner is not None:
            stale.remove(partner)
            if not hasattr(ctx, "undecided"):
                ctx.undecided = []
            ctx.undecided.append("%s at %s is not excepted, while the exception written for `%s` has lost its site: moved or re-spelled code, triage again"
                                 % (key[:160], loc, partner.split("|", 1)[1][:120]))
            if not hasattr(ctx, "undecided_keys"):
                ctx.undecided_keys = set()
            ctx.undecided_keys.add(key)
            # the exception the site may have moved from also answers for it where other rules ask "is this site excepted?" (lock regions)
            ctx.note("undecided (moved code?): %s" % key)
        else:
            ctx.violation(rule, key, violation_text(s), loc)
    return used


def report_sites(ctx, rule, sites, exceptions, seen, note_prefix=""):
    """sites with keys assigned -> ok / exception / violation"""
    def text(s):
        chain = ctx.cg.pretty_chain(seen, s["fn"].id) if s["fn"].id in seen else ""
        return "%sunguarded may-panic site `%s` on %s; reached via %s" % (note_prefix, s["construct"], s["origin"][:120], chain)
    used = _report(ctx, rule, [(sanitize(s["key"]), s) for s in sites], exceptions, text, seen)
    stale = [k for k in exceptions if k not in used and k.startswith(rule + "|")]
    if stale:
        ctx.note("stale exception entries (site no longer present): %s" % stale[:10])
    return used


def report_divs(ctx, rule, sites, exceptions, seen):
    return _report(ctx, rule, [(s["key"], s) for s in sites], exceptions,
                   lambda s: "float division whose divisor `%s` is not shown non-zero by a constant, a clamp or a dominating comparison: "
                             "inf/NaN result when it is zero" % s["desc"][:120], seen)


def report_loops(ctx, rule, prog, seen, include, loop_exceptions, custom_iter_ok):
    n = 0
    for fid in sorted(seen):
        fn = prog.fns[fid]
        if fn.raw.get("impl_derived") or not include(fn) or fn.kind in ("static", "const"):
            continue
        for l in classify_loops(prog, fn):
            n += 1
            disp = prog.root_of(fn).path
            kind = l["kind"]
            desc = l.get("source") or ",".join(sorted(l.get("popped", []))) or "loop"
            key = sanitize("%s|%s|%s|%s" % (rule, disp, kind, desc[:80]))
            if any(i.key == key for i in ctx.instances):
                key += "|%d" % sum(1 for i in ctx.instances if i.key.startswith(key))
            loc = fn.loc(l["line"])
            if kind == "iterator":
                # custom (workspace) iterator types need a finiteness argument
                ws = None
                sn = l.get("source_node")
                if sn is not None and sn[0] == "call" and sn[1].split("::")[0].lstrip("<") in prog.workspace_crates:
                    ws = sn[1]
                    # a workspace helper that merely returns a std adaptor chain over a finite collection is fine
                    cands = prog._by_path.get(sn[1], [])
                    if len(cands) == 1 and cands[0].raw.get("output", "").startswith(
                            ("std::string::String", "std::vec::Vec", "&str", "&[", "std::collections::", "&std::vec::Vec", "&std::string::String", "&'a str", "&'a [")):
                        ws = None   # returns a finite collection, not an iterator
                    elif len(cands) == 1:
                        from ..cfgq import returned_nodes, iter_chain
                        from ..loops import chain_unbounded
                        from ..exprs import strip as _strip
                        rns = returned_nodes(cands[0].body)
                        if rns and all(_strip(rn)[0] == "call" and iter_chain(rn).steps and chain_unbounded(rn) is None
                                       and _strip(iter_chain(rn).source)[0] != "call" for _, rn in rns):
                            ws = None
                for b in l["blocks"]:
                    t = fn.body.blocks[b]["term"]
                    if t["t"] == "call" and short_callee(callee_name(t) or "") == "next":
                        from ..mir import callee_id
                        cid = callee_id(t)
                        if cid in prog.fns:
                            ws = prog.fns[cid].path
                if ws and ws not in custom_iter_ok:
                    ctx.violation(rule, key, "loop driven by the workspace iterator %s whose finiteness is not established" % ws, loc)
                elif ws:
                    ctx.exception(rule, key, custom_iter_ok[ws], loc)
                else:
                    ctx.ok(rule, key, l["detail"], loc)
            elif kind == "pop":
                ctx.ok(rule, key, l["detail"] + " (each iteration removes one element, nothing is added)", loc)
            elif key in loop_exceptions:
                ctx.exception(rule, key, loop_exceptions[key], loc)
            elif kind == "worklist":
                ok, why = worklist_progress(prog, fn, l)
                if ok:
                    ctx.ok(rule, key, "worklist loop: " + why, loc)
                else:
                    ctx.violation(rule, key, "worklist loop pushes onto the stack it pops without a progress guard: %s" % why, loc)
            else:
                ctx.violation(rule, key, "loop of unrecognised kind (%s): termination not established" % l["detail"], loc)
        for (b, t, why) in unbounded_consumers(prog, fn):
            key = sanitize("%s|%s|consumer|%s" % (rule, prog.root_of(fn).path, why))
            ctx.violation(rule, key, "iterator consumer over an %s" % why, fn.loc(t.get("ln")))
    return n


def worklist_progress(prog, fn, l):
    """pushes inside a worklist loop must be guarded by a progress condition: every pushed work item is built from a
    partition result whose both halves are checked non-empty (or strictly smaller than the popped set)"""
    from ..cfgq import Scope, bool_taken
    from ..exprs import strip, origin_desc
    sc = Scope(prog, fn)
    body = fn.body
    work = set(l.get("popped", []))
    for (b, t) in l.get("pushes", []):
        conds = sc.conditions(b)
        nonempty = set()
        smaller = False
        for (_, d, n, tk) in conds:
            n = strip(n)
            v = bool_taken(tk)
            # accepted progress guards: !left.is_empty() && !right.is_empty()  /  left.len() < popped.len()
            if n[0] == "call" and short_callee(n[1]) == "is_empty" and v is False and n[2]:
                recv = origin_desc(strip(n[2][0]))
                if recv not in work:
                    nonempty.add(recv)
            if n[0] == "bin" and n[1] in ("Lt", "Gt", "Ne"):
                d1, d2 = origin_desc(strip(n[2])), origin_desc(strip(n[3]))
                if "len(" in d1 and "len(" in d2 and v is True:
                    smaller = True
        prog_guard = smaller or len(nonempty) >= 2
        if not prog_guard:
            return False, "push at line %s is not dominated by a test that the pushed subset is non-empty/strictly smaller" % t.get("ln")
    return True, "every push is dominated by a progress test"
