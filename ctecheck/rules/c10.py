"""C10 - q_sol;jul follows the DB-HE solar-control formula."""
from ..cfgq import Scope, returned_nodes, bool_taken, iter_chain
from ..exprs import strip, short_callee, show, leaf_name, walk, origin_desc, mkproj
from ..facts import AnalysisError
from ..formulas import LeafMap, compare, fallback_chain, updates, FNormalizer
from ..floatdiv import float_divisions, assign_div_keys
from ..panics import Inventory
from .. import tables as TB
from .c06 import local_defs
from .c09 import scope_table, guard_of

ID = "C10"
LEVEL = "other"
RULE_TEXT = ("scope predicate of QSolJulData::from as a truth table; the gain term and every accumulator update normalised and compared with the statement; the fallback chains "
             "and defaults; the inheritance of scope/orientation from the wall in EnergyProps; every float division of the function under the divisor-guard rule; the "
             "July table lookup")
EXPLANATION = ("D1 scope on windows = is_tenv and bounds in {EXTERIOR, GROUND}, both inherited from the wall; D2 term = F_sh g (1 - F_f) A H with A = area x multiplier, "
               "F_sh = [override, computed, 1.0], (g, F_f) = construction values else (0.77, 0.20), H = table lookup by orientation, orientation = wall's (HZ unless SIDE); "
               "D3 per-orientation and global accumulators receive the same area-weighted terms and are divided by the matching area; D4 every division is guarded; "
               "D5 the table lookup sums beam + diffuse of July for the model's zone")
DECIDED = ["D1 scope", "D2 gain term, chains, defaults, orientation", "D3 accumulators and means", "D4 finite without such windows (division guards)", "D5 July irradiation lookup",
           "D6 accumulation loops end only on iterator exhaustion; the F_sh;obst override reaches the indicator unchanged (and_then or map: an entry without the field means no override)",
           "D7 the orientation and tilt classifier tables (shared with C11)"]
UNDECIDED = ["numeric agreement on real models"]
ASSUMPTIONS = ["C20 establishes that the table has all 9 orientations for all 32 zones, so the lookup's unwrap() cannot fail"]
LEVEL_TEXT = ("Formula, scope and guard audit: the window scope is evaluated on all 8 combinations, the gain term and the twelve accumulator updates are normalised and "
              "compared with the statement, precedence chains and defaults are compared in order and by value, and every float division of the function must have a divisor "
              "guarded by a dominating comparison (so a model without such windows reports finite numbers). Numeric agreement on concrete models is not decided.")
LEVEL_NOTE = "Trusted: rustc MIR; exact-rational reading of literals."
TECHNIQUE = "finite truth-table evaluation + normalised comparison of accumulator updates + dominance-based division-guard rule"
FIXTURE_EXPECT = ["c10.div"]


def check_enum_tables(ctx, prog, rule="c10.orient"):
    """a constant array of orientation classes that drives a loop must list all nine classes (a missing class silently drops its windows)"""
    oa = prog.adt("bemodel::types::common::Orientation")
    allv = [v["name"] for v in oa["variants"]]
    n = 0
    for f in sorted(prog.fns.values(), key=lambda f: f.id):
        if f.kind not in ("const", "assocconst", "static") or f.crate != "bemodel":
            continue
        ty = f.body.local_ty(0)
        if "Orientation;" not in ty.replace(" ", "").replace("types::common::", "") and not ty.replace(" ", "").startswith("[types::common::Orientation;"):
            continue
        rns = returned_nodes(f.body)
        vals = []
        for _, rn in rns:
            for x in walk(rn):
                if x[0] == "agg" and x[1].startswith("bemodel::types::common::Orientation::") or (x[0] == "agg" and "Orientation::" in x[1] and not x[3]):
                    vals.append(x[1].split("::")[-1])
        n += 1
        missing = [v for v in allv if v not in vals]
        key = "%s|%s" % (rule, f.path)
        if missing and vals:
            ctx.violation(rule, key, "%s lists the orientation classes %s but not %s: code that iterates over it never sees windows of the missing class "
                          "(HZ = skylights and windows in roofs or floors)" % (f.path.split("::")[-2] + "::" + f.path.split("::")[-1], vals, missing), f.loc())
        elif vals:
            ctx.ok(rule, key, "lists all %d orientation classes" % len(allv), f.loc())
    return n


def run(ctx):
    prog = ctx.prog
    check_enum_tables(ctx, prog)
    # the orientation class of a window is its wall's: compass sectors of the azimuth, HZ by tilt class (the classifier tables C11 reads)
    from .c11 import check_classifiers
    check_classifiers(ctx, prog, rule="c10.classifier")
    f = prog.method("energy::indicators::qsoljul::QSolJulData", None, "from")
    from ..loops import check_no_early_exit
    check_no_early_exit(ctx, "c10.loop", prog, f, "q_sol;jul")
    root = Scope(prog, f)
    bt = [v["name"] for v in prog.adt("bemodel::types::common::BoundaryType")["variants"]]
    filt = [ch for (b, t, ch) in root.children() if ch.via[0] == "filter" and ((ch.via[1].source_name() if ch.via[1] is not None else None) or "").endswith("props.windows")]
    ctx.require(len(filt) >= 1, "QSolJulData::from: window filter not found")
    scope_table(ctx, "c10.scope", "c10.scope|windows", filt, ["is_tenv", "bounds"], {"bounds": bt},
                lambda a: a["is_tenv"] and a["bounds"] in ("EXTERIOR", "GROUND"), f.loc())
    ups = updates(root)
    byd = {}
    for u in ups:
        byd.setdefault(u["dest"], []).append(u)
    # the (g, F_f) pair: a tuple-valued temporary with two definitions
    pair_local = None
    for u in ups:
        if u["dest"] == "g_glshwi" and u["term"][0] == "proj" and u["term"][1][0] == "var":
            pair_local = u["term"][1]
    ctx.require(pair_local is not None, "QSolJulData::from: (g_glshwi, f_f) pair not found")
    pname = pair_local[2]
    pdefs = []
    for d in f.body.defs().get(pair_local[1], []):
        if d[0] == "st":
            pdefs.append(strip(root.rvalue(d[3]["rv"])))
    vals = set()
    for n in pdefs:
        if n[0] == "agg" and len(n[3]) == 2:
            vals.add((origin_desc(strip(n[3][0])), origin_desc(strip(n[3][1]))))
    want = {("0.77", "0.2"), ("get(props.wincons,props.windows[].1.cons)@Some.0.g_glshwi", "get(props.wincons,props.windows[].1.cons)@Some.0.f_f")}
    norm = {(a.replace("BTreeMap::", ""), b.replace("BTreeMap::", "")) for a, b in vals}
    if norm == want:
        ctx.ok("c10.chain", "c10.chain|g,F_f", "(g, F_f) = construction's (g_glshwi, f_f), else (0.77, 0.20)", f.loc())
    else:
        ctx.violation("c10.chain", "c10.chain|g,F_f", "(g, F_f) alternatives are %s, expected the construction's values else (0.77, 0.20)" % sorted(norm), f.loc())
    lm = LeafMap({pname + ".0": "g", pname + ".1": "Ff", "props.windows[].1.area": "a", "props.windows[].1.multiplier": "m", "Q_soljul": "Q", "props.global.a_ref": "Aref",
                  "q_soljul_data.a_wp": "Awp", "Q_soljul_orient": "Qo", "q_soljul_data.detail[].1.a": "Ad", "detail.a": "Ad"},
                 [(r"^unwrap_or\(or\(props\.windows\[\]\.1\.f_shobst_override,props\.windows\[\]\.1\.f_shobst\),1\.0\)$", "Fsh"),
                  (r"^unwrap\((HashMap::)?get\(totradjul,props\.windows\[\]\.1\.orientation\)\)$", "H")])
    term = "Fsh * g * (1 - Ff) * (a * m) * H"
    spec = [("Q_soljul", "+=", term), ("detail.gains", "+=", term), ("detail.a", "+=", "a * m"), ("detail.f_f_mean", "+=", "Ff * (a * m)"),
            ("detail.gglshwi_mean", "+=", "g * (a * m)"), ("detail.fshobst_mean", "+=", "Fsh * (a * m)"), ("q_soljul_data.a_wp", "+=", "a * m"),
            ("q_soljul_data.irradiance_mean", "+=", "H * (a * m)"), ("q_soljul_data.fshobst_mean", "+=", "Fsh * (a * m)"),
            ("q_soljul_data.gglshwi_mean", "+=", "g * (a * m)"), ("q_soljul_data.f_f_mean", "+=", "Ff * (a * m)"), ("detail.irradiance", "=", "H")]
    nacc = 0
    for dest, op, ref in spec:
        us = [u for u in byd.get(dest, []) if u["op"] == op and u["term"][0] != "k"]
        key = "c10.term|%s" % dest
        if len(us) != 1:
            ctx.violation("c10.term", key, "expected exactly one `%s %s ..`, found %d" % (dest, op, len(us)), f.loc())
            continue
        nacc += 1
        compare(ctx, "c10.term", key, us[0]["term"], ref, lm, None, f.loc(us[0]["line"]), "%s %s" % (dest, op))
    ctx.floor("c10.term", "accumulator updates", nacc, 12)
    # F_sh chain
    fsh = None
    for u in byd.get("Q_soljul", []):
        for x in walk(u["term"]):
            if x[0] == "call" and short_callee(x[1]) == "unwrap_or" and "f_shobst" in show(x):
                fsh = x
    ctx.require(fsh is not None, "F_sh expression not found")
    ch = fallback_chain(prog, root, fsh)
    if ch == ["props.windows[].1.f_shobst_override", "props.windows[].1.f_shobst", "1.0"]:
        ctx.ok("c10.chain", "c10.chain|F_sh", "F_sh;obst = [override, computed, 1.0]", f.loc())
    else:
        ctx.violation("c10.chain", "c10.chain|F_sh", "F_sh;obst precedence is %s, expected [f_shobst_override, f_shobst, 1.0]" % ch, f.loc())
    # means divided by the matching area, q = Q / a_ref
    for dest, den in (("q_soljul_data.irradiance_mean", "Awp"), ("q_soljul_data.fshobst_mean", "Awp"), ("q_soljul_data.gglshwi_mean", "Awp"), ("q_soljul_data.f_f_mean", "Awp"),
                      ("q_soljul_data.detail[].1.f_f_mean", "Ad"), ("q_soljul_data.detail[].1.gglshwi_mean", "Ad"), ("q_soljul_data.detail[].1.fshobst_mean", "Ad")):
        us = [u for u in byd.get(dest, []) if u["op"] == "/="]
        key = "c10.mean|%s" % dest
        if len(us) == 1:
            compare(ctx, "c10.mean", key, us[0]["term"], den, lm, None, f.loc(us[0]["line"]), "%s /=" % dest)
        else:
            ctx.violation("c10.mean", key, "expected one `%s /= area`, found %d" % (dest, len(us)), f.loc())
    qs = [u for u in byd.get("q_soljul", []) if u["term"][0] == "bin"]
    if len(qs) == 1:
        compare(ctx, "c10.mean", "c10.mean|q_soljul", qs[0]["term"], "Q / Aref", lm, None, f.loc(qs[0]["line"]), "q_sol;jul")
    else:
        ctx.violation("c10.mean", "c10.mean|q_soljul", "q_sol;jul = Q / A_ref not found", f.loc())
    # D4 divisions
    inv = Inventory(prog, ctx.cg)
    divs = []
    for sc in root.all_scopes():
        divs += float_divisions(inv, sc.fn)
    assign_div_keys(prog, divs, "c10.div")
    ctx.floor("c10.div", "float divisions in QSolJulData::from", len(divs), 8)
    for d in divs:
        if d["guard"]:
            ctx.ok("c10.div", d["key"], d["guard"], d["fn"].loc(d["line"]))
        else:
            ctx.violation("c10.div", d["key"], "division by `%s` is not guarded: a model without envelope windows (or reference area) reports NaN/inf" % d["desc"], d["fn"].loc(d["line"]))
    # D1/D2 inheritance in EnergyProps::from
    ep = prog.method("energy::props::EnergyProps", "convert::From", "from")
    esc = Scope(prog, ep)
    from .c08 import check_override_passthrough
    check_override_passthrough(ctx, "c10.chain", prog, ep, "WinProps", "f_shobst_override", "windows", "f_shobst")
    # the `is_tenv` this indicator filters on is the envelope membership of the statement (the truth table C11 decides, evaluated here too)
    from .c11 import check_envelope_membership
    check_envelope_membership(ctx, prog, ep, esc, rule="c10.scope")
    wl = [(sc, sc.rvalue(s["rv"]), s.get("ln")) for sc in esc.all_scopes() for b, i, s in sc.body.statements()
          if s["s"] == "assign" and s["rv"]["r"] == "agg" and s["rv"].get("adt", "").endswith("props::WinProps")]
    ctx.require(len(wl) == 1, "WinProps literal not found")
    sc, n, ln = wl[0]
    fl = {k: strip(v) for k, v in zip(n[2], n[3])}
    from .c08 import closure_return
    checks = []
    it = origin_desc(fl["is_tenv"])
    checks.append(("is_tenv", "contains(" in it and "model.windows[].wall" in it and "tenv_wall_ids" in show(fl["is_tenv"]) or ("contains(" in it and "model.windows[].wall" in it), it))
    for fld in ("bounds", "orientation", "tilt"):
        nn = fl[fld]
        okf = False
        d = origin_desc(nn)
        if nn[0] == "call" and short_callee(nn[1]) == "unwrap_or_default" and strip(nn[2][0])[0] == "call" and short_callee(strip(nn[2][0])[1]) == "map":
            m = strip(nn[2][0])
            r = closure_return(prog, sc, m[2][1], mkproj(strip(m[2][0]), ("@Some", ".0")))
            okf = r is not None and (leaf_name(r) or origin_desc(r)).endswith("." + fld) and "get(walls,model.windows[].wall)" in origin_desc(r).replace("BTreeMap::", "")
            d = origin_desc(r) if r else d
        checks.append((fld, okf, d))
    mnode = fl["multiplier"]
    okm = False
    if mnode[0] == "call" and short_callee(mnode[1]) == "map_or":
        r = closure_return(prog, sc, mnode[2][2], mkproj(strip(mnode[2][0]), ("@Some", ".0")))
        okm = r is not None and origin_desc(r).endswith(".multiplier") and origin_desc(strip(mnode[2][1])) == "1.0"
    checks.append(("multiplier", okm, origin_desc(mnode)))
    checks.append(("area", "area(model.windows[])" in origin_desc(fl["area"]), origin_desc(fl["area"])))
    for fld, okf, d in checks:
        key = "c10.inherit|WinProps.%s" % fld
        if okf:
            ctx.ok("c10.inherit", key, "taken from the window's wall / the window itself (%s)" % d[:80], ep.loc(ln))
        else:
            ctx.violation("c10.inherit", key, "WinProps.%s is %s: not inherited from the window's wall" % (fld, d[:100]), ep.loc(ln))
    # orientation of a wall: HZ unless tilt class is SIDE
    of = prog.method("types::common::Orientation", "convert::From", "from", inputs_contains="Wall")
    osc = Scope(prog, of)
    tilts = [v["name"] for v in prog.adt("bemodel::types::common::Tilt")["variants"]]
    rows = {}
    for tv in tilts:
        def atom(nn, tv=tv):
            if nn[0] == "discr":
                return str(tilts.index(tv))
            return None
        # targets: blocks assigning _0
        tgt = {}
        for b, i, s in of.body.statements():
            if s["s"] == "assign" and s["p"] == 0:
                tgt[b] = strip(osc.rvalue(s["rv"]))
        for b, t in of.body.calls():
            if t["dest"] == 0:
                tgt[b] = strip(osc._rw(osc.eb.call_node(t, b)))
        sw = [b for b in range(of.body.n) if of.body.blocks[b]["term"]["t"] == "switch"]
        r = TB.walk_decision(osc, sw[0], atom, set(tgt)) if sw else None
        rows[tv] = origin_desc(tgt[r]) if isinstance(r, int) else str(r)
    okr = rows.get("SIDE", "").startswith("from(wall.geometry.azimuth") or "azimuth" in rows.get("SIDE", "")
    okr = okr and all("HZ" in rows.get(t, "") for t in ("TOP", "BOTTOM"))
    if okr:
        ctx.ok("c10.inherit", "c10.inherit|Orientation::from(&Wall)", "SIDE -> compass sector of the azimuth; TOP/BOTTOM -> HZ", of.loc())
    else:
        ctx.violation("c10.inherit", "c10.inherit|Orientation::from(&Wall)", "orientation of a wall by tilt class: %s" % rows, of.loc())
    # D5 table lookup
    tr = prog.find("bemodel::climatedata::total_radiation_in_july_by_orientation")
    tsc = Scope(prog, tr)
    rns = returned_nodes(tr.body)
    okt = False
    det = ""
    if len(rns) == 1:
        n0 = strip(tsc._rw(rns[0][1]))
        ch = iter_chain(n0)
        ads = ch.adaptors()
        fcl = [c for (a, c) in ch.steps if a == "filter"]
        mcl = [c for (a, c) in ch.steps if a == "map"]
        if len(fcl) == 1 and len(mcl) == 1 and "MONTHLYRADDATA" in origin_desc(strip(ch.source)):
            from ..cfgq import elem_of_chain
            el = ("elem", "T", ())
            fr = closure_return(prog, tsc, fcl[0], el)
            mr = closure_return(prog, tsc, mcl[0], el)
            fd = origin_desc(fr) if fr else ""
            okf = fr is not None and fr[0] == "call" and short_callee(fr[1]) == "eq" and "T[].zone" in fd and "climate" in fd
            okmm = False
            if mr is not None and mr[0] == "agg" and len(mr[3]) == 2:
                k0 = leaf_name(strip(mr[3][0]))
                v = strip(mr[3][1])
                if v[0] == "bin" and v[1] == "Add":
                    parts = sorted(origin_desc(strip(x)) for x in (v[2], v[3]))
                    okmm = k0 == "T[].orientation" and parts == ["T[].dif[6]", "T[].dir[6]"] or (k0 == "T[].orientation" and all("[6]" in p or "6" in p for p in parts) and "dif" in parts[0] and "dir" in parts[1])
                det = "%s -> %s" % (k0, origin_desc(v))
            okt = okf and okmm
    if okt:
        ctx.ok("c10.table", "c10.table|july", "H(orientation) = dir[6] + dif[6] of the rows of the model's zone", tr.loc())
    else:
        ctx.violation("c10.table", "c10.table|july", "July irradiation lookup is not `rows of the zone -> (orientation, dir[6] + dif[6])` (%s)" % det, tr.loc())


def run_fixture(ctx):
    prog = ctx.prog
    f = prog.fn_by_path("poscontrol::c14_compute")
    inv = Inventory(prog, ctx.cg)
    divs = float_divisions(inv, f)
    assign_div_keys(prog, divs, "c10.div")
    for d in divs:
        if not d["guard"]:
            ctx.violation("c10.div", d["key"], "unguarded", f.loc(d["line"]))
