"""C14 - Indicator computation is total: never crashes or hangs, finite on sane models."""
from ..panics import Inventory, reachable_sites, assign_keys
from ..floatdiv import float_divisions, assign_div_keys
from ..loops import recursion_cycles
from ..locks import regions
from ..mir import callee_name
from ..exprs import short_callee
from ._totality import report_sites, report_loops, report_divs, sanitize, exc_lookup
from ..spec.triage import C14_EXCEPTIONS, C14_LOOP_EXCEPTIONS, C14_DIV_EXCEPTIONS, CUSTOM_ITER_OK, RECURSION_OK
from .. import types as T

ID = "C14"
LEVEL = "other"
RULE_TEXT = ("inventory of may-panic sites, loops, recursion cycles, lock regions and float divisions in the workspace code reachable from "
             "Model::from_json, Model::energy_indicators, EnergyIndicators::as_json and check; each instance guarded, exempt, excepted with a reason "
             "valid for any model that loads from JSON (panics) or for sane models (divisions), or a finding")
EXPLANATION = ("D1 no unguarded crash site; D2 every loop terminates; D3 no unguarded may-panic site inside a lock region of the shared tables (a failure "
               "cannot poison later computations); D4 every float division has a divisor shown non-zero by constant/clamp/dominating comparison or an "
               "exception derived from the sane-model premise; D5 the result type serialises with string-like map keys")
DECIDED = ["D1 no crash site beyond triage", "D2 no hang", "D3 no panic under a held table lock", "D4 finite on sane models (divisor audit)", "D5 result serialises",
           "D6 the serde attributes of the indicator types pair every omitted value with a default (JSON loads back)"]
UNDECIDED = ["that the exceptions' premises hold for a given model (that is what 'sane' assumes)", "NaN propagation from non-finite inputs"]
ASSUMPTIONS = ["a model that loads from JSON has arbitrary ids and collections; a sane model is referentially closed with positive sizes and non-negative data"]
LEVEL_TEXT = ("Audit with triage over the complete reachable indicator code: every may-panic construct, loop, recursion cycle, lock region and float division is "
              "enumerated from MIR and must be covered by a recognised guard, a reasoned exception or a listed finding; a new unwrap on a lookup by id, an index "
              "without the emptiness filter, a removed `> 0.001` guard or a panic-capable call inside a held table lock is reported with its call chain. "
              "Sound for detecting new sites in workspace code; exceptions are reviewed, not proved.")
LEVEL_NOTE = "Trusted: rustc MIR (dev profile), the guard idioms, the premises written next to each exception in ctecheck/spec/triage.py."
TECHNIQUE = "may-panic and float-division inventories over MIR with dominance-based guards, loop classification, lock-region analysis"
FIXTURE_EXPECT = ["c14.div", "c14.lockpanic"]


def roots(ctx):
    prog = ctx.prog
    r = []
    for n in ("from_json", "energy_indicators"):
        r.append(prog.method("types::model::Model", None, n).id)
    r.append(prog.method("energy::indicators::types::EnergyIndicators", None, "as_json").id)
    r.append(prog.fn_by_path("bemodel::checks::check").id)
    return r


def in_scope(fn, prog):
    return prog.root_of(fn).crate in ("bemodel", "climate")


def lock_panics(ctx, rule, prog, inv, exceptions):
    """D3: unguarded may-panic sites reachable inside a lock region"""
    sites = []
    for fn in sorted(prog.fns.values(), key=lambda f: f.id):
        for b, t in fn.body.calls():
            nm = callee_name(t) or ""
            if "sync::Mutex" in nm and short_callee(nm) in ("lock", "try_lock"):
                sites.append((fn, b, t))
    regs = regions(ctx, prog, sites)
    for r in regs:
        fn = r["fn"]
        key = sanitize("%s|%s|%s" % (rule, prog.root_of(fn).path, r["static"].split("::")[-1]))
        bad = []
        # direct sites in region blocks
        for s in inv.sites_of(fn):
            if s["bb"] in r["blocks"] and s["term"] is not r["term"]:
                inv.classify(s)
                if not s["guard"]:
                    # the unwrap of this very lock result is not a site of its own
                    if s["kind"] == "unwrap" and "lock(" in s["origin"].lower():
                        continue
                    bad.append((fn, s))
        for f2 in sorted(r["reach"]):
            fn2 = prog.fns[f2]
            if fn2.raw.get("impl_derived"):
                continue
            for s in inv.sites_of(fn2):
                inv.classify(s)
                if not s["guard"]:
                    bad.append((fn2, s))
        # sites covered by a C14 exception (reason valid for any model) do not count
        assign_keys(prog, [s for _, s in bad], "c14.panic")
        import re as _re
        mv_ = getattr(ctx, "moved_excepted", set())
        bad = [(f, s) for (f, s) in bad if not exc_lookup(exceptions, sanitize(s["key"])) and _re.sub(r"\|\d+$", "", sanitize(s["key"])) not in mv_]
        und_ = {_re.sub(r"\|\d+$", "", k_) for k_ in getattr(ctx, "undecided_keys", set())}
        if bad and all(_re.sub(r"\|\d+$", "", sanitize(s["key"])) in und_ for _, s in bad):
            # every such site is one the site inventory could not tell from a moved excepted site: the lock rule cannot decide either
            ctx.undecided.append("%s: %d may-panic site(s) inside the lock region of %s are undecided (moved code)" % (key, len(bad), r["static"].split("::")[-1]))
            continue
        if bad:
            f, s = bad[0]
            ctx.violation(rule, key, "%d unguarded may-panic sites reachable while %s is locked (e.g. `%s` on %s at %s): a panic there poisons the mutex and every later "
                          "computation in the process fails at lock().unwrap()" % (len(bad), r["static"].split("::")[-1], s["construct"], s["origin"][:60], f.loc(s["line"])),
                          r["loc"], extra={"sites": [sanitize(s["key"]) for _, s in bad][:30]})
        else:
            ctx.ok(rule, key, "no unguarded may-panic site reachable inside the lock region (%d blocks, %d callee bodies)" % (len(r["blocks"]), len(r["reach"])), r["loc"])
    return regs


def support_obligations(ctx, prog, seen):
    """premises that the triaged exceptions lean on, re-derived from the code (ctecheck/support.py)"""
    from .. import support as S
    # `polygon[0]`, `poly.len() - 1` in the ray tracer: every Occluder is built from a non-empty polygon
    res = S.occluder_polygons_nonempty(prog)
    ctx.floor("c14.support", "Occluder construction sites", len(res), 1)
    for ok, loc, g, disp, why in res:
        key = sanitize("c14.support|occluder-polygon|%s|%s" % (disp, g))
        if ok:
            ctx.ok("c14.support", key, "occluder polygon is non-empty: %s" % why, loc)
        else:
            ctx.violation("c14.support", key, "an Occluder can be built from an empty polygon (%s): `polygon[0]` in Ray::intersects_with_data and `poly.len() - 1` in "
                          "point_in_poly then panic inside energy_indicators (the exceptions for those sites assume non-empty occluder polygons)" % why, loc)
    # the asserts of nday_from_md: only called with (month, day) of the built-in July table
    nd = prog.find("climate::solar::nday_from_md")
    res = S.table_fed_calls(prog, seen, nd.id, "JULYRADDATA")
    for ok, loc, disp, descs in res:
        key = sanitize("c14.support|nday-args|%s" % disp)
        if ok:
            ctx.ok("c14.support", key, "nday_from_md is called with (month, day) read from JULYRADDATA rows", loc)
        else:
            ctx.violation("c14.support", key, "nday_from_md(%s) is called with values that are not rows of the built-in July table: its range asserts and "
                          "`MONTH_DAYS[..month - 1]` can panic" % ", ".join(d[:50] for d in descs), loc)


def sibling_obligations(ctx, prog):
    """exceptions whose reason is a shape another property's rule checks: the same rule is run here under this check's name, so that breaking the shape is
    reported by C14 itself and not only by the sibling (sunlit_fraction's `1 - blocked / rays` leans on the early exit for a window without sample
    points [C12]; the unwraps of build_from_node_list lean on what generate_node_list pushes [C13])"""
    from .c12 import check_exits
    from .c13 import check_tree_element_shapes
    sf = prog.method("types::model::Model", None, "sunlit_fraction")
    n0 = len(ctx.instances)
    check_exits(ctx, prog, sf, rule="c14.support|sunlit_fraction")
    # only the two exits the C14 exception names belong to this property; the others are C12's own clauses
    ctx.instances[n0:] = [i for i in ctx.instances[n0:] if i.key.endswith("|no-sample-points") or i.key.endswith("|fraction")]
    check_tree_element_shapes(ctx, prog, rule="c14.support|node_list")


def run(ctx):
    prog = ctx.prog
    inv = Inventory(prog, ctx.cg)
    rts = roots(ctx)
    seen, sites = reachable_sites(ctx, inv, rts, skip_fn=lambda f: not in_scope(f, prog))
    assign_keys(prog, sites, "c14.panic")
    ctx.floor("c14.reach", "reachable bodies", len(seen), 400)
    ctx.floor("c14.panic", "classified may-panic sites", len(sites), 60)
    report_sites(ctx, "c14.panic", sites, C14_EXCEPTIONS, seen)
    support_obligations(ctx, prog, seen)
    sibling_obligations(ctx, prog)
    nloops = report_loops(ctx, "c14.loop", prog, seen, lambda f: in_scope(f, prog), C14_LOOP_EXCEPTIONS, CUSTOM_ITER_OK)
    ctx.floor("c14.loop", "loops classified", nloops, 20)
    for comp in recursion_cycles(ctx.cg, seen):
        names = sorted({prog.root_of(prog.fns[c]).path for c in comp})
        key = sanitize("c14.recursion|" + "|".join(names)[:200])
        from ..spec.triage import recursion_reason
        if key in RECURSION_OK or recursion_reason(names):
            ctx.exception("c14.recursion", key, RECURSION_OK.get(key) or recursion_reason(names), prog.fns[comp[0]].loc())
        else:
            ctx.violation("c14.recursion", key, "recursion cycle in reachable code: %s" % names, prog.fns[comp[0]].loc())
    # D3
    regs = lock_panics(ctx, "c14.lockpanic", prog, inv, C14_EXCEPTIONS)
    ctx.floor("c14.lockpanic", "lock regions", len(regs), 3)
    # D4
    divs = []
    for fid in sorted(seen):
        fn = prog.fns[fid]
        if fn.raw.get("impl_derived") or not in_scope(fn, prog):
            continue
        divs += float_divisions(inv, fn)
    assign_div_keys(prog, divs, "c14.div")
    ctx.floor("c14.div", "float divisions", len(divs), 35)
    report_divs(ctx, "c14.div", divs, C14_DIV_EXCEPTIONS, seen)
    # D5
    ei = prog.adt("bemodel::energy::indicators::types::EnergyIndicators")
    wseen, ext, fields = T.closure(prog, [ei["id"]])
    badkeys = []
    for (adt, vn, f) in fields:
        from .c04 import walk_tree
        for node in walk_tree(f["tree"]):
            if node.get("k") == "adt" and node["id"] in ("alloc::collections::btree::map::BTreeMap", "std::collections::hash::map::HashMap"):
                kt = node["args"][0]
                okk = (kt.get("k") == "adt" and (kt["id"] in ("uuid::Uuid", "alloc::string::String") or
                       (kt["id"] in prog.adts and all(not v["fields"] for v in prog.adts[kt["id"]]["variants"]))))
                if not okk:
                    badkeys.append((adt["path"], f["name"]))
    if badkeys:
        ctx.violation("c14.serialise", "c14.serialise|mapkeys", "map keys that are not string-like: %s (as_json fails)" % badkeys, None)
    else:
        ctx.ok("c14.serialise", "c14.serialise|mapkeys", "all map keys in the EnergyIndicators closure (%d types) are string-like" % len(wseen), None)
    # ... and the JSON loads back: the serde attributes of the result types pair every omitted value with a default (the audit C04 runs on the model's types)
    from .c04 import Audit, run_audit
    au = Audit(ctx, ei)
    npairs, _ = run_audit(ctx, au, rule="c14.serialise")
    ctx.floor("c14.serialise", "types of the EnergyIndicators closure audited", len(au.seen), 15)


def run_fixture(ctx):
    prog = ctx.prog
    inv = Inventory(prog, ctx.cg)
    root = prog.fn_by_path("poscontrol::c14_compute")
    seen = ctx.cg.reachable([root.id])
    divs = []
    for fid in seen:
        divs += float_divisions(inv, prog.fns[fid])
    assign_div_keys(prog, divs, "c14.div")
    report_divs(ctx, "c14.div", divs, {}, seen)
    lock_panics(ctx, "c14.lockpanic", prog, inv, {})
