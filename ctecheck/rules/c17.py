"""C17 - Schedules (partial): calendar constants, length dispatch, weekday arithmetic, occupancy predicates, load means."""
import itertools
import math
from fractions import Fraction

from ..cfgq import Scope, returned_nodes, bool_taken, iter_chain, closure_id_of, closure_env
from ..exprs import strip, short_callee, show, leaf_name, walk, origin_desc, mkproj, ExprBuilder
from ..facts import AnalysisError
from ..formulas import LeafMap, compare, updates, fallback_chain
from ..mir import callee_name
from .. import tables as TB
from .c06 import local_defs
from .c08 import closure_return
from .c11 import space_closure, predicate_by_value
from .c20 import const_array_numbers

ID = "C17"
LEVEL = "other"
RULE_TEXT = ("day_of_year as a closed-form expression folded for the 12 months and compared with the cumulative month lengths; the length dispatch of weekly and daily "
             "schedules; the period-length computation; the weekday arithmetic of get_year_as_day_sch; the two occupancy predicates as truth tables; the non-zero threshold "
             "in its two copies; the load-mean formulas")
EXPLANATION = ("D1 calendar: day_of_year(d, m) = cumulative MONTH_DAYS + d, periods are successive differences of end days from 0, week lengths 1 -> (id, 7) / 7 -> runs, day "
               "lengths 1 -> 24 copies / 24 kept, other lengths are errors; D2 each period skips running_count % 7 days of its cycled week and takes `count` days, running_count "
               "accumulates the counts; D3 occupancy: spaces with kind != UNINHABITED, inside, loads present; `||` fold over the day's schedules; same non-zero threshold in both "
               "copies; D4 mean load = sum(loads_avg area mult)/sum(area mult), loads_avg = people x sensible + lighting x lighting + equipment x equipment")
DECIDED = ["D1 calendar constants and length dispatch", "D2 weekday alignment arithmetic", "D3 occupancy predicates and threshold", "D4 mean-load formulas",
           "D5 a weekly run is compared with the name it started from (re-bound at each new run)"]
UNDECIDED = ["the expansion's output on concrete schedules (needs evaluation over runtime lists)"]
ASSUMPTIONS = ["Iterator::cycle/skip/take semantics"]
LEVEL_TEXT = ("Partial: the calendar arithmetic is decided by constant folding of the closed form for the twelve months, the dispatch on list lengths and the skip/take/cycle "
              "structure of the weekday alignment are read from MIR, the occupancy predicates are evaluated on all combinations of their atoms, and the load means are "
              "normalised and compared. What the expansion yields on a concrete schedule is NOT decided by this family.")
LEVEL_NOTE = "Trusted: rustc MIR; std iterator semantics."
TECHNIQUE = "constant folding of a def-use expression, decision-table reading, finite truth tables, normalised formula comparison"
FIXTURE_EXPECT = ["c17.calendar"]


def eval_num(n, env):
    """numeric evaluation of an arithmetic node with Fractions (floor, casts to unsigned truncate)"""
    n = strip(n)
    k = n[0]
    if k == "k":
        return Fraction(n[1])
    if k == "cast":
        v = eval_num(n[1], env)
        if v is None:
            return None
        if n[2].startswith(("u", "i")):
            return Fraction(math.floor(v)) if v >= 0 else Fraction(math.ceil(v))
        return v
    if k in ("arg", "var", "upvar", "named"):
        return env.get(n[2])
    if k == "bin":
        a, b = eval_num(n[2], env), eval_num(n[3], env)
        if a is None or b is None:
            return None
        op = n[1]
        if op.startswith("Add"):
            return a + b
        if op.startswith("Sub"):
            return a - b
        if op.startswith("Mul"):
            return a * b
        if op == "Div":
            return a / b if b != 0 else None
        return None
    if k == "proj" and n[2] == (".0",) and strip(n[1])[0] == "bin":
        return eval_num(n[1], env)
    if k == "call":
        nm = short_callee(n[1])
        if nm == "floor":
            v = eval_num(n[2][0], env)
            return Fraction(math.floor(v)) if v is not None else None
        if nm == "sum" and n[2] and env.get("__prog") is not None:
            # CONST[..end].iter().sum() / CONST[a..b].iter().sum() over a constant array of the workspace
            x = strip(n[2][0])
            take = skip = None
            while x[0] in ("call", "cast") and (x[0] == "cast" or (short_callee(x[1]) in ("iter", "into_iter", "copied", "cloned", "take", "skip", "deref", "as_slice", "as_ref") and x[2])):
                if x[0] == "call" and short_callee(x[1]) == "take" and len(x[2]) == 2:
                    take = eval_num(x[2][1], env)
                    if take is None:
                        return None
                if x[0] == "call" and short_callee(x[1]) == "skip" and len(x[2]) == 2:
                    skip = eval_num(x[2][1], env)
                    if skip is None:
                        return None
                x = strip(x[1]) if x[0] == "cast" else strip(x[2][0])
            if x[0] == "kx" and dict(x[1]).get("def") and (take is not None or skip is not None):
                # CONST.iter().skip(a).take(n).sum()
                vals = const_array_numbers(env["__prog"], dict(x[1]).get("def"))
                if vals is not None:
                    lo = int(skip or 0)
                    hi = min(len(vals), lo + int(take)) if take is not None else len(vals)
                    if 0 <= lo <= len(vals) and take is None or (take is not None and take >= 0):
                        return sum((Fraction(v) for v in vals[lo:hi]), Fraction(0))
            if x[0] == "call" and short_callee(x[1]) == "index" and len(x[2]) == 2:
                arr, rng = strip(x[2][0]), strip(x[2][1])
                d = dict(arr[1]).get("def") if arr[0] == "kx" else None
                vals = const_array_numbers(env["__prog"], d) if d else None
                if vals is not None and rng[0] == "agg":
                    fl = dict(zip(rng[2], rng[3]))
                    lo = eval_num(fl["start"], env) if "start" in fl else Fraction(0)
                    hi = eval_num(fl["end"], env) if "end" in fl else Fraction(len(vals))
                    if rng[1].split("::")[-1] == "RangeToInclusive" and hi is not None:
                        hi += 1
                    if lo is not None and hi is not None and 0 <= lo <= hi <= len(vals):
                        return sum((Fraction(v) for v in vals[int(lo):int(hi)]), Fraction(0))
    return None


def check_day_of_year(ctx, prog, fn, month_days, rule="c17.calendar", day_first=True):
    sc = Scope(prog, fn)
    rn = returned_nodes(fn.body)
    if len(rn) != 1:
        raise AnalysisError("%s: one return expected" % fn.path)
    node = strip(sc._rw(rn[0][1]))
    names = [fn.body.names.get(i) for i in range(1, fn.body.argc + 1)]
    if not day_first:
        names = [names[1], names[0]]
    cum = 0
    bad = []
    for m in range(1, 13):
        for d in (1, int(month_days[m - 1])):
            v = eval_num(node, {names[0]: Fraction(d), names[1]: Fraction(m), "__prog": prog})
            want = cum + d
            if v is None:
                raise AnalysisError("%s: expression not foldable (%s)" % (fn.path, show(node)[:120]))
            if v != want:
                bad.append("day_of_year(%d, %d) = %s, calendar says %d" % (d, m, v, want))
        cum += int(month_days[m - 1])
    key = "%s|day_of_year" % rule
    if bad:
        ctx.violation(rule, key, "; ".join(bad[:3]), fn.loc())
    else:
        ctx.ok(rule, key, "closed form agrees with cumulative MONTH_DAYS + d on the first and last day of the 12 months (year total %d)" % cum, fn.loc())


def len_dispatch(sc, body, subject_suffix):
    """switch on len() of a list: {value: target block}, else target"""
    for b in range(body.n):
        t = body.blocks[b]["term"]
        if t["t"] == "switch":
            n = strip(sc.operand(t["d"]))
            if n[0] == "call" and short_callee(n[1]) == "len" and origin_desc(strip(n[2][0])).endswith(subject_suffix):
                return {v: tg for v, tg in t["arms"]}, t["else"], b
    return None, None, None


def check_week_runs(ctx, prog, sf):
    """run-length encoding of the seven daily names of a week, wherever it is written (in schedules_from_bdl or in a private helper of the same module it calls):
    a pair (id, count) starts at count 1, `count += 1` for a name equal to the run's name, the pair is pushed when the name changes; the name compared with
    is re-bound to the day's name whenever a new run starts"""
    from ..cfgq import same_module
    from ..mir import callee_id
    cands = [sf]
    for b_, t_ in sf.body.calls():
        cid = callee_id(t_)
        if cid in prog.fns and prog.fns[cid].root == cid and same_module(prog.fns[cid].path, sf.path) and not prog.fns[cid].raw.get("pub") and prog.fns[cid] not in cands:
            cands.append(prog.fns[cid])
    found = []
    for f_ in cands:
        # updates written in this very function (updates() also follows private helpers: those are looked at as candidates of their own)
        ups_ = [u for u in updates(Scope(prog, f_)) if prog.root_of(u["scope"].fn).id == f_.id]
        inc = [u for u in ups_ if u["op"] == "+=" and u["dest"].endswith(".1")]
        if inc:
            found.append((f_, ups_, inc))
    if len(found) != 1:
        raise AnalysisError("schedules_from_bdl: the run-length encoding of a week's daily names (a `<pair>.1 += ..` update) was found in %d functions" % len(found))
    f_, ups_, inc = found[0]
    base = inc[0]["dest"][:-2]
    runs = [u for u in ups_ if u["dest"] == base]
    okruns = len(inc) == 1 and strip(inc[0]["term"])[0] == "k" and strip(inc[0]["term"])[1] == "1" and \
        all(strip(u["term"])[0] == "agg" and len(strip(u["term"])[3]) == 2 and strip(strip(u["term"])[3][1])[0] == "k" and strip(strip(u["term"])[3][1])[1] == "1" for u in runs) and len(runs) == 2
    if okruns:
        ctx.ok("c17.calendar", "c17.calendar|weekly-runs", "7 daily names are run-length encoded: each name starts a run of 1, equal consecutive names add 1 (runs sum to 7)", f_.loc(inc[0]["line"]))
    else:
        ctx.violation("c17.calendar", "c17.calendar|weekly-runs", "run-length encoding of the week is not `start at 1, += 1 per repeated name` (increment %s; runs start as %s)"
                      % ([show(strip(u["term"]))[:20] for u in inc], [show(strip(u["term"]))[:40] for u in runs]), f_.loc(inc[0]["line"]))
    sb = f_.body
    seb = ExprBuilder(sb)
    cmp_sites = []

    def is_day_elem(x):
        return x[0] == "proj" and strip(x[1])[0] == "call" and short_callee(strip(x[1])[1]) == "next" and x[2] and x[2][0] == "@Some"
    for b_, t_ in sb.calls():
        if short_callee(callee_name(t_) or "") in ("eq", "ne") and len(t_["args"]) == 2:
            a0, a1 = strip(seb.operand(t_["args"][0])), strip(seb.operand(t_["args"][1]))
            for elem, other in ((a0, a1), (a1, a0)):
                if is_day_elem(elem) and not is_day_elem(other):
                    cmp_sites.append((b_, elem, other, t_.get("ln")))
    if len(cmp_sites) != 1:
        raise AnalysisError("%s: the comparison of consecutive day names of a week was not found (%d candidates)" % (f_.path.split("::")[-1], len(cmp_sites)))
    b_, elem, other, ln_ = cmp_sites[0]
    defs_ = sb.defs().get(other[1], []) if other[0] == "var" else []
    rebinds = [d for d in defs_ if d[0] == "st" and strip(seb.rvalue(d[3]["rv"])) == elem]
    oname = other[2] if other[0] == "var" else show(other)[:60]
    if rebinds:
        ctx.ok("c17.calendar", "c17.calendar|weekly-runs|compared-name", "the name a day is compared with (`%s`) is re-bound to the day's name whenever a new run starts" % oname, f_.loc(ln_))
    else:
        ctx.violation("c17.calendar", "c17.calendar|weekly-runs|compared-name", "every day of the week is compared with `%s`, which is never re-bound inside the loop (it stays the "
                      "week's first name): after the first change of name a day equal to the *first* day extends the current run instead of starting a new one, so a week "
                      "A B A A A A A becomes A B B B B B B" % oname, f_.loc(ln_))


def check_period_lists_kept(ctx, prog, rule="c17.calendar"):
    """"the periods of a year add up to 365 days, the runs of a week to 7": the lists of (schedule, count) pairs the converter builds are complete when they
    are built - anything that shortens them afterwards (dedup*, retain, truncate, pop, drain on a list of the schedule conversion) drops days"""
    f = prog.find("bemodel::convert::from_ctehexml::schedules_from_bdl")
    SHORTEN = ("dedup", "dedup_by", "dedup_by_key", "retain", "retain_mut", "truncate", "pop", "drain", "remove", "swap_remove", "clear")
    hits = []
    for sc in Scope(prog, f).all_scopes():
        for b, t in sc.body.calls():
            nm = callee_name(t) or ""
            if short_callee(nm) in SHORTEN and "vec::Vec" in nm:
                hits.append((short_callee(nm), sc.fn.loc(t.get("ln"))))
    key = rule + "|period-lists-kept"
    if hits:
        ctx.violation(rule, key, "the schedule conversion shortens a list it has built (%s): periods or runs that repeat a schedule are merged away together with their days, so a "
                      "year no longer adds up to 365 days" % ", ".join(sorted({h[0] for h in hits})), hits[0][1])
    else:
        ctx.ok(rule, key, "no list of the schedule conversion is shortened after it is built", f.loc())


def check_every_day_counted(ctx, prog, rule="c17.occupancy"):
    """"hours in use ... over the days of the year": the day index runs over 0..year_len, the positions of the expanded calendars.  A range that starts at 1, or
    an inclusive one, skips 1 January (and `get()` hides the index past the end)."""
    ep = prog.method("energy::props::EnergyProps", "convert::From", "from")
    sc = Scope(prog, ep)
    found = []
    ylocals = [l for l, nm in ep.body.names.items() if nm == "year_len"]
    if not ylocals:
        raise AnalysisError("EnergyProps::from: no local called year_len (the number of days of the expanded calendars)")
    yshow = {show(strip(sc.local(l))) for l in ylocals}

    def is_year_len(x):
        return show(strip(x)) in yshow or (leaf_name(strip(x)) or "") == "year_len"
    for b, i, st in ep.body.statements():
        if st["s"] == "assign" and st["rv"]["r"] == "agg" and ("ops::Range" in (st["rv"].get("adt") or "")):
            n = strip(sc.rvalue(st["rv"]))
            if any(is_year_len(x) for x in n[3]):
                found.append((st["rv"].get("adt"), n, st.get("ln")))
    for b, t in ep.body.calls():
        if "RangeInclusive" in (callee_name(t) or "") and short_callee(callee_name(t) or "") == "new" and any(is_year_len(sc.operand(a)) for a in t["args"]):
            found.append(("RangeInclusive", ("agg", "RangeInclusive", ("start", "end"), tuple(strip(sc.operand(a)) for a in t["args"])), t.get("ln")))
    if not found:
        raise AnalysisError("EnergyProps::from: the range of day indexes over year_len was not found")
    key = rule + "|day-range"
    bad = []
    for adt, n, ln in found:
        start = strip(n[3][0])
        incl = "Inclusive" in adt
        if incl or not (start[0] == "k" and str(start[1]).split("_")[0] in ("0", "0usize")):
            bad.append(("%s%s%s" % (show(start)[:10], "..=" if incl else "..", "year_len"), ln))
    if bad:
        ctx.violation(rule, key, "the day index of the occupied-hours count runs over %s: day 0 (1 January) is never counted and the index past the last day is silently "
                      "ignored by get()" % bad[0][0], ep.loc(bad[0][1]))
    else:
        ctx.ok(rule, key, "the day index runs over 0..year_len", ep.loc(found[0][2]))


def run(ctx):
    prog = ctx.prog
    md = const_array_numbers(prog, "climate::MONTH_DAYS")
    ctx.require(md is not None and len(md) == 12 and sum(md) == 365, "climate::MONTH_DAYS not readable or not a 365-day year")
    check_period_lists_kept(ctx, prog)
    check_every_day_counted(ctx, prog)
    # ---------------- schedules_from_bdl dispatch
    sf = prog.find("bemodel::convert::from_ctehexml::schedules_from_bdl")
    root = Scope(prog, sf)
    # the function that turns (day, month) of a yearly schedule into a day number, found by its role: the workspace function called, inside
    # the closure over zip(days, months), with the two components of the pair
    import re as _re
    from ..mir import callee_id
    role = []
    for s2 in root.all_scopes():
        for b2, t2 in s2.body.calls():
            cid = callee_id(t2)
            if cid not in prog.fns or len(t2["args"]) != 2:
                continue
            a0, a1 = strip(s2.eb.operand(t2["args"][0])), strip(s2.eb.operand(t2["args"][1]))
            if not (a0[0] == "proj" and a1[0] == "proj" and a0[1] == a1[1] and {a0[2][-1], a1[2][-1]} == {".0", ".1"}):
                continue
            par = s2.parent
            rtxt = ""
            while par is not None and not rtxt:
                for (b3, t3, ch3) in par.children():
                    if ch3.fn.id == s2.fn.id:
                        rtxt = show(strip(par.operand(t3["args"][0])))
                par = par.parent if not rtxt else None
            m = _re.match(r"^zip\(iter\(deref\((.*?)\.(days|months)\)\), iter\(deref\((.*?)\.(days|months)\)\)\)$", rtxt)
            if m and m.group(2) != m.group(4):
                # which component is the day: zip order x argument order
                first_is_day = m.group(2) == "days"
                arg0_is_first = a0[2][-1] == ".0"
                role.append((prog.fns[cid], first_is_day == arg0_is_first, t2.get("ln")))
    ctx.require(len(role) == 1, "schedules_from_bdl: the (day, month) -> day number call over zip(days, months) was not found (%d candidates)" % len(role))
    doy, day_first, doy_ln = role[0]
    check_day_of_year(ctx, prog, doy, md, day_first=day_first)
    from .c02 import leads_to_err
    for label, suffix, lens in (("daily", "@Day.0.values", ("1", "24")), ("weekly", "@Week.0.days", ("1", "7"))):
        arms, els, b = len_dispatch(root, sf.body, suffix)
        key = "c17.calendar|%s-lengths" % label
        if arms is None:
            ctx.violation("c17.calendar", key, "dispatch on the length of the %s list not found" % label, sf.loc())
            continue
        if set(arms) == set(lens) and leads_to_err(sf.body, els):
            ctx.ok("c17.calendar", key, "lengths %s are converted, every other length is an error return" % sorted(arms, key=int), sf.loc())
        else:
            ctx.violation("c17.calendar", key, "accepted lengths %s (expected %s); other lengths lead to an error: %s" % (sorted(arms), list(lens), leads_to_err(sf.body, els)), sf.loc())
    # values built on the arms
    ups = updates(root)
    vals = [u for u in ups if u["dest"] == "values"]
    descs = [show(u["term"]) for u in vals]
    # daily: 1 -> repeat 24 ; 24 -> clone
    ok24 = any("from_elem(" in d and ", 24)" in d for d in descs) or any("repeat" in d and "24" in d for d in descs)
    okclone = any(d.endswith("@Day.0.values") or "clone(" in d and "@Day.0.values" in d for d in descs)
    if ok24 and okclone:
        ctx.ok("c17.calendar", "c17.calendar|daily-expansion", "1 value -> 24 copies; 24 values kept", sf.loc())
    else:
        ctx.violation("c17.calendar", "c17.calendar|daily-expansion", "daily schedule values are built as %s" % [d[:60] for d in descs], sf.loc())
    ok7 = False
    for u in vals:
        t = strip(u["term"])
        if t[0] == "agg" and t[1] == "vec" and len(t[3]) == 1:
            e = strip(t[3][0])
            if e[0] == "agg" and len(e[3]) == 2 and strip(e[3][1])[0] == "k" and strip(e[3][1])[1] == "7" and \
                    any(x[0] == "call" and "IdMaps" in x[1] and "first(" in show(x) and ".days" in show(x) for x in walk(e[3][0])):
                ok7 = True
    if ok7:
        ctx.ok("c17.calendar", "c17.calendar|weekly-single", "a weekly schedule with one daily schedule expands to (id, 7)", sf.loc())
    else:
        ctx.violation("c17.calendar", "c17.calendar|weekly-single", "single-day weekly schedule does not expand to (id, 7)", sf.loc())
    check_week_runs(ctx, prog, sf)
    # period lengths
    dc = None
    for sc in root.all_scopes():
        for b, t in sc.body.calls():
            if short_callee(callee_name(t) or "") == "checked_sub":
                dc = (sc, t)
    if dc is None:
        ctx.violation("c17.calendar", "c17.calendar|period-lengths", "period lengths are not computed as differences of consecutive end days", sf.loc())
    else:
        sc, t = dc
        raw0 = strip(sc.eb.operand(t["args"][0]))
        raw1 = strip(sc.eb.operand(t["args"][1]))
        # closure parameter (start, end): end - start
        okargs = raw0[0] == "proj" and raw1[0] == "proj" and raw0[1] == raw1[1] and raw0[2][-1] == ".1" and raw1[2][-1] == ".0"
        recv_txt = ""
        par = sc.parent
        while par is not None and not recv_txt:
            for (b2, t2, ch2) in par.children():
                if ch2.fn.id == sc.fn.id:
                    recv_txt = show(strip(par.operand(t2["args"][0])))
            par = par.parent if not recv_txt else None
        okrecv = recv_txt.startswith("zip(iter(") and "skip(iter(" in recv_txt and recv_txt.count("once(0)") == 2 or \
            (recv_txt.startswith("zip(") and "skip(" in recv_txt and "once(0)" in recv_txt)
        if okargs and okrecv:
            ctx.ok("c17.calendar", "c17.calendar|period-lengths", "length = end[i+1] - end[i] over [0, day_of_year(day, month)...] (zip of the list with itself skipped by one)", sf.loc(t.get("ln")))
        else:
            ctx.violation("c17.calendar", "c17.calendar|period-lengths", "period length computation is %s over %s" % ((show(raw0)[:40], show(raw1)[:40]), recv_txt[:120]), sf.loc(t.get("ln")))
        # the day-number function receives day and month in the order of its parameters (decided above, where the closed form is
        # evaluated with the parameter that receives the `days` component as the day)
        ctx.ok("c17.calendar", "c17.calendar|day-month-order", "%s receives the components of zip(days, months); the closed form was checked with the parameter fed from `days` as the day"
               % doy.path.split("::")[-1], sf.loc(doy_ln))
    # ---------------- D2 weekday alignment
    g = prog.method("types::schedules::SchedulesDb", None, "get_year_as_day_sch")
    gs = Scope(prog, g)
    inner = [s2 for s2 in gs.all_scopes() if s2.via and s2.via[0] == "flat_map"]
    ctx.require(len(inner) == 1, "get_year_as_day_sch: flat_map closure not found")
    isc = inner[0]
    rn = returned_nodes(isc.body)
    n0 = strip(isc._rw(rn[0][1])) if len(rn) == 1 else None
    okal = False
    det = show(n0)[:160] if n0 else "?"
    if n0 is not None and n0[0] == "call" and short_callee(n0[1]) == "take":
        cnt = origin_desc(strip(n0[2][1]))
        sk = strip(n0[2][0])
        if sk[0] == "call" and short_callee(sk[1]) == "skip":
            sc_ = strip(sk[2][1])
            cy = strip(sk[2][0])
            okskip = sc_[0] == "bin" and sc_[1] == "Rem" and leaf_name(strip(sc_[2])) == "current_count" and strip(sc_[3])[0] == "k" and strip(sc_[3])[1] == "7"
            okcy = cy[0] == "call" and short_callee(cy[1]) == "cycle" and "to_day_sch" in show(cy) and "get_week" in show(cy)
            okal = okskip and okcy and cnt.endswith(".values[].1")
    if okal:
        ctx.ok("c17.weekday", "c17.weekday|skip-take", "each period: week.to_day_sch().cycle().skip(running_count % 7).take(count)", g.loc())
    else:
        ctx.violation("c17.weekday", "c17.weekday|skip-take", "weekday alignment expression is %s" % det, g.loc())
    gups = [u for u in updates(gs) if u["dest"] == "current_count"]
    incs = [u for u in gups if "AddWithOverflow" in show(u["term"]) or u["op"] == "+="]
    okacc = len(incs) == 1 and ".values[].1" in show(incs[0]["term"]) and any(strip(u["term"])[0] == "k" and strip(u["term"])[1] == "0" for u in gups)
    # order: skip_count is read before the increment
    sk_u = [u for u in updates(gs) if u["dest"] == "skip_count"]
    okorder = bool(sk_u and incs) and (sk_u[0]["bb"] <= incs[0]["bb"])
    if okacc and okorder:
        ctx.ok("c17.weekday", "c17.weekday|running-count", "running_count starts at 0, the skip is taken before adding the period's count", g.loc())
    else:
        ctx.violation("c17.weekday", "c17.weekday|running-count", "running count is not `0, then += count after computing the skip`", g.loc())
    tw = prog.method("types::schedules::ScheduleWeek", None, "to_day_sch")
    tsc = Scope(prog, tw)
    rn = returned_nodes(tw.body)
    n1 = strip(tsc._rw(rn[0][1])) if len(rn) == 1 else None
    okw = False
    if n1 is not None:
        for x in walk(n1):
            if x[0] == "call" and short_callee(x[1]) == "flat_map":
                r = closure_return(prog, tsc, x[2][1], ("elem", "V", ()))
                if r is not None and "from_elem(" in show(r) and "V[].0" in show(r) and "V[].1" in show(r):
                    okw = True
    if okw:
        ctx.ok("c17.weekday", "c17.weekday|to_day_sch", "a week expands each (id, count) run to `count` copies of id", tw.loc())
    else:
        ctx.violation("c17.weekday", "c17.weekday|to_day_sch", "ScheduleWeek::to_day_sch is %s" % (show(n1)[:120] if n1 else "?"), tw.loc())
    # every expansion of a yearly schedule goes through get_year_as_day_sch (whose alignment is decided above): any other reader of the
    # period counts is a second implementation of the weekday alignment
    import re as _re2
    others = {}
    for f in prog.fns.values():
        if f.root != f.id or f.crate != "bemodel" or f.raw.get("impl_derived") or f.path.startswith(("bemodel::convert", "bemodel::purge", "bemodel::checks")):
            continue
        # every body of the function, closures bound to locals included (they are not reached through call arguments)
        for bf in [f] + prog.closures_of(f):
            sc = Scope(prog, bf)
            for b, i, st in sc.body.statements():
                if st["s"] != "assign":
                    continue
                for x in walk(sc.rvalue(st["rv"])):
                    ln = leaf_name(x) if x[0] in ("proj", "elem") else None
                    if ln and _re2.search(r"values\[\]\.1$", ln) and ("get_year(" in ln or ".year[]" in ln) and prog.root_of(sc.fn).id != g.id:
                        others.setdefault(prog.root_of(sc.fn).id, []).append((sc, st.get("ln")))
    for rid, hits in sorted(others.items()):
        rf = prog.fns[rid]
        key = "c17.weekday|second-expansion|%s" % rf.path
        dropped = None
        unaligned = None
        has_running_mod7 = False
        for sc in [Scope(prog, bf) for bf in [rf] + prog.closures_of(rf)]:
            for b, i, st in sc.body.statements():
                if st["s"] == "assign" and st["rv"]["r"] == "bin" and st["rv"]["op"] == "Rem":
                    k = strip(sc.operand(st["rv"]["b"]))
                    if k[0] == "k" and k[1] == "7":
                        has_running_mod7 = True
            for b, t in sc.body.calls():
                if short_callee(callee_name(t) or "") == "take":
                    n = strip(sc._rw(sc.eb.call_node(t, b)))
                    inner = strip(n[2][0]) if n[2] else None
                    if inner is not None and inner[0] == "call" and short_callee(inner[1]) == "skip" and "cycle(" not in show(inner) and ("Rem" in show(inner) or "rem(" in show(inner)):
                        dropped = (show(n)[:120], t.get("ln"))
                    elif inner is not None and "skip(" not in show(inner) and len(n[2]) > 1 and ("Rem" in show(strip(n[2][1])) or "rem(" in show(strip(n[2][1]))):
                        # take(count % len) straight from the start of the week: the leftover days of a period are not aligned with its first weekday
                        unaligned = (show(n)[:120], t.get("ln"))
        if dropped:
            ctx.violation("c17.weekday", key, "%s expands yearly schedules itself and takes the days of a period with `%s`: skip(start %% 7).take(n) without cycle() "
                          "drops the days that run past the end of the week (periods not starting on a Monday lose weekday alignment)" % (rf.path.split("::")[-1], dropped[0]),
                          rf.loc(dropped[1]))
        elif unaligned and not has_running_mod7:
            ctx.violation("c17.weekday", key, "%s expands yearly schedules itself and takes the leftover days of each period with `%s`, from the start of the week: nothing "
                          "tracks the weekday on which the period starts (no running count %% 7, no skip), so a period that starts mid-week is averaged over the wrong "
                          "weekdays" % (rf.path.split("::")[-1], unaligned[0]), rf.loc(unaligned[1]))
        else:
            raise AnalysisError("%s reads the period counts of yearly schedules itself: a second implementation of the weekday alignment whose arithmetic this rule "
                                "does not know (only get_year_as_day_sch is decided)" % rf.path)
    if not others:
        ctx.ok("c17.weekday", "c17.weekday|single-expansion", "get_year_as_day_sch is the only reader of the period counts of yearly schedules in the indicator code", g.loc())
    # ---------------- D3 occupancy
    ep = prog.method("energy::props::EnergyProps", "convert::From", "from")
    eroot = Scope(prog, ep)
    kinds = ["CONDITIONED", "UNCONDITIONED", "UNINHABITED"]
    preds = []
    for sc in eroot.all_scopes():
        if sc.via and sc.via[0] in ("filter", "filter_map") and sc.via[1] is not None and (sc.via[1].source_name() or "").endswith("spaces"):
            txt = " ".join(show(strip(sc._rw(rn))) for _, rn in returned_nodes(sc.body))
            body_txt = " ".join(origin_desc(sc.operand(sc.body.blocks[b]["term"]["d"])) for b in range(sc.body.n) if sc.body.blocks[b]["term"]["t"] == "switch")
            body_txt += " " + " ".join(origin_desc(strip(sc._rw(sc.eb.call_node(t, b)))) for b, t in sc.body.calls() if t["dest"] == 0)
            # found by role (a selection of spaces that looks at their loads), not by the conjunct this rule is about
            if "loads" in body_txt and ("inside_tenv" in body_txt or "kind" in body_txt):
                preds.append(sc)
    ctx.floor("c17.occupancy", "occupancy predicates", len(preds), 2)
    for i, sc in enumerate(preds):
        names = ["kind", "inside_tenv", "loads"]
        bad = []
        for kd, ins, ld in itertools.product(kinds, (True, False), (True, False)):
            at = TB.Atoms({"kind": kd, "inside_tenv": ins, "loads": ld}, {"kind": kinds})
            r = TB.eval_return(sc, at.value)
            if isinstance(r, tuple) and r and r[0] == "stuck":
                raise AnalysisError("occupancy predicate %d not evaluable: %s" % (i, r[1]))
            r = strip(r)
            if r[0] == "k":
                val = r[1] == "true"
            elif r[0] == "agg" and r[1].endswith("None"):
                val = False
            else:
                v = at.value(r)
                val = (v == "1") if v is not None else True      # a non-constant value (Some(..)/and_then) means "counted"
            want = kd != "UNINHABITED" and ins and ld
            if val != want:
                bad.append("(%s, inside=%s, loads=%s) -> %s" % (kd, ins, ld, val))
        key = "c17.occupancy|predicate|%d" % i
        if bad:
            ctx.violation("c17.occupancy", key, "occupied-space predicate differs on %d of 12 cases: %s" % (len(bad), "; ".join(bad[:3])), ep.loc())
        else:
            ctx.ok("c17.occupancy", key, "spaces counted iff kind != UNINHABITED and inside the envelope and loads present (12 cases)", ep.loc())
    # threshold copies
    th = []
    for fn_, label in ((ep, "EnergyProps::from"), (prog.method("types::schedules::ScheduleDay", None, "values_is_not_zero"), "ScheduleDay::values_is_not_zero")):
        r0 = Scope(prog, fn_)
        for sc in r0.all_scopes():
            for _, rn in returned_nodes(sc.body):
                n = strip(sc._rw(rn))
                if n[0] == "bin" and n[1] == "Gt" and strip(n[2])[0] == "call" and short_callee(strip(n[2])[1]) == "abs":
                    c = TB.const_eval(n[3])
                    if c is not None:
                        th.append((label, c))
    vals_ = {c for _, c in th}
    if len(th) >= 2 and len(vals_) == 1:
        ctx.ok("c17.occupancy", "c17.occupancy|threshold", "the 'non-zero' threshold is the same constant (%g) in its %d copies" % (float(th[0][1]), len(th)), ep.loc())
    else:
        ctx.violation("c17.occupancy", "c17.occupancy|threshold", "non-zero thresholds differ or are missing: %s" % [(l, float(c)) for l, c in th], ep.loc())
    # `||` fold
    okfold = False
    for sc in eroot.all_scopes():
        for _, rn in returned_nodes(sc.body):
            n = strip(sc._rw(rn))
    for sc in eroot.all_scopes():
        if sc.via and sc.via[0] == "map" and sc.via[1] is not None and "zip" in sc.via[1].adaptors():
            # closure |(a, b)| *a || *b : a switch on one component returning true / the other
            txt = [origin_desc(strip(sc.operand(sc.body.blocks[b]["term"]["d"]))) for b in range(sc.body.n) if sc.body.blocks[b]["term"]["t"] == "switch"]
            rets = [show(strip(sc._rw(rn))) for _, rn in returned_nodes(sc.body)]
            if len(txt) == 1 and any(r == "true" for r in rets) and len(rets) == 2:
                okfold = True
    if okfold:
        ctx.ok("c17.occupancy", "c17.occupancy|any-schedule", "an hour counts when any of the day's distinct schedules is non-zero (`a || b` fold)", ep.loc())
    else:
        ctx.violation("c17.occupancy", "c17.occupancy|any-schedule", "hourly flags are not combined with `||`", ep.loc())
    # ---------------- D4 mean load
    eups = updates(eroot)
    la = [u for u in eups if u["dest"] == "loads_avg"]
    ctx.require(len(la) == 1, "EnergyProps::from: loads_avg not found")
    lmL = LeafMap({"people_sch_avg": "p", "lighting_sch_avg": "l", "equipment_sch_avg": "e", "model.loads[].people_sensible": "ps", "model.loads[].lighting": "li",
                   "model.loads[].equipment": "eq"},
                  [(r"map_or\(model\.loads\[\]\.people_schedule,0\.0", "p"), (r"map_or\(model\.loads\[\]\.lighting_schedule,0\.0", "l"),
                   (r"map_or\(model\.loads\[\]\.equipment_schedule,0\.0", "e")])
    compare(ctx, "c17.load", "c17.load|loads_avg", la[0]["term"], "p*ps + l*li + e*eq", lmL, None, ep.loc(la[0]["line"]), "loads_avg")
    oa = local_defs(eroot, "occ_spaces_average_load")
    ctx.require(len(oa) == 1, "occ_spaces_average_load not found")
    q = [(b, n, ln) for b, n, ln in next(iter(oa.values())) if n[0] == "bin" and n[1] == "Div"]
    if len(q) == 1:
        num, den = strip(q[0][1][2]), strip(q[0][1][3])
        # both are components of one fold
        f0 = strip(num[1]) if num[0] == "proj" else None
        okf = num[0] == "proj" and den[0] == "proj" and num[2] == (".0",) and den[2] == (".1",) and f0 == strip(den[1]) and f0[0] == "call" and short_callee(f0[1]) == "fold"
        if okf:
            r = closure_return(prog, eroot, f0[2][2], None)
        if okf:
            cid = closure_id_of(strip(f0[2][2]))
            cfn = prog.fns[cid]
            csc = Scope(prog, cfn, closure_env(strip(f0[2][2])), ("elem", "S", ()), eroot, None, 3)
            rr = [strip(csc._rw(rn)) for _, rn in returned_nodes(cfn.body)]
            okterms = False
            if len(rr) == 1 and rr[0][0] == "agg" and len(rr[0][3]) == 2:
                lmM = LeafMap({"S[].area": "a", "S[].multiplier": "m", "_2.0": "accl", "_2.1": "acca"}, [(r"^map_or\(S\[\]\.loads", "L"), (r"\.0\.0$|acc_load$", "accl"), (r"\.0\.1$|acc_area$", "acca")])
                t0, t1 = strip(rr[0][3][0]), strip(rr[0][3][1])
                compare(ctx, "c17.load", "c17.load|mean-numerator", t0, "accl + L*a*m", lmM, None, ep.loc(), "sum(load x area x multiplier)")
                compare(ctx, "c17.load", "c17.load|mean-denominator", t1, "acca + a*m", lmM, None, ep.loc(), "sum(area x multiplier)")
                okterms = True
            if not okterms:
                ctx.violation("c17.load", "c17.load|mean", "fold accumulator is not a (load, area) pair", ep.loc())
        else:
            ctx.violation("c17.load", "c17.load|mean", "mean load is not total_load / total_area of one fold over the occupied spaces", ep.loc())
    else:
        ctx.violation("c17.load", "c17.load|mean", "occ_spaces_average_load = total_load / total_area not found", ep.loc())


def run_fixture(ctx):
    prog = ctx.prog
    f = prog.fn_by_path("poscontrol::c17_day_of_year")
    check_day_of_year(ctx, prog, f, [31, 28, 31, 30, 31, 30, 31, 31, 30, 31, 30, 31])
